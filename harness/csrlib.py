"""Helpers to build real CSR banks from a register spec and to drive / observe them over the CSR bus.
Shared by C12 (owner), C14 and C15.

  Reg(kind, size, ...)            python-side register description (mirrors Lean `Litex.Csr.RegSpec`)
  build_reg(reg, name)            -> real CSR / CSRStatus / CSRStorage object from /repo (explicit names)
  spec_of(obj)                    -> Reg harvested from a real CSR object (e.g. Timer().get_csrs())
  lean_regs(regs)                 -> token string understood by `Litex.Csr.parseRegs`
  ref_layout(regs, bw, ordering)  -> independent (documentation-derived) address map, used by the monitor
  BankInst                        -> one real `CSRBank` as an explore.py instance (modes A and B)
  RegFileMonitor                  -> property oracle: reference register file with strobe log
  bus_write / bus_read            -> drive one bus access on a Netlist
"""
import itertools
from netlist import Netlist
from migen import Module, Signal
from litex.soc.interconnect import csr as _csr
from litex.soc.interconnect import csr_bus as _csr_bus

STORAGE, STATUS, RAW = "storage", "status", "raw"


_KIND_NUM = {STORAGE: 0, STATUS: 1, RAW: 2}


class Field:
    def __init__(self, name, size=1, offset=None, reset=0, pulse=False):
        self.name, self.size, self.offset, self.reset, self.pulse = name, size, offset, reset, pulse

    def __repr__(self):
        return "Field(%s,%d@%s,rst=%d%s)" % (self.name, self.size, self.offset, self.reset, ",pulse" if self.pulse else "")


class Reg:
    """kind storage: CSRStorage(size, reset, atomic_write=atomic, write_from_dev=wfd, fields)
       kind status : CSRStatus(size, reset, read_only=not wfd, fields)
       kind raw    : CSR(size)"""

    def __init__(self, kind, size=1, reset=0, atomic=False, wfd=False, fields=(), n=None, name=None):
        self.kind, self.size, self.reset, self.atomic, self.wfd = kind, size, reset, atomic, wfd
        self.fields = list(fields)
        self.n = n
        self.name = name

    def resolved_fields(self):
        """(size, offset, reset, pulse) with offsets resolved as documented: next free bit unless declared."""
        out, off = [], 0
        for f in self.fields:
            o = off if f.offset is None else f.offset
            out.append((f.size, o, f.reset, f.pulse))
            off = o + f.size
        return out

    def eff_size(self):
        if self.fields:
            s, o, _, _ = self.resolved_fields()[-1]
            return o + s
        return self.size

    def eff_reset(self):
        if self.fields:
            r = 0
            for (s, o, rst, _) in self.resolved_fields():
                r |= rst << o
            return r
        return self.reset

    def __repr__(self):
        return "Reg(%s,%d%s%s%s%s)" % (self.kind, self.eff_size(), ",rst=%d" % self.eff_reset() if self.eff_reset() else "",
                                       ",atomic" if self.atomic else "", ",wfd" if self.wfd else "",
                                       "," + repr(self.fields) if self.fields else "")


def build_reg(reg, name):
    """Instantiate the real CSR object.  Names are always explicit (py3.12 tracer)."""
    fields = [_csr.CSRField(f.name, size=f.size, offset=f.offset, reset=f.reset, pulse=f.pulse) for f in reg.fields]
    if reg.kind == STORAGE:
        return _csr.CSRStorage(reg.size, reset=reg.reset, fields=fields, atomic_write=reg.atomic,
                               write_from_dev=reg.wfd, name=name, n=reg.n)
    if reg.kind == STATUS:
        return _csr.CSRStatus(reg.size, reset=reg.reset, fields=fields, read_only=not reg.wfd, name=name, n=reg.n)
    return _csr.CSR(reg.size, name=name, n=reg.n)


def spec_of(obj):
    """Harvest a `Reg` from a real CSR object."""
    fields = []
    if hasattr(obj, "fields"):
        for f in obj.fields.fields:
            fields.append(Field(f.name, f.size, f.offset, f.reset_value, f.pulse))
    if isinstance(obj, _csr.CSRStorage):
        return Reg(STORAGE, obj.size, obj.storage.reset.value, obj.atomic_write, hasattr(obj, "dat_w"), fields,
                   n=obj.n, name=obj.name)
    if isinstance(obj, _csr.CSRStatus):
        return Reg(STATUS, obj.size, obj.status.reset.value, False, not obj.read_only, fields, n=obj.n, name=obj.name)
    if isinstance(obj, _csr.CSR):
        return Reg(RAW, obj.size, n=obj.n, name=obj.name)
    raise TypeError(obj)


def lean_regs(regs):
    """`<nregs> (<kind> <size> <reset> <atomic> <wfd> <nfields> (<fsize> <foffset> <freset> <fpulse>)*)*`"""
    toks = [len(regs)]
    for r in regs:
        fs = r.resolved_fields()
        toks += [_KIND_NUM[r.kind], r.eff_size(), r.eff_reset() if r.kind == STORAGE else 0, int(r.atomic),
                 int(r.wfd), len(fs)]
        for (s, o, rst, p) in fs:
            toks += [s, o, rst, int(p)]
    return " ".join(map(str, toks))


def ref_layout(regs, bw, ordering):
    """Address map as documented (wiki "CSR Bus" / csr.py docstrings), written independently of the Lean model:
    registers in description order, each occupying ceil(size/bw) consecutive words; ordering "big" puts the most
    significant word at the lowest address, "little" the least significant.
    Returns a list indexed by word address of (reg index, lo bit, nbits, is_highest_address_word)."""
    words = []
    for k, r in enumerate(regs):
        size = r.eff_size()
        if r.kind == RAW:
            words.append((k, 0, size, True))
            continue
        nw = -(-size // bw)
        idx = list(range(nw))
        if ordering == "big":
            idx.reverse()
        for p, i in enumerate(idx):
            words.append((k, i * bw, min(bw, size - i * bw), p == nw - 1))
    return words


def bus_write(n, bus, adr, dat, tick=True):
    n.set(bus.adr, adr); n.set(bus.we, 1); n.set(bus.re, 0); n.set(bus.dat_w, dat); n.settle()
    if tick:
        n.tick()
        n.set(bus.we, 0); n.settle()


def bus_read(n, bus, adr):
    n.set(bus.adr, adr); n.set(bus.we, 0); n.set(bus.re, 1); n.settle()
    n.tick()
    n.set(bus.re, 0); n.settle()
    return n.getu(bus.dat_r)


def _log2(x):
    r = (x - 1).bit_length()
    assert 1 << r == x
    return r


class InstanceError(Exception):
    """Raised when the real code cannot be built/driven the way it is on the unchanged tree; carries the
    instance name and the input at hand so the runner can report it."""


class _InstBase:
    """Common robustness plumbing: every exception while driving the real code is re-raised with the instance name
    and the letter at hand; combinational loops and runaway instances end as exceptions, not as endless runs."""
    budget_s = 1500.0
    _t_end = float("inf")         # armed by build_guarded

    def _arm(self):
        import time
        self._t_end = time.time() + self.budget_s
        n = self.netlist
        ev = n.ev

        def bounded_propagate():
            modified = ev.commit()
            k = 0
            while modified:
                k += 1
                if k > 20000:
                    raise InstanceError("instance %s: combinational logic does not settle" % self.name)
                ev.execute(n.comb)
                modified = ev.commit()
        n._propagate = bounded_propagate

    def apply(self, letter):
        import time
        if time.time() > self._t_end:
            raise InstanceError("instance %s exceeded its time budget of %ds (state explosion or hang); last input %r"
                                % (self.name, self.budget_s, tuple(letter)))
        try:
            self._apply(letter)
        except InstanceError:
            raise
        except Exception as e:
            raise InstanceError("instance %s: driving the real code raised %r on input %r" % (self.name, e, tuple(letter))) from e

    def sample(self):
        try:
            return self._sample()
        except Exception as e:
            raise InstanceError("instance %s: observing the real code raised %r" % (self.name, e)) from e


def build_guarded(name, ctor, *a, **kw):
    """Build an instance; constructor failures (assertion, missing attribute, alarm after 60 s) carry the name."""
    import signal

    def on_alarm(sig, frm):
        raise InstanceError("instance %s: elaboration did not finish within 60 s" % name)
    old = None
    try:
        old = signal.signal(signal.SIGALRM, on_alarm)
        signal.alarm(60)
    except ValueError:
        old = None
    try:
        inst = ctor(name, *a, **kw)
        inst._arm()
        return inst
    except InstanceError:
        raise
    except Exception as e:
        raise InstanceError("instance %s: building the real code raised %r" % (name, e)) from e
    finally:
        if old is not None:
            signal.alarm(0)
            signal.signal(signal.SIGALRM, old)


def ref_page_bits(width, depth, bw, paging):
    """Width of the page register a memory window needs (from the parameters: number of CSR pages it spans)."""
    words = depth * (-(-width // bw))
    pages = -(-words // (paging // 4))
    return (pages - 1).bit_length() if pages > 1 else 0


def ref_sort(regs):
    """Placement of gathered registers as documented: fixed ones at their `n`, the others in the first free
    slots in order, free slots filled with 1-bit `reserved` CSRs.  (Callers avoid the n == length corner.)"""
    L = len(regs)
    for r in regs:
        if r.n is not None and r.n > L:
            L = r.n + 1
    slots = [None] * L
    for r in regs:
        if r.n is not None:
            assert slots[r.n] is None
            slots[r.n] = r
    free = [i for i in range(L) if slots[i] is None]
    for r in regs:
        if r.n is None:
            slots[free.pop(0)] = r
    return [x if x is not None else Reg(RAW, 1, name="reserved%d" % i) for i, x in enumerate(slots)]


def alias_addresses(base_adr, nwords, pbits, aw):
    """Addresses that must NOT reach the bank's registers although they differ from a populated address in a single
    bit (in-page bits: unpopulated words; page bits: other banks), plus every in-page address of small pages."""
    out = []
    for i in sorted({0, max(1, nwords) - 1}):
        for b in range(aw if i == 0 else pbits):      # page-number bits: from word 0 only
            a = (base_adr + i) ^ (1 << b)
            if not (base_adr <= a < base_adr + nwords):
                out.append(a)
    if pbits <= 4:
        out += [base_adr + a for a in range(nwords, 1 << pbits)]
    return sorted(set(out))


class RegPorts:
    """Drive/observe one real register."""

    def __init__(self, reg, obj):
        self.reg, self.obj = reg, obj
        self.fields = reg.resolved_fields()

    def drive(self, n, we, dat):
        r, o = self.reg, self.obj
        if r.kind == STORAGE:
            if r.wfd:
                n.set(o.we, we)
                n.set(o.dat_w, dat)
        elif r.kind == STATUS:
            if r.fields:
                for f, (s, off, _, _) in zip(r.fields, self.fields):
                    n.set(getattr(o.fields, f.name), (dat >> off) & ((1 << s) - 1))
            else:
                n.set(o.status, dat)
        else:
            n.set(o.w, dat)

    def sample(self, n):
        r, o = self.reg, self.obj
        if r.kind == STORAGE:
            return [n.getu(o.storage), n.getu(o.re), 0, 0] + [n.getu(getattr(o.fields, f.name)) for f in r.fields]
        if r.kind == STATUS:
            return [n.getu(o.r) if r.wfd else 0, n.getu(o.re), n.getu(o.we), 0]
        return [0, n.getu(o.re), n.getu(o.we), n.getu(o.r)]

    def nouts(self):
        return 4 + (len(self.reg.fields) if self.reg.kind == STORAGE else 0)


def dev_choices(reg, values):
    """Non-default device-side inputs `(we, dat)` of one register for the mode-A alphabet."""
    # values are NOT masked to the register size: the netlist truncates to the width the implementation gave the
    # signal, the model to the declared size -- a mis-sized signal shows up as a difference
    mask = (1 << reg.eff_size()) - 1
    if reg.kind == STORAGE:
        return [(1, v) for v in values] if reg.wfd else []
    return [(0, v) for v in values if v & mask]


class BankInst(_InstBase):
    """One real CSRBank.  Letter = (adr, re, we, dat_w, dev_we_0, dev_dat_0, dev_we_1, dev_dat_1, ...).
    Outputs = [dat_r] + per register [val, re, we, r] + storage field signals."""

    def __init__(self, name, regs, bw=8, ordering="big", paging=0x800, address=0, aw=14,
                 data_values=(0xA5A5A5A5A5, 0x5A5A5A5A5A), dev_values=(0x3C3C3C3C3C, 0xFFFFFFFFFF),
                 extra_adrs=None, monitor_atomic=True, default_bus=False, alias=True):
        self.name = name
        self.regs = regs
        self.bw, self.ordering, self.paging, self.address, self.aw = bw, ordering, paging, address, aw
        self.pbits = _log2(paging // 4)
        self.objs = [build_reg(r, r.name or "r%d" % k) for k, r in enumerate(regs)]
        if default_bus:
            # the constructor's own default paths: bus=None -> Interface(), paging/ordering defaults
            assert (bw, aw, paging, ordering) == (8, 14, 0x800, "big")
            self.bank = _csr_bus.CSRBank(self.objs, address) if address else _csr_bus.CSRBank(self.objs)
            self.bus = self.bank.bus
        else:
            self.bus = _csr_bus.Interface(data_width=bw, address_width=aw)
            self.bank = _csr_bus.CSRBank(self.objs, address=address, bus=self.bus, paging=paging, ordering=ordering)
        self.netlist = Netlist(self.bank)
        self.ports = [RegPorts(r, o) for r, o in zip(regs, self.objs)]
        self.lean_open = "bank %d %d %d %d %s" % (bw, 0 if ordering == "big" else 1, self.pbits, address,
                                                   lean_regs(regs))
        self.nwords = len(ref_layout(regs, bw, ordering))      # from the description, not from the bank built
        self.monitor_atomic = monitor_atomic
        # qualifiers: `r` of a raw CSR is only meaningful under its `re`
        self.qual = [None]
        base = 1
        for p in self.ports:
            q = [None] * p.nouts()
            if p.reg.kind == RAW:
                q[3] = base + 1
            self.qual += q
            base += p.nouts()
        # ---- mode A alphabet
        dmask = (1 << bw) - 1
        base_adr = address << self.pbits
        adrs = [base_adr + a for a in range(min(self.nwords + 1, 1 << self.pbits))]
        other = ((address ^ 1) << self.pbits)          # same word index 0 in another bank
        adrs.append(other)
        self.aliases = [a for a in alias_addresses(base_adr, self.nwords, self.pbits, aw) if a not in adrs]
        if extra_adrs:
            adrs += list(extra_adrs)
        self.adrs = adrs
        bus_letters = []
        for a in adrs:
            bus_letters.append((a, 0, 0, 0))
            bus_letters.append((a, 1, 0, 0))
            for d in data_values:
                bus_letters.append((a, 0, 1, d & dmask))
        bus_letters.append((base_adr, 1, 1, data_values[0] & dmask))     # re and we together
        alias_letters = []
        if alias:
            for a in self.aliases:                                       # single-bit aliases: write and read only
                alias_letters.append((a, 0, 1, data_values[-1] & dmask))
                alias_letters.append((a, 1, 0, 0))
        nodev = [(0, 0)] * len(regs)
        dev_letters = [tuple(nodev)]
        for k, r in enumerate(regs):
            for ch in dev_choices(r, dev_values):
                l = list(nodev)
                l[k] = ch
                dev_letters.append(tuple(l))
        allact = [(dev_choices(r, dev_values) or [(0, 0)])[0] for r in regs]
        if tuple(allact) not in dev_letters:
            dev_letters.append(tuple(allact))
        self.alphabet = [b + tuple(itertools.chain(*d)) for b in bus_letters for d in dev_letters]
        self.alphabet += [b + tuple(itertools.chain(*nodev)) for b in alias_letters]
        self.inputs = None
        self.outputs = None

    def _apply(self, letter):
        n = self.netlist
        adr, re, we, dat = letter[:4]
        n.set(self.bus.adr, adr); n.set(self.bus.re, re); n.set(self.bus.we, we); n.set(self.bus.dat_w, dat)
        for k, p in enumerate(self.ports):
            p.drive(n, letter[4 + 2 * k], letter[5 + 2 * k])
        n.settle()

    def _sample(self):
        n = self.netlist
        outs = [n.getu(self.bus.dat_r)]
        for p in self.ports:
            outs += p.sample(n)
        return outs

    def nontrivial(self, letter, outs):
        adr, re, we = letter[:3]
        sel = (adr >> self.pbits) == self.address
        return bool((sel and (re or we)) or any(letter[4 + 2 * k] for k in range(len(self.regs))))

    def gen(self, rng, t):
        """Random bus/device activity for mode B: mostly populated addresses, bursts of ascending multi-word
        writes, occasional accesses to other pages and unpopulated words."""
        dmask = (1 << self.bw) - 1
        x = rng.random()
        base_adr = self.address << self.pbits
        if x < 0.65:
            adr = base_adr + rng.randrange(max(1, self.nwords))
        elif x < 0.75:
            adr = (base_adr + rng.randrange(max(1, self.nwords))) ^ (1 << rng.randrange(self.aw))     # single-bit alias
        elif x < 0.80:
            adr = base_adr + rng.randrange(1 << self.pbits)
        elif x < 0.90:
            adr = rng.randrange(1 << self.aw)
        else:
            adr = ((self.address ^ rng.randrange(1, 4)) << self.pbits) + rng.randrange(max(1, self.nwords))
        adr &= (1 << self.aw) - 1
        y = rng.random()
        re, we = (0, 0) if y < 0.2 else (1, 0) if y < 0.5 else (0, 1) if y < 0.95 else (1, 1)
        dat = rng.choice((0, dmask, rng.getrandbits(self.bw), rng.getrandbits(self.bw)))
        letter = [adr, re, we, dat]
        for r in self.regs:
            m = (1 << r.eff_size()) - 1
            wide = r.eff_size() + (3 if rng.random() < 0.2 else 0)      # sometimes wider than declared
            if r.kind == STORAGE:
                letter += [1 if (r.wfd and rng.random() < 0.15) else 0, rng.getrandbits(wide) if r.wfd else 0]
            else:
                letter += [0, rng.choice((0, m, rng.getrandbits(wide)))]
        return tuple(letter)

    def monitor(self):
        return RegFileMonitor(self.regs, self.bw, self.ordering, self.pbits, self.address,
                              check_atomic=self.monitor_atomic)


class RegFileMonitor:
    """Property oracle on the real code, independent of the Lean model.  It keeps a reference register file
    (one integer per storage) and a strobe log and checks, cycle by cycle, what C12 states:
      * a bus write changes exactly the addressed bits of the addressed storage (device writes aside);
        an atomic storage changes only in the cycle its highest-address word is written, and then takes all
        words written since (software writing the words in ascending address order);
      * the bus read data one cycle after a selected access is the then-current value of the addressed word,
        and 0 after an access elsewhere (other bank, unpopulated word);
      * `re`/`we` strobes are single-cycle and appear only for accesses to that register's strobe word;
      * storage field signals sit at their declared offsets, pulse fields are non-zero only under `re`.
    Observation order: `observe(letter, outs)` is called with the inputs of cycle t and the outputs sampled in
    cycle t (before the clock edge)."""

    def __init__(self, regs, bw, ordering, pbits, address, check_atomic=True):
        self.regs, self.bw, self.ordering, self.pbits, self.address = regs, bw, ordering, pbits, address
        self.words = ref_layout(regs, bw, ordering)
        self.check_atomic = check_atomic
        self.val = [r.eff_reset() & ((1 << r.eff_size()) - 1) if r.kind == STORAGE else 0 for r in regs]
        self.pending = [dict() for _ in regs]        # atomic: words written since the last commit
        self.exp_datr = 0
        self.exp_re = [0] * len(regs)                # registered strobes expected in the next cycle
        self.first = True
        self.offs = []
        o = 1
        for r in regs:
            self.offs.append(o)
            o += 4 + (len(r.fields) if r.kind == STORAGE else 0)

    def _atomic(self, r):
        return r.kind == STORAGE and r.atomic and r.eff_size() > self.bw

    def observe(self, letter, outs, check_datr=True):
        adr, bre, bwe, dat = letter[:4]
        regs = self.regs
        msg = None
        # ---- check the outputs of this cycle against what earlier cycles imply
        if check_datr and outs[0] != self.exp_datr:
            msg = "dat_r = %#x, expected %#x (value of the word addressed in the previous cycle)" % (outs[0], self.exp_datr)
        sel = (adr >> self.pbits) == self.address
        idx = adr & ((1 << self.pbits) - 1)
        hit = self.words[idx] if sel and idx < len(self.words) else None
        for k, r in enumerate(regs):
            o = self.offs[k]
            val, re, we, rr = outs[o:o + 4]
            if r.kind == STORAGE:
                if val != self.val[k] and msg is None:
                    if self._atomic(r) and not self.check_atomic:
                        self.val[k] = val       # excluded region (known finding): resynchronise
                    else:
                        msg = "storage %d = %#x, expected %#x (a write must change exactly the addressed bits%s)" % (
                            k, val, self.val[k], "; atomic: all at once on the last word" if self._atomic(r) else "")
                if re != self.exp_re[k] and msg is None:
                    msg = "storage %d re = %d, expected %d (single-cycle strobe after a write to its last word)" % (k, re, self.exp_re[k])
                for j, (fs, fo, frst, fp) in enumerate(r.resolved_fields()):
                    fv = outs[o + 4 + j]
                    exp = (val >> fo) & ((1 << fs) - 1)
                    if fp:
                        if not re and fv != (frst & ((1 << fs) - 1)) and msg is None:
                            msg = "pulse field %d of storage %d is %d outside the write strobe" % (j, k, fv)
                        if re and fv != exp and msg is None:
                            msg = "pulse field %d of storage %d = %d, expected %d" % (j, k, fv, exp)
                    elif fv != exp and msg is None:
                        msg = "field %d of storage %d = %#x, expected bits [%d,%d) = %#x" % (j, k, fv, fo, fo + fs, exp)
            elif r.kind == STATUS:
                if re != self.exp_re[k] and msg is None:
                    msg = "status %d re = %d, expected %d" % (k, re, self.exp_re[k])
                if r.wfd and val != self.val[k] and msg is None:
                    msg = "status %d r = %#x, expected %#x (written only by bus writes, slice-wise)" % (k, val, self.val[k])
                expwe = 1 if (hit and hit[0] == k and hit[3] and bre) else 0
                if we != expwe and msg is None:
                    msg = "status %d we = %d, expected %d (read strobe only for reads of this register)" % (k, we, expwe)
            else:
                h = 1 if (hit and hit[0] == k) else 0
                if (re, we) != (h & bwe, h & bre) and msg is None:
                    msg = "raw CSR %d re/we = %d/%d, expected %d/%d" % (k, re, we, h & bwe, h & bre)
                if re and rr != dat & ((1 << r.eff_size()) - 1) and msg is None:
                    msg = "raw CSR %d r = %#x under re, expected %#x" % (k, rr, dat & ((1 << r.eff_size()) - 1))
        # ---- reference update for the next cycle
        # read data: value of the addressed word *now*
        if hit:
            k, lo, nb, _ = hit
            r = regs[k]
            m = (1 << nb) - 1
            if r.kind == STORAGE:
                self.exp_datr = (self.val[k] >> lo) & m
            elif r.kind == STATUS:
                dv = letter[5 + 2 * k]
                if r.fields:
                    cov = 0
                    for (fs, fo, _, _) in r.resolved_fields():
                        cov |= ((1 << fs) - 1) << fo
                    dv &= cov
                self.exp_datr = (dv >> lo) & m
            else:
                self.exp_datr = letter[5 + 2 * k] & m
        else:
            self.exp_datr = 0
        for k, r in enumerate(regs):
            self.exp_re[k] = 0
            if r.kind == STORAGE:
                size = r.eff_size()
                dwe, ddat = letter[4 + 2 * k], letter[5 + 2 * k]
                v = self.val[k]
                if r.wfd and dwe:
                    v = ddat & ((1 << size) - 1)
                if hit and hit[0] == k and bwe:
                    _, lo, nb, top = hit
                    m = (1 << nb) - 1
                    if self._atomic(r):
                        self.pending[k][lo] = (dat & m, nb)
                        if top:
                            # commit: every word as last written (words never written read as 0)
                            v = 0
                            for lo2, (d2, nb2) in self.pending[k].items():
                                v |= d2 << lo2
                    else:
                        v = (v & ~(m << lo)) | ((dat & m) << lo)
                    self.exp_re[k] = 1 if top else 0
                self.val[k] = v
            elif r.kind == STATUS:
                if hit and hit[0] == k and bwe:
                    _, lo, nb, top = hit
                    if top:
                        self.exp_re[k] = 1
                    if r.wfd:
                        m = (1 << nb) - 1
                        self.val[k] = (self.val[k] & ~(m << lo)) | ((dat & m) << lo)
        return msg


# ---------------------------------------------------------------------------------------------------------
# Memory windows (csr_bus.SRAM) and bank arrays (CSRBankArray + Interconnect / InterconnectShared)

def lean_sram(bw, pbits, address, width, depth, read_only, init):
    init = list(init or [])
    return "%d %d %d %d %d %d %d %s" % (bw, pbits, address, width, depth, int(read_only), len(init),
                                        " ".join(map(str, init)))


class SramInst(_InstBase):
    """One real `csr_bus.SRAM`, alone.  Letter = (adr, re, we, dat_w, page); outputs = [dat_r].
    The page register (if any) is not part of a bank here; its `storage` is driven as an input.
    Every range (addresses, page values, populated words) comes from the constructor parameters."""

    def __init__(self, name, width=8, depth=4, bw=8, paging=0x800, address=1, aw=14, read_only=False, init=None,
                 data_values=(0xA5A5A5A5, 0x5A5A5A5A), nadr=None, via="explicit", script=False):
        from migen import Memory
        self.name = name
        self.bw, self.aw, self.address = bw, aw, address
        self.pbits = _log2(paging // 4)
        self.mem = Memory(width, depth, init=init, name="mem")
        if via == "bus_read_only":
            # read_only left to the constructor's default path: taken from the memory's `bus_read_only` attribute
            self.mem.bus_read_only = read_only
            self.bus = _csr_bus.Interface(data_width=bw, address_width=aw)
            self.sram = _csr_bus.SRAM(self.mem, address, bus=self.bus, paging=paging)
        elif via == "default_bus":
            assert (bw, aw, paging) == (8, 14, 0x800)
            self.sram = _csr_bus.SRAM(self.mem, address, read_only=read_only)
            self.bus = self.sram.bus
        elif via == "size":
            # `mem_or_size` given as a size in bytes: the constructor creates the memory itself
            assert width == bw
            self.sram = _csr_bus.SRAM(depth * (bw // 8), address, read_only=read_only, init=init,
                                      bus=_csr_bus.Interface(data_width=bw, address_width=aw), paging=paging)
            self.bus = self.sram.bus
        else:
            self.bus = _csr_bus.Interface(data_width=bw, address_width=aw)
            self.sram = _csr_bus.SRAM(self.mem, address, read_only=read_only, bus=self.bus, paging=paging)
        self.netlist = Netlist(self.sram)
        self.page_bits = ref_page_bits(width, depth, bw, paging)
        self.page = self.sram._page.storage if self.sram._page is not None else None
        if self.page_bits and self.page is None:
            raise InstanceError("instance %s: the memory window needs %d page bits but has no page register" % (name, self.page_bits))
        self.lean_open = "sram " + lean_sram(bw, self.pbits, address, width, depth, read_only, init)
        self.qual = [None]
        cpm = -(-width // bw)
        self.nwords = depth * cpm
        dmask = (1 << bw) - 1
        base = address << self.pbits
        nadr = nadr or min(self.nwords, 1 << self.pbits)
        adrs = [base + a for a in range(nadr)] + [((address ^ 1) << self.pbits)]
        # single-bit aliases of the window's page number (other pages must neither read nor write the memory)
        adrs += [a for a in (base ^ (1 << b) for b in range(self.pbits, aw)) if a not in adrs][:3]
        letters = []
        for pv in range(1 << self.page_bits):
            for a in adrs:
                letters.append((a, 0, 0, 0, pv))
                for d in data_values:
                    letters.append((a, 0, 1, d & dmask, pv))
        self.alphabet = letters
        self.inputs = self.outputs = None
        self.depth, self.width, self.cpm, self.read_only = depth, width, cpm, read_only
        self.init = list(init or [])
        # directed prefix for mode B: every sub-word of every memory word is written with a distinct value (ascending
        # addresses, page by page), then everything is read back twice (the second pass after rewriting one word in
        # descending sub-word order)
        self.script = []
        if script:
            per_page = 1 << self.pbits
            seq = [(w, p) for w in range(self.nwords) for p in [w // per_page]]

            def val(w):
                return ((w * 37 + 0x11) ^ (w >> 3) * 0x5B) & dmask or 1
            for (w, pg) in seq:
                self.script.append((base + w % per_page, 0, 1, val(w), pg))
            for (w, pg) in seq:
                self.script.append((base + w % per_page, 1, 0, 0, pg))
            self.script.append((base, 0, 0, 0, 0))
            for sub in reversed(range(min(cpm, self.nwords))):
                self.script.append((base + sub, 0, 1, (0xC3 + 29 * sub) & dmask, 0))
            for (w, pg) in seq[:2 * cpm]:
                self.script.append((base + w % per_page, 1, 0, 0, pg))

    def _apply(self, letter):
        n = self.netlist
        adr, re, we, dat, pv = letter
        n.set(self.bus.adr, adr); n.set(self.bus.re, re); n.set(self.bus.we, we); n.set(self.bus.dat_w, dat)
        if self.page is not None:
            n.set(self.page, pv)
        elif pv:
            raise InstanceError("instance %s: page value %d but no page register" % (self.name, pv))
        n.settle()

    def _sample(self):
        return [self.netlist.getu(self.bus.dat_r)]

    def nontrivial(self, letter, outs):
        return bool((letter[0] >> self.pbits) == self.address and (letter[1] or letter[2]))

    def gen(self, rng, t):
        if t < len(self.script):
            return self.script[t]
        base = self.address << self.pbits
        x = rng.random()
        if x < 0.8:
            adr = base + rng.randrange(min(self.nwords, 1 << self.pbits))
        elif x < 0.85:
            adr = (base + rng.randrange(min(self.nwords, 1 << self.pbits))) ^ (1 << rng.randrange(self.pbits, self.aw))
        elif x < 0.9:
            adr = base + rng.randrange(1 << self.pbits)
        else:
            adr = rng.randrange(1 << self.aw)
        y = rng.random()
        re, we = (0, 0) if y < 0.15 else (1, 0) if y < 0.5 else (0, 1)
        return (adr, re, we, rng.getrandbits(self.bw), rng.getrandbits(self.page_bits) if self.page_bits else 0)

    def monitor(self):
        return SramMonitor(self)


class SramMonitor:
    """Reference memory: a write to the last sub-word of a memory word stores Cat(dat_w, staged sub-words);
    a read returns, one cycle later, the addressed sub-word of the addressed (paged) memory word; 0 when the
    window was not addressed."""

    def __init__(self, inst):
        self.i = inst
        self.mem = [(inst.init[a] if a < len(inst.init) else 0) & ((1 << inst.width) - 1) for a in range(inst.depth)]
        self.stage = [0] * (inst.cpm - 1)
        self.pending = None     # (memory word index, sub-word) addressed in the previous cycle
        self.skip = False

    def expected_datr(self):
        """Expected read data of this cycle; None = unspecified."""
        I = self.i
        if self.skip:
            return None
        if self.pending is None:
            return 0
        w, sub = self.pending
        return None if self.mem[w] is None else (self.mem[w] >> ((I.cpm - 1 - sub) * I.bw)) & ((1 << I.bw) - 1)

    def observe(self, letter, outs, check_datr=True):
        I = self.i
        adr, re, we, dat, pv = letter
        msg = None
        exp = self.expected_datr()
        if check_datr and exp is not None and outs[0] != exp:
            msg = "dat_r = %#x, expected %#x (content of the memory word addressed in the previous cycle)" % (outs[0], exp)
        self.skip = False
        self.pending = None
        if (adr >> I.pbits) == I.address:
            idx = adr & ((1 << I.pbits) - 1)
            wbits = (I.cpm - 1).bit_length()
            sub = idx & ((1 << wbits) - 1)
            inpage = idx >> wbits
            words_per_page = (1 << I.pbits) >> wbits
            w = inpage + (pv * words_per_page if I.page_bits else 0)
            if w >= I.depth or sub >= I.cpm:
                # outside the populated window: unspecified (the simulator clamps the array index)
                self.skip = True
                if we and not I.read_only:
                    self.mem = [None] * I.depth
                    self.stage = [None] * (I.cpm - 1)
            else:
                if we and not I.read_only:
                    if sub == I.cpm - 1:
                        v = dat & ((1 << I.bw) - 1)
                        for k, s in enumerate(reversed(self.stage)):
                            v = None if (v is None or s is None) else v | (s << ((k + 1) * I.bw))
                        self.mem[w] = None if v is None else v & ((1 << I.width) - 1)
                    else:
                        self.stage[sub] = dat & ((1 << I.bw) - 1)
                self.pending = (w, sub)
        return msg


class _Periph:
    """A CSR-bearing object as CSRBankArray expects it (`get_csrs`, `get_memories`)."""

    def __init__(self, csrs, mems):
        self._csrs, self._mems = csrs, mems

    def get_csrs(self):
        return list(self._csrs)

    def get_memories(self):
        return list(self._mems)


def _make_auto_periph(pname, regs, mems, child_split):
    """The same peripheral written the way cores are: a Module with AutoCSR whose registers and memories are
    attributes (found by `get_csrs(sort=True)` / `get_memories()`); the last `child_split` registers live in a child
    module (prefix path).  Returns (module, [csr objects in creation order], [Memory objects])."""
    from migen import Memory

    class P(Module, _csr.AutoCSR):
        pass
    top = P()
    child = P() if child_split else None
    objs = []
    ncsr = len(regs)
    for k, r in enumerate(regs):
        in_child = child is not None and k >= ncsr - child_split
        # attribute names are chosen anti-alphabetically: placement must follow creation (DUID) order, not names
        attr = "z%02d" % (ncsr - k)
        o = build_reg(r, r.name or "%s_%s" % (pname, attr))
        setattr(child if in_child else top, attr, o)
        objs.append(o)
    if child is not None:
        top.sub = child
        top.submodules += child
    mobjs = []
    for mi, (w, d, ro, init) in enumerate(mems):
        m = Memory(w, d, init=init, name="%s_mem%d" % (pname, mi))
        setattr(top, "mem%d" % mi, m)
        mobjs.append(m)
    return top, objs, mobjs


class _ArrayBase(_InstBase):
    """Several banks / memory windows behind one bus.  Subclasses provide:
       self.drive_buses : interfaces the harness drives (masters, or every slave bus when the harness plays the
                          interconnect), grouped per master: list of lists
       self.read_buses  : interfaces whose dat_r the masters see (OR-ed per group)
       self.bank_desc   : [(bank number, [Reg])] in bank order              -- from the parameters
       self.win_desc    : [(window number, width, depth, read_only, init, page (bank idx, reg idx) | None)]
       self.ports       : RegPorts of every register, bank order
    Letter = (adr, re, we, dat_w) per master + (dev_we, dev_dat) per register of every bank (bank order).
    Outputs = [dat_r] + per register [val, re, we, r] + storage fields."""

    def _describe(self, data_values, dev_values, m1_letters=None, max_adrs=None):
        bw, ordering = self.bw, self.ordering
        toks = [self.nmasters, len(self.bank_desc)]
        for (addr, regs) in self.bank_desc:
            toks.append("%d %d %d %d %s" % (bw, 0 if ordering == "big" else 1, self.pbits, addr, lean_regs(regs)))
        toks.append(len(self.win_desc))
        for (addr, w, d, ro, init, page) in self.win_desc:
            toks.append(lean_sram(bw, self.pbits, addr, w, d, ro, init))
            toks.append("1 %d %d" % page if page is not None else "0 0 0")
        self.lean_open = "array " + " ".join(map(str, toks))
        glue = getattr(self, "glue", None)
        if glue is not None:
            # (kind, [(aw, dw) per master], (slave aw, slave dw)): the model applies the interface widths of the glue
            kind, mws, sw = glue
            head = [1 if kind == "shared" else 0, len(mws)] + [x for w in mws for x in w] + list(sw)
            scan = getattr(self, "scan_desc", None)
            if scan is not None:
                # the bank array itself is computed by the model's `scan` from the objects' descriptions
                ot = [0 if ordering == "big" else 1, self.pbits, len(scan)]
                for (loc, regs, mems, consts) in scan:
                    ot.append("%d %s" % (loc, lean_regs(regs)))
                    ot.append(len(mems))
                    for (w, d, ro, mloc, init) in mems:
                        init = list(init or [])
                        ot.append("%d %d %d %d %d %s" % (w, d, int(ro), mloc, len(init), " ".join(map(str, init))))
                    ot.append("%d %s" % (len(consts), " ".join(map(str, consts))))
                self.lean_open = "sarray " + " ".join(map(str, head + ot))
            else:
                self.lean_open = "garray " + " ".join(map(str, head + toks[1:]))
        self.all_regs = [r for (_, regs) in self.bank_desc for r in regs]
        assert len(self.all_regs) == len(self.ports)
        self.qual = [None]
        base = 1
        for p in self.ports:
            q = [None] * p.nouts()
            if p.reg.kind == RAW:
                q[3] = base + 1
            self.qual += q
            base += p.nouts()
        dmask = (1 << bw) - 1
        adrs = []
        for (addr, regs) in self.bank_desc:
            nw = len(ref_layout(regs, bw, ordering))
            adrs += [(addr << self.pbits) + a for a in range(min(nw, 1 << self.pbits))]
        for (addr, w, d, ro, init, page) in self.win_desc:
            adrs += [(addr << self.pbits) + a for a in range(min(d * (-(-w // bw)), 1 << self.pbits))]
        used = set(a for a, _ in self.bank_desc) | set(x[0] for x in self.win_desc)
        free = next(a for a in range(1 << (self.aw - self.pbits)) if a not in used)
        adrs.append(free << self.pbits)
        # words of a used page that are not populated, and the same word offsets in unmapped pages
        for (addr, regs) in self.bank_desc[:2]:
            nw = len(ref_layout(regs, bw, ordering))
            if nw < (1 << self.pbits):
                adrs.append((addr << self.pbits) + nw)
        self.adrs = adrs
        m0 = []
        for a in (adrs if max_adrs is None else adrs[:max_adrs] + adrs[-2:]):
            m0.append((a, 0, 0, 0))
            m0.append((a, 1, 0, 0))
            for d in data_values:
                m0.append((a, 0, 1, d & dmask))
        if self.nmasters > 1:
            m1 = m1_letters or [(0, 0, 0, 0), (adrs[0], 0, 1, data_values[-1] & dmask), (adrs[-3], 1, 0, 0)]
            ml = [x + y for x in m0 for y in m1]
            for _ in range(self.nmasters - 2):
                ml = [x + (0, 0, 0, 0) for x in ml]
        else:
            ml = m0
        nodev = [(0, 0)] * len(self.all_regs)
        devl = [tuple(nodev)]
        for k, r in enumerate(self.all_regs):
            for ch in dev_choices(r, dev_values):
                l = list(nodev)
                l[k] = ch
                devl.append(tuple(l))
        self.alphabet = [m + tuple(itertools.chain(*d)) for m in ml for d in devl]
        self.inputs = self.outputs = None
        # directed prefix for mode B: every populated word (and the unmapped / unpopulated ones listed above) is
        # written once with a non-zero value and read back by master 0, the other masters idle
        self.script = []
        idle = (0, 0, 0, 0) * (self.nmasters - 1) + tuple(itertools.chain(*nodev))
        for k, a in enumerate(adrs):
            self.script.append((a, 0, 1, (data_values[0] ^ (k * 0x0101010101)) & dmask or 1) + idle)
            self.script.append((a, 1, 0, 0) + idle)

    def _apply(self, letter):
        n = self.netlist
        for mi, group in enumerate(self.drive_buses):
            adr, re, we, dat = letter[4 * mi:4 * mi + 4]
            for m in group:
                n.set(m.adr, adr); n.set(m.re, re); n.set(m.we, we); n.set(m.dat_w, dat)
        o = 4 * self.nmasters
        for k, p in enumerate(self.ports):
            p.drive(n, letter[o + 2 * k], letter[o + 2 * k + 1])
        n.settle()

    def _sample(self):
        n = self.netlist
        d = []
        for group in self.read_buses:
            v = 0
            for b in group:
                v |= n.getu(b.dat_r)
            d.append(v)
        outs = [d[0] if all(x == d[0] for x in d) else -1]
        for p in self.ports:
            outs += p.sample(n)
        return outs

    def nontrivial(self, letter, outs):
        return bool(any(letter[4 * mi + 1] or letter[4 * mi + 2] for mi in range(self.nmasters))
                    or any(letter[4 * self.nmasters + 2 * k] for k in range(len(self.ports))))

    def monitor(self):
        return ArrayMonitor(self)

    def gen(self, rng, t):
        if t < len(self.script):
            return self.script[t]
        dmask = (1 << self.bw) - 1
        letter = []
        active = rng.randrange(self.nmasters)
        for mi in range(self.nmasters):
            if mi != active and rng.random() < 0.9:
                letter += [0, 0, 0, 0]
                continue
            x = rng.random()
            if x < 0.75:
                adr = rng.choice(self.adrs)
            elif x < 0.90:
                adr = rng.choice(self.adrs) ^ (1 << rng.randrange(self.aw))      # single-bit alias
            else:
                adr = rng.randrange(1 << self.aw)
            y = rng.random()
            re, we = (0, 0) if y < 0.15 else (1, 0) if y < 0.5 else (0, 1)
            letter += [adr, re, we, rng.choice((0, dmask, rng.getrandbits(self.bw), rng.getrandbits(self.bw)))]
        for r in self.all_regs:
            m = (1 << r.eff_size()) - 1
            wide = r.eff_size() + (3 if rng.random() < 0.2 else 0)
            if r.kind == STORAGE:
                letter += [1 if (r.wfd and rng.random() < 0.15) else 0, rng.getrandbits(wide) if r.wfd else 0]
            else:
                letter += [0, rng.choice((0, m, rng.getrandbits(wide)))]
        return tuple(letter)


class ArrayInst(_ArrayBase):
    """Real `CSRBankArray` over a source object with several CSR-bearing attributes, connected to one master
    through `Interconnect` or to several through `InterconnectShared`.
      periphs: list of (attr name, [Reg], [(width, depth, read_only, init)])   (attribute names sort = scan order)
      bank_addr: attr name -> bank number;  mem_addr: (attr name, k-th memory) -> window number
      style: "plain" (objects with get_csrs/get_memories) or "autocsr" (Modules with AutoCSR: the array calls
             `get_csrs(sort=True)`, registers may carry fixed locations `n`, `child` registers sit in a sub-module)
    The model is described from these parameters only (expected bank order, register order after placement, page
    registers); the real array is used for nothing but port access."""

    def __init__(self, name, periphs, bank_addr, mem_addr, bw=8, ordering="big", paging=0x800, aw=14, nmasters=1,
                 data_values=(0xA5A5A5A5A5, 0x5A5A5A5A5A), dev_values=(0x3C3C3C3C3C,), m1_letters=None,
                 style="plain", child=0, max_adrs=None, shared=None, via_scan=False, master_aw=None):
        from migen import Memory
        self.name, self.bw, self.aw, self.nmasters = name, bw, aw, nmasters
        shared = (nmasters > 1) if shared is None else shared
        master_aw = aw if master_aw is None else master_aw
        self.ordering = ordering
        self.pbits = _log2(paging // 4)

        class Src:
            pass
        src = Src()
        mems_by_id = {}
        built = {}
        for pname, regs, mems in periphs:
            if style == "autocsr":
                mod, objs, mobjs = _make_auto_periph(pname, regs, mems, child)
                for mi, m in enumerate(mobjs):
                    mems_by_id[id(m)] = (pname, mi)
                setattr(src, pname, mod)
                built[pname] = (objs, mobjs)
            else:
                objs = [build_reg(r, r.name or "%s_r%d" % (pname, k)) for k, r in enumerate(regs)]
                mobjs, mraw = [], []
                for mi, (w, d, ro, init) in enumerate(mems):
                    m = Memory(w, d, init=init, name="%s_mem%d" % (pname, mi))
                    mems_by_id[id(m)] = (pname, mi)
                    mobjs.append((ro, m) if ro else m)
                    mraw.append(m)
                setattr(src, pname, _Periph(objs, mobjs))
                built[pname] = (objs, mraw)

        def address_map(nm, memory):
            if memory is None:
                return bank_addr[nm]
            return mem_addr[mems_by_id[id(memory)]]
        self.array = _csr_bus.CSRBankArray(src, address_map, data_width=bw, address_width=aw, paging=paging,
                                           ordering=ordering)
        self.masters = [_csr_bus.Interface(data_width=bw, address_width=master_aw) for _ in range(nmasters)]
        top = Module()
        top.submodules += self.array
        if not shared:
            assert nmasters == 1
            top.submodules += _csr_bus.Interconnect(self.masters[0], self.array.get_buses())
        else:
            top.submodules += _csr_bus.InterconnectShared(self.masters, self.array.get_buses())
        if via_scan or shared and nmasters == 1 or master_aw != aw or aw > 14:
            self.glue = ("shared" if shared else "direct", [(master_aw, bw)] * nmasters, (aw, bw))
        self.netlist = Netlist(top)
        self.drive_buses = [[m] for m in self.masters]
        self.read_buses = [[m] for m in self.masters]
        # ---- expected structure, from the parameters
        sram_by_mem = {id(memory): mmap for (nm, memory, mapaddr, mmap) in self.array.srams}
        self.bank_desc, self.win_desc, self.ports = [], [], []
        self.structure_notes = []
        scan_desc = []
        for pname, regs, mems in sorted(periphs, key=lambda x: x[0]):
            objs, mobjs = built[pname]
            if style == "autocsr":
                placed = ref_sort(regs)
            else:
                placed = list(regs)
            obj_of = {id(r): o for r, o in zip(regs, objs)}
            page_regs = []
            for mi, (w, d, ro, init) in enumerate(mems):
                ro_eff = ro if style == "plain" else False        # AutoCSR memories are always writable windows
                pb = ref_page_bits(w, d, bw, paging)
                page = None
                if pb:
                    pr = Reg(STORAGE, pb, name="%s_mem%d_page" % (pname, mi))
                    mmap = sram_by_mem.get(id(mobjs[mi]))
                    if mmap is None or mmap._page is None:
                        # observed as a register that never reacts (the monitors report the first access to it)
                        self.structure_notes.append("memory %s/%d needs a page register but the array built none" % (pname, mi))
                        obj_of[id(pr)] = _csr.CSRStorage(pb, name="%s_mem%d_page_missing" % (pname, mi))
                    else:
                        obj_of[id(pr)] = mmap._page
                    page_regs.append(pr)
                    page = (len(self.bank_desc), len(placed) + len(page_regs) - 1)
                self.win_desc.append((mem_addr[(pname, mi)], w, d, ro_eff, list(init or []), page))
            allregs = placed + page_regs
            scan_desc.append((bank_addr.get(pname, 0), list(placed),
                              [(w, d, (ro if style == "plain" else False), mem_addr[(pname, mi)], init)
                               for mi, (w, d, ro, init) in enumerate(mems)], []))
            if allregs:
                # The registers are bound to the objects the harness created (by identity), whatever bank the array put
                # them into: a register the array dropped or displaced is then observed as one that does not react at
                # its address.  Only the `reserved` fillers are created by the real gatherer: fetched by position.
                real = next((csrs for (nm, csrs, mapaddr, rmap) in self.array.banks if nm == pname), None)
                if real is None or len(real) != len(allregs):
                    self.structure_notes.append("bank %s has %s registers, %d expected" % (
                        pname, None if real is None else len(real), len(allregs)))
                for k, r in enumerate(allregs):
                    o = obj_of.get(id(r))
                    if o is None:
                        if real is not None and k < len(real) and isinstance(real[k], _csr.CSR) and real[k].size == 1:
                            o = real[k]                              # a `reserved` CSR
                        else:
                            o = _csr.CSR(1, name="reserved_missing%d" % k)
                    self.ports.append(RegPorts(r, o))
                self.bank_desc.append((bank_addr[pname], allregs))
        if via_scan:
            self.scan_desc = scan_desc
        # windows in the order the array created them = order of the model's `srams`; the page link uses bank indexes
        # computed above, window order = scan order (sorted names, memories in declaration order): same as win_desc
        self._describe(data_values, dev_values, m1_letters, max_adrs)


class SocArrayInst(_ArrayBase):
    """The CSR bank array as a real SoC builds it: `SoCMini(...)` is finalized (`SoC.do_finalize` chooses paging,
    ordering, data/address width, allocates the bank numbers and calls `CSRBankArray(self, address_map=...)`), then
    the array's own logic is simulated alone and the harness plays the interconnect (drives every slave bus, ORs the
    read data).  The cores' register declarations (Timer, SoCController, ...) are the inputs; bus width, paging and
    ordering given to the model are the ones passed to the SoC constructor."""

    def __init__(self, name, bw=8, paging=0x800, ordering="big", aw=14, data_values=(0xA5A5A5A5A5, 0x5A5A5A5A5A),
                 dev_values=(0x3C3C3C3C3C,), max_adrs=None):
        from litex.soc.integration.soc_core import SoCMini
        from litex.build.sim.platform import SimPlatform
        from litex.build.generic_platform import Pins
        self.name, self.bw, self.aw, self.nmasters, self.ordering = name, bw, aw, 1, ordering
        self.pbits = _log2(paging // 4)
        plat = SimPlatform("SIM", [("sys_clk", 0, Pins(1)), ("sys_rst", 0, Pins(1))])
        soc = SoCMini(plat, 1e6, csr_data_width=bw, csr_paging=paging, csr_ordering=ordering, csr_address_width=aw,
                      with_timer=True, with_uart=False)
        soc.finalize()
        self.soc = soc
        ba = soc.csr_bankarray
        self.netlist = Netlist(ba._fragment)
        buses = ba.get_buses()
        self.drive_buses = [buses]
        self.read_buses = [buses]
        self.bank_desc, self.win_desc, self.ports = [], [], []
        for pname in sorted(soc.csr.locs):
            core = getattr(soc, pname, None)
            if core is None or not hasattr(core, "get_csrs"):
                continue
            csrs = core.get_csrs(sort=True) if "sort" in core.get_csrs.__code__.co_varnames else core.get_csrs()
            if not csrs:
                continue
            regs = [spec_of(c) for c in csrs]
            self.bank_desc.append((soc.csr.locs[pname], regs))
            self.ports += [RegPorts(r, c) for r, c in zip(regs, csrs)]
        self._describe(data_values, dev_values, None, max_adrs)


class SocGlueInst(_ArrayBase):
    """A small real SoC *with its CSR glue*: `SoCMini(csr_address_width=aw, csr_paging=.., csr_data_width=..)` plus
    user peripherals at fixed CSR locations (`csr_map`, the way users pin locations), finalized; simulated are the
    SoC's own `csr_bankarray` AND `csr_interconnect` (`InterconnectShared` over `soc.csr.masters`), driven at the
    master interfaces.  Everything the model and the monitors are told (widths, paging, locations, register sets of the
    user peripherals) comes from the constructor parameters; ctrl/timer0 register sets are harvested from the cores.
      periphs: [(name, location, [Reg], [(width, depth, init, location)])]"""

    def __init__(self, name, bw=8, paging=0x800, ordering="big", aw=14, periphs=(), nmasters=1, with_timer=True,
                 data_values=(0xA5A5A5A5A5, 0x5A5A5A5A5A), dev_values=(0x3C3C3C3C3C,), max_adrs=None):
        from migen import Memory
        from litex.gen import LiteXModule
        from litex.soc.integration.soc_core import SoCMini
        from litex.build.sim.platform import SimPlatform
        from litex.build.generic_platform import Pins
        self.name, self.bw, self.aw, self.nmasters, self.ordering = name, bw, aw, nmasters, ordering
        self.pbits = _log2(paging // 4)
        fixed = {}
        for pname, loc, regs, mems in periphs:
            fixed[pname] = loc
            for mi, (w, d, init, mloc) in enumerate(mems):
                fixed["%s_mem%d" % (pname, mi)] = mloc

        class _SoC(SoCMini):
            csr_map = dict(fixed)

        class _P(LiteXModule, _csr.AutoCSR):
            pass
        plat = SimPlatform("SIM", [("sys_clk", 0, Pins(1)), ("sys_rst", 0, Pins(1))])
        soc = _SoC(plat, 1e6, csr_data_width=bw, csr_paging=paging, csr_ordering=ordering, csr_address_width=aw,
                   with_timer=with_timer, with_uart=False)
        built = {}
        for pname, loc, regs, mems in periphs:
            mod = _P()
            objs = []
            for k, r in enumerate(regs):
                o = build_reg(r, r.name or "r%d" % k)
                setattr(mod, "r%02d" % k, o)
                objs.append(o)
            mobjs = []
            for mi, (w, d, init, mloc) in enumerate(mems):
                m = Memory(w, d, init=init, name="mem%d" % mi)
                setattr(mod, "mem%d" % mi, m)
                mobjs.append(m)
            setattr(soc, pname, mod)
            built[pname] = (objs, mobjs)
        for k in range(1, nmasters):
            soc.csr.add_master("extra%d" % k, _csr_bus.Interface(data_width=bw, address_width=aw))
        soc.finalize()
        self.soc = soc
        ba = soc.csr_bankarray
        self.netlist = Netlist(ba._fragment + soc.csr_interconnect._fragment)
        self.masters = list(soc.csr.masters.values())
        if len(self.masters) != nmasters:
            raise InstanceError("instance %s: the SoC has %d CSR masters, %d expected" % (name, len(self.masters), nmasters))
        self.drive_buses = [[m] for m in self.masters]
        self.read_buses = [[m] for m in self.masters]
        self.glue = ("shared", [(aw, bw)] * nmasters, (aw, bw))
        # ---- expected structure, from the parameters: locations not pinned are handed out first-free in creation
        # order (ctrl, then timer0)
        n_locs = (4 << aw) // paging
        free = [n for n in range(n_locs) if n not in fixed.values()]
        cores = ["ctrl"] + (["timer0"] if with_timer else [])
        loc_of = dict(fixed)
        for cname in cores:
            loc_of[cname] = free.pop(0)
        sram_by_mem = {id(memory): mmap for (nm, memory, mapaddr, mmap) in ba.srams}
        self.bank_desc, self.win_desc, self.ports = [], [], []
        self.structure_notes = []
        self.scan_desc = []
        byname = {p[0]: p for p in periphs}
        for oname in sorted(list(byname) + cores):
            if oname in byname:
                _, loc, regs, mems = byname[oname]
                objs, mobjs = built[oname]
                placed = ref_sort(regs)
                obj_of = {id(r): o for r, o in zip(regs, objs)}
            else:
                core = getattr(soc, oname)
                csrs = core.get_csrs(sort=True)
                placed = [spec_of(c) for c in csrs]
                obj_of = {id(r): o for r, o in zip(placed, csrs)}
                mems, mobjs = [], []
            page_regs = []
            for mi, (w, d, init, mloc) in enumerate(mems):
                pb = ref_page_bits(w, d, bw, paging)
                page = None
                if pb:
                    pr = Reg(STORAGE, pb, name="%s_mem%d_page" % (oname, mi))
                    mmap = sram_by_mem.get(id(mobjs[mi]))
                    if mmap is None or mmap._page is None:
                        self.structure_notes.append("memory %s/%d needs a page register but the array built none" % (oname, mi))
                        obj_of[id(pr)] = _csr.CSRStorage(pb, name="%s_mem%d_page_missing" % (oname, mi))
                    else:
                        obj_of[id(pr)] = mmap._page
                    page_regs.append(pr)
                    page = (len(self.bank_desc), len(placed) + len(page_regs) - 1)
                self.win_desc.append((mloc, w, d, False, list(init or []), page))
            self.scan_desc.append((loc_of[oname], list(placed), [(w, d, False, mloc, init) for (w, d, init, mloc) in mems], []))
            allregs = placed + page_regs
            if allregs:
                real = next((csrs for (nm, csrs, mapaddr, rmap) in ba.banks if nm == oname), None)
                for k, r in enumerate(allregs):
                    o = obj_of.get(id(r))
                    if o is None:
                        if real is not None and k < len(real) and isinstance(real[k], _csr.CSR) and real[k].size == 1:
                            o = real[k]
                        else:
                            o = _csr.CSR(1, name="reserved_missing%d" % k)
                    self.ports.append(RegPorts(r, o))
                self.bank_desc.append((loc_of[oname], allregs))
        self._describe(data_values, dev_values, None, max_adrs)


class ArrayMonitor:
    """Property oracle for a bank array: one reference register file per bank, one reference memory per window,
    all fed with the OR of the masters' signals; the read data every master sees must be the OR of what the
    slaves are expected to drive (the addressed one its word, all others 0)."""

    def __init__(self, inst):
        self.inst = inst
        self.banks = []
        o = 1
        d = 4 * inst.nmasters
        for (addr, regs) in inst.bank_desc:
            nout = sum(4 + (len(r.fields) if r.kind == STORAGE else 0) for r in regs)
            mon = RegFileMonitor(regs, inst.bw, inst.ordering, inst.pbits, addr,
                                 check_atomic=not (inst.ordering == "little" and any(
                                     r.kind == STORAGE and r.atomic and r.eff_size() > inst.bw for r in regs)))
            self.banks.append((mon, o, nout, d, len(regs)))
            o += nout
            d += 2 * len(regs)
        self.wins = []
        for (addr, w, dep, ro, init, page) in inst.win_desc:
            mon = SramMonitor(_Win(inst.bw, inst.pbits, addr, w, dep, ro, init,
                                   ref_page_bits(w, dep, inst.bw, 4 << inst.pbits)))
            page_out = None
            if page is not None:
                bi, ri = page
                k = sum(len(regs) for (_, regs) in inst.bank_desc[:bi]) + ri
                page_out = 1 + sum(p.nouts() for p in inst.ports[:k])
            self.wins.append((mon, page_out))

    def observe(self, letter, outs):
        I = self.inst
        bus = [0, 0, 0, 0]
        for mi in range(I.nmasters):
            for x in range(4):
                bus[x] |= letter[4 * mi + x]
        msg = None
        exp, known = 0, True
        for (mon, o, nout, d, nr) in self.banks:
            exp |= mon.exp_datr
        for (mon, page_out) in self.wins:
            e = mon.expected_datr()
            if e is None:
                known = False
            else:
                exp |= e
        if outs[0] == -1:
            msg = "masters see different read data"
        elif known and outs[0] != exp:
            msg = "dat_r = %#x, expected %#x (OR of the addressed slave's word and zeros)" % (outs[0], exp)
        for (mon, o, nout, d, nr) in self.banks:
            m = mon.observe(tuple(bus) + tuple(letter[d:d + 2 * nr]), [None] + list(outs[o:o + nout]), check_datr=False)
            msg = msg or m
        for (mon, page_out) in self.wins:
            pv = outs[page_out] if page_out is not None else 0
            mon.observe(tuple(bus) + (pv,), [None], check_datr=False)
        return msg


class _Win:
    """Geometry of one memory window, as SramMonitor needs it (all from the parameters)."""

    def __init__(self, bw, pbits, address, width, depth, read_only, init, page_bits):
        self.bw, self.pbits, self.address = bw, pbits, address
        self.width, self.depth = width, depth
        self.cpm = -(-width // bw)
        self.read_only = read_only
        self.init = list(init or [])
        self.page_bits = page_bits
