"""Helpers to build real CSR banks from a register spec and to drive / observe them over the CSR bus.
Shared by C12 (owner), C14 and C15.

  Reg(kind, size, ...)            python-side register description (mirrors Lean `Litex.Csr.RegSpec`)
  build_reg(reg, name)            -> real CSR / CSRStatus / CSRStorage object from /repo (explicit names)
  spec_of(obj)                    -> Reg harvested from a real CSR object (e.g. Timer().get_csrs())
  lean_regs(regs)                 -> token string understood by `Litex.Csr.parseRegs`
  ref_layout(regs, bw, ordering)  -> independent (documentation-derived) address map, used by the monitor
  BankInst                        -> one real `CSRBank` as an explore.py instance (modes A and B)
  RegFileMonitor                  -> property oracle: reference register file with strobe log
  bus_write / bus_read            -> drive one bus access on a Netlist
"""
import itertools
from netlist import Netlist
from migen import Module, Signal
from litex.soc.interconnect import csr as _csr
from litex.soc.interconnect import csr_bus as _csr_bus

STORAGE, STATUS, RAW = "storage", "status", "raw"


_KIND_NUM = {STORAGE: 0, STATUS: 1, RAW: 2}


class Field:
    def __init__(self, name, size=1, offset=None, reset=0, pulse=False):
        self.name, self.size, self.offset, self.reset, self.pulse = name, size, offset, reset, pulse

    def __repr__(self):
        return "Field(%s,%d@%s,rst=%d%s)" % (self.name, self.size, self.offset, self.reset, ",pulse" if self.pulse else "")


class Reg:
    """kind storage: CSRStorage(size, reset, atomic_write=atomic, write_from_dev=wfd, fields)
       kind status : CSRStatus(size, reset, read_only=not wfd, fields)
       kind raw    : CSR(size)"""

    def __init__(self, kind, size=1, reset=0, atomic=False, wfd=False, fields=(), n=None, name=None):
        self.kind, self.size, self.reset, self.atomic, self.wfd = kind, size, reset, atomic, wfd
        self.fields = list(fields)
        self.n = n
        self.name = name

    def resolved_fields(self):
        """(size, offset, reset, pulse) with offsets resolved as documented: next free bit unless declared."""
        out, off = [], 0
        for f in self.fields:
            o = off if f.offset is None else f.offset
            out.append((f.size, o, f.reset, f.pulse))
            off = o + f.size
        return out

    def eff_size(self):
        if self.fields:
            s, o, _, _ = self.resolved_fields()[-1]
            return o + s
        return self.size

    def eff_reset(self):
        if self.fields:
            r = 0
            for (s, o, rst, _) in self.resolved_fields():
                r |= rst << o
            return r
        return self.reset

    def __repr__(self):
        return "Reg(%s,%d%s%s%s%s)" % (self.kind, self.eff_size(), ",rst=%d" % self.eff_reset() if self.eff_reset() else "",
                                       ",atomic" if self.atomic else "", ",wfd" if self.wfd else "",
                                       "," + repr(self.fields) if self.fields else "")


def build_reg(reg, name):
    """Instantiate the real CSR object.  Names are always explicit (py3.12 tracer)."""
    fields = [_csr.CSRField(f.name, size=f.size, offset=f.offset, reset=f.reset, pulse=f.pulse) for f in reg.fields]
    if reg.kind == STORAGE:
        return _csr.CSRStorage(reg.size, reset=reg.reset, fields=fields, atomic_write=reg.atomic,
                               write_from_dev=reg.wfd, name=name, n=reg.n)
    if reg.kind == STATUS:
        return _csr.CSRStatus(reg.size, reset=reg.reset, fields=fields, read_only=not reg.wfd, name=name, n=reg.n)
    return _csr.CSR(reg.size, name=name, n=reg.n)


def spec_of(obj):
    """Harvest a `Reg` from a real CSR object."""
    fields = []
    if hasattr(obj, "fields"):
        for f in obj.fields.fields:
            fields.append(Field(f.name, f.size, f.offset, f.reset_value, f.pulse))
    if isinstance(obj, _csr.CSRStorage):
        return Reg(STORAGE, obj.size, obj.storage.reset.value, obj.atomic_write, hasattr(obj, "dat_w"), fields,
                   n=obj.n, name=obj.name)
    if isinstance(obj, _csr.CSRStatus):
        return Reg(STATUS, obj.size, obj.status.reset.value, False, not obj.read_only, fields, n=obj.n, name=obj.name)
    if isinstance(obj, _csr.CSR):
        return Reg(RAW, obj.size, n=obj.n, name=obj.name)
    raise TypeError(obj)


def lean_regs(regs):
    """`<nregs> (<kind> <size> <reset> <atomic> <wfd> <nfields> (<fsize> <foffset> <freset> <fpulse>)*)*`"""
    toks = [len(regs)]
    for r in regs:
        fs = r.resolved_fields()
        toks += [_KIND_NUM[r.kind], r.eff_size(), r.eff_reset() if r.kind == STORAGE else 0, int(r.atomic),
                 int(r.wfd), len(fs)]
        for (s, o, rst, p) in fs:
            toks += [s, o, rst, int(p)]
    return " ".join(map(str, toks))


def ref_layout(regs, bw, ordering):
    """Address map as documented (wiki "CSR Bus" / csr.py docstrings), written independently of the Lean model:
    registers in description order, each occupying ceil(size/bw) consecutive words; ordering "big" puts the most
    significant word at the lowest address, "little" the least significant.
    Returns a list indexed by word address of (reg index, lo bit, nbits, is_highest_address_word)."""
    words = []
    for k, r in enumerate(regs):
        size = r.eff_size()
        if r.kind == RAW:
            words.append((k, 0, size, True))
            continue
        nw = -(-size // bw)
        idx = list(range(nw))
        if ordering == "big":
            idx.reverse()
        for p, i in enumerate(idx):
            words.append((k, i * bw, min(bw, size - i * bw), p == nw - 1))
    return words


def bus_write(n, bus, adr, dat, tick=True):
    n.set(bus.adr, adr); n.set(bus.we, 1); n.set(bus.re, 0); n.set(bus.dat_w, dat); n.settle()
    if tick:
        n.tick()
        n.set(bus.we, 0); n.settle()


def bus_read(n, bus, adr):
    n.set(bus.adr, adr); n.set(bus.we, 0); n.set(bus.re, 1); n.settle()
    n.tick()
    n.set(bus.re, 0); n.settle()
    return n.getu(bus.dat_r)


def _log2(x):
    r = (x - 1).bit_length()
    assert 1 << r == x
    return r


class RegPorts:
    """Drive/observe one real register."""

    def __init__(self, reg, obj):
        self.reg, self.obj = reg, obj
        self.fields = reg.resolved_fields()

    def drive(self, n, we, dat):
        r, o = self.reg, self.obj
        if r.kind == STORAGE:
            if r.wfd:
                n.set(o.we, we)
                n.set(o.dat_w, dat)
        elif r.kind == STATUS:
            if r.fields:
                for f, (s, off, _, _) in zip(r.fields, self.fields):
                    n.set(getattr(o.fields, f.name), (dat >> off) & ((1 << s) - 1))
            else:
                n.set(o.status, dat)
        else:
            n.set(o.w, dat)

    def sample(self, n):
        r, o = self.reg, self.obj
        if r.kind == STORAGE:
            return [n.getu(o.storage), n.getu(o.re), 0, 0] + [n.getu(getattr(o.fields, f.name)) for f in r.fields]
        if r.kind == STATUS:
            return [n.getu(o.r) if r.wfd else 0, n.getu(o.re), n.getu(o.we), 0]
        return [0, n.getu(o.re), n.getu(o.we), n.getu(o.r)]

    def nouts(self):
        return 4 + (len(self.reg.fields) if self.reg.kind == STORAGE else 0)


def dev_choices(reg, values):
    """Non-default device-side inputs `(we, dat)` of one register for the mode-A alphabet."""
    mask = (1 << reg.eff_size()) - 1
    if reg.kind == STORAGE:
        return [(1, v & mask) for v in values] if reg.wfd else []
    return [(0, v & mask) for v in values if v & mask]


class BankInst:
    """One real CSRBank.  Letter = (adr, re, we, dat_w, dev_we_0, dev_dat_0, dev_we_1, dev_dat_1, ...).
    Outputs = [dat_r] + per register [val, re, we, r] + storage field signals."""

    def __init__(self, name, regs, bw=8, ordering="big", paging=0x800, address=0, aw=14,
                 data_values=(0xA5A5A5A5A5, 0x5A5A5A5A5A), dev_values=(0x3C3C3C3C3C, 0xFFFFFFFFFF),
                 extra_adrs=None, monitor_atomic=True):
        self.name = name
        self.regs = regs
        self.bw, self.ordering, self.paging, self.address, self.aw = bw, ordering, paging, address, aw
        self.pbits = _log2(paging // 4)
        self.objs = [build_reg(r, r.name or "r%d" % k) for k, r in enumerate(regs)]
        self.bus = _csr_bus.Interface(data_width=bw, address_width=aw)
        self.bank = _csr_bus.CSRBank(self.objs, address=address, bus=self.bus, paging=paging, ordering=ordering)
        self.netlist = Netlist(self.bank)
        self.ports = [RegPorts(r, o) for r, o in zip(regs, self.objs)]
        self.lean_open = "bank %d %d %d %d %s" % (bw, 0 if ordering == "big" else 1, self.pbits, address,
                                                   lean_regs(regs))
        self.nwords = len(self.bank.simple_csrs)
        self.monitor_atomic = monitor_atomic
        # qualifiers: `r` of a raw CSR is only meaningful under its `re`
        self.qual = [None]
        base = 1
        for p in self.ports:
            q = [None] * p.nouts()
            if p.reg.kind == RAW:
                q[3] = base + 1
            self.qual += q
            base += p.nouts()
        # ---- mode A alphabet
        dmask = (1 << bw) - 1
        base_adr = address << self.pbits
        adrs = [base_adr + a for a in range(min(self.nwords + 1, 1 << self.pbits))]
        other = ((address ^ 1) << self.pbits)          # same word index 0 in another bank
        adrs.append(other)
        if extra_adrs:
            adrs += list(extra_adrs)
        self.adrs = adrs
        bus_letters = []
        for a in adrs:
            bus_letters.append((a, 0, 0, 0))
            bus_letters.append((a, 1, 0, 0))
            for d in data_values:
                bus_letters.append((a, 0, 1, d & dmask))
        bus_letters.append((base_adr, 1, 1, data_values[0] & dmask))     # re and we together
        nodev = [(0, 0)] * len(regs)
        dev_letters = [tuple(nodev)]
        for k, r in enumerate(regs):
            for ch in dev_choices(r, dev_values):
                l = list(nodev)
                l[k] = ch
                dev_letters.append(tuple(l))
        allact = [(dev_choices(r, dev_values) or [(0, 0)])[0] for r in regs]
        if tuple(allact) not in dev_letters:
            dev_letters.append(tuple(allact))
        self.alphabet = [b + tuple(itertools.chain(*d)) for b in bus_letters for d in dev_letters]
        self.inputs = None
        self.outputs = None

    def apply(self, letter):
        n = self.netlist
        adr, re, we, dat = letter[:4]
        n.set(self.bus.adr, adr); n.set(self.bus.re, re); n.set(self.bus.we, we); n.set(self.bus.dat_w, dat)
        for k, p in enumerate(self.ports):
            p.drive(n, letter[4 + 2 * k], letter[5 + 2 * k])
        n.settle()

    def sample(self):
        n = self.netlist
        outs = [n.getu(self.bus.dat_r)]
        for p in self.ports:
            outs += p.sample(n)
        return outs

    def nontrivial(self, letter, outs):
        adr, re, we = letter[:3]
        sel = (adr >> self.pbits) == self.address
        return bool((sel and (re or we)) or any(letter[4 + 2 * k] for k in range(len(self.regs))))

    def gen(self, rng, t):
        """Random bus/device activity for mode B: mostly populated addresses, bursts of ascending multi-word
        writes, occasional accesses to other pages and unpopulated words."""
        dmask = (1 << self.bw) - 1
        x = rng.random()
        base_adr = self.address << self.pbits
        if x < 0.70:
            adr = base_adr + rng.randrange(max(1, self.nwords))
        elif x < 0.80:
            adr = base_adr + rng.randrange(1 << self.pbits)
        elif x < 0.90:
            adr = rng.randrange(1 << self.aw)
        else:
            adr = ((self.address ^ rng.randrange(1, 4)) << self.pbits) + rng.randrange(max(1, self.nwords))
        adr &= (1 << self.aw) - 1
        y = rng.random()
        re, we = (0, 0) if y < 0.2 else (1, 0) if y < 0.5 else (0, 1) if y < 0.95 else (1, 1)
        dat = rng.choice((0, dmask, rng.getrandbits(self.bw), rng.getrandbits(self.bw)))
        letter = [adr, re, we, dat]
        for r in self.regs:
            m = (1 << r.eff_size()) - 1
            if r.kind == STORAGE:
                letter += [1 if (r.wfd and rng.random() < 0.15) else 0, rng.getrandbits(r.eff_size()) if r.wfd else 0]
            else:
                letter += [0, rng.choice((0, m, rng.getrandbits(r.eff_size())))]
        return tuple(letter)

    def monitor(self):
        return RegFileMonitor(self.regs, self.bw, self.ordering, self.pbits, self.address,
                              check_atomic=self.monitor_atomic)


class RegFileMonitor:
    """Property oracle on the real code, independent of the Lean model.  It keeps a reference register file
    (one integer per storage) and a strobe log and checks, cycle by cycle, what C12 states:
      * a bus write changes exactly the addressed bits of the addressed storage (device writes aside);
        an atomic storage changes only in the cycle its highest-address word is written, and then takes all
        words written since (software writing the words in ascending address order);
      * the bus read data one cycle after a selected access is the then-current value of the addressed word,
        and 0 after an access elsewhere (other bank, unpopulated word);
      * `re`/`we` strobes are single-cycle and appear only for accesses to that register's strobe word;
      * storage field signals sit at their declared offsets, pulse fields are non-zero only under `re`.
    Observation order: `observe(letter, outs)` is called with the inputs of cycle t and the outputs sampled in
    cycle t (before the clock edge)."""

    def __init__(self, regs, bw, ordering, pbits, address, check_atomic=True):
        self.regs, self.bw, self.ordering, self.pbits, self.address = regs, bw, ordering, pbits, address
        self.words = ref_layout(regs, bw, ordering)
        self.check_atomic = check_atomic
        self.val = [r.eff_reset() & ((1 << r.eff_size()) - 1) if r.kind == STORAGE else 0 for r in regs]
        self.pending = [dict() for _ in regs]        # atomic: words written since the last commit
        self.exp_datr = 0
        self.exp_re = [0] * len(regs)                # registered strobes expected in the next cycle
        self.first = True
        self.offs = []
        o = 1
        for r in regs:
            self.offs.append(o)
            o += 4 + (len(r.fields) if r.kind == STORAGE else 0)

    def _atomic(self, r):
        return r.kind == STORAGE and r.atomic and r.eff_size() > self.bw

    def observe(self, letter, outs, check_datr=True):
        adr, bre, bwe, dat = letter[:4]
        regs = self.regs
        msg = None
        # ---- check the outputs of this cycle against what earlier cycles imply
        if check_datr and outs[0] != self.exp_datr:
            msg = "dat_r = %#x, expected %#x (value of the word addressed in the previous cycle)" % (outs[0], self.exp_datr)
        sel = (adr >> self.pbits) == self.address
        idx = adr & ((1 << self.pbits) - 1)
        hit = self.words[idx] if sel and idx < len(self.words) else None
        for k, r in enumerate(regs):
            o = self.offs[k]
            val, re, we, rr = outs[o:o + 4]
            if r.kind == STORAGE:
                if val != self.val[k] and msg is None:
                    if self._atomic(r) and not self.check_atomic:
                        self.val[k] = val       # excluded region (known finding): resynchronise
                    else:
                        msg = "storage %d = %#x, expected %#x (a write must change exactly the addressed bits%s)" % (
                            k, val, self.val[k], "; atomic: all at once on the last word" if self._atomic(r) else "")
                if re != self.exp_re[k] and msg is None:
                    msg = "storage %d re = %d, expected %d (single-cycle strobe after a write to its last word)" % (k, re, self.exp_re[k])
                for j, (fs, fo, frst, fp) in enumerate(r.resolved_fields()):
                    fv = outs[o + 4 + j]
                    exp = (val >> fo) & ((1 << fs) - 1)
                    if fp:
                        if not re and fv != (frst & ((1 << fs) - 1)) and msg is None:
                            msg = "pulse field %d of storage %d is %d outside the write strobe" % (j, k, fv)
                        if re and fv != exp and msg is None:
                            msg = "pulse field %d of storage %d = %d, expected %d" % (j, k, fv, exp)
                    elif fv != exp and msg is None:
                        msg = "field %d of storage %d = %#x, expected bits [%d,%d) = %#x" % (j, k, fv, fo, fo + fs, exp)
            elif r.kind == STATUS:
                if re != self.exp_re[k] and msg is None:
                    msg = "status %d re = %d, expected %d" % (k, re, self.exp_re[k])
                if r.wfd and val != self.val[k] and msg is None:
                    msg = "status %d r = %#x, expected %#x (written only by bus writes, slice-wise)" % (k, val, self.val[k])
                expwe = 1 if (hit and hit[0] == k and hit[3] and bre) else 0
                if we != expwe and msg is None:
                    msg = "status %d we = %d, expected %d (read strobe only for reads of this register)" % (k, we, expwe)
            else:
                h = 1 if (hit and hit[0] == k) else 0
                if (re, we) != (h & bwe, h & bre) and msg is None:
                    msg = "raw CSR %d re/we = %d/%d, expected %d/%d" % (k, re, we, h & bwe, h & bre)
                if re and rr != dat & ((1 << r.eff_size()) - 1) and msg is None:
                    msg = "raw CSR %d r = %#x under re, expected %#x" % (k, rr, dat & ((1 << r.eff_size()) - 1))
        # ---- reference update for the next cycle
        # read data: value of the addressed word *now*
        if hit:
            k, lo, nb, _ = hit
            r = regs[k]
            m = (1 << nb) - 1
            if r.kind == STORAGE:
                self.exp_datr = (self.val[k] >> lo) & m
            elif r.kind == STATUS:
                dv = letter[5 + 2 * k]
                if r.fields:
                    cov = 0
                    for (fs, fo, _, _) in r.resolved_fields():
                        cov |= ((1 << fs) - 1) << fo
                    dv &= cov
                self.exp_datr = (dv >> lo) & m
            else:
                self.exp_datr = letter[5 + 2 * k] & m
        else:
            self.exp_datr = 0
        for k, r in enumerate(regs):
            self.exp_re[k] = 0
            if r.kind == STORAGE:
                size = r.eff_size()
                dwe, ddat = letter[4 + 2 * k], letter[5 + 2 * k]
                v = self.val[k]
                if r.wfd and dwe:
                    v = ddat & ((1 << size) - 1)
                if hit and hit[0] == k and bwe:
                    _, lo, nb, top = hit
                    m = (1 << nb) - 1
                    if self._atomic(r):
                        self.pending[k][lo] = (dat & m, nb)
                        if top:
                            # commit: every word as last written (words never written read as 0)
                            v = 0
                            for lo2, (d2, nb2) in self.pending[k].items():
                                v |= d2 << lo2
                    else:
                        v = (v & ~(m << lo)) | ((dat & m) << lo)
                    self.exp_re[k] = 1 if top else 0
                self.val[k] = v
            elif r.kind == STATUS:
                if hit and hit[0] == k and bwe:
                    _, lo, nb, top = hit
                    if top:
                        self.exp_re[k] = 1
                    if r.wfd:
                        m = (1 << nb) - 1
                        self.val[k] = (self.val[k] & ~(m << lo)) | ((dat & m) << lo)
        return msg


# ---------------------------------------------------------------------------------------------------------
# Memory windows (csr_bus.SRAM) and bank arrays (CSRBankArray + Interconnect / InterconnectShared)

def lean_sram(bw, pbits, address, width, depth, read_only, init):
    init = list(init or [])
    return "%d %d %d %d %d %d %d %s" % (bw, pbits, address, width, depth, int(read_only), len(init),
                                        " ".join(map(str, init)))


class SramInst:
    """One real `csr_bus.SRAM`, alone.  Letter = (adr, re, we, dat_w, page); outputs = [dat_r].
    The page register (if any) is not part of a bank here; its `storage` is driven as an input."""

    def __init__(self, name, width=8, depth=4, bw=8, paging=0x800, address=1, aw=14, read_only=False, init=None,
                 data_values=(0xA5A5A5A5, 0x5A5A5A5A), nadr=None):
        from migen import Memory
        self.name = name
        self.bw, self.aw, self.address = bw, aw, address
        self.pbits = _log2(paging // 4)
        self.mem = Memory(width, depth, init=init, name="mem")
        self.bus = _csr_bus.Interface(data_width=bw, address_width=aw)
        self.sram = _csr_bus.SRAM(self.mem, address, read_only=read_only, bus=self.bus, paging=paging)
        self.netlist = Netlist(self.sram)
        self.page = self.sram._page.storage if self.sram._page is not None else None
        self.page_bits = len(self.page) if self.page is not None else 0
        self.lean_open = "sram " + lean_sram(bw, self.pbits, address, width, depth, read_only, init)
        self.qual = [None]
        cpm = -(-width // bw)
        self.nwords = depth * cpm
        dmask = (1 << bw) - 1
        base = address << self.pbits
        nadr = nadr or min(self.nwords, 1 << self.pbits)
        adrs = [base + a for a in range(nadr)] + [((address ^ 1) << self.pbits)]
        letters = []
        for pv in range(1 << self.page_bits):
            for a in adrs:
                letters.append((a, 0, 0, 0, pv))
                for d in data_values:
                    letters.append((a, 0, 1, d & dmask, pv))
        self.alphabet = letters
        self.inputs = self.outputs = None
        self.depth, self.width, self.cpm, self.read_only = depth, width, cpm, read_only
        self.init = list(init or [])

    def apply(self, letter):
        n = self.netlist
        adr, re, we, dat, pv = letter
        n.set(self.bus.adr, adr); n.set(self.bus.re, re); n.set(self.bus.we, we); n.set(self.bus.dat_w, dat)
        if self.page is not None:
            n.set(self.page, pv)
        n.settle()

    def sample(self):
        return [self.netlist.getu(self.bus.dat_r)]

    def nontrivial(self, letter, outs):
        return bool((letter[0] >> self.pbits) == self.address and (letter[1] or letter[2]))

    def gen(self, rng, t):
        base = self.address << self.pbits
        x = rng.random()
        if x < 0.8:
            adr = base + rng.randrange(min(self.nwords, 1 << self.pbits))
        elif x < 0.9:
            adr = base + rng.randrange(1 << self.pbits)
        else:
            adr = rng.randrange(1 << self.aw)
        y = rng.random()
        re, we = (0, 0) if y < 0.15 else (1, 0) if y < 0.5 else (0, 1)
        return (adr, re, we, rng.getrandbits(self.bw), rng.getrandbits(self.page_bits) if self.page_bits else 0)

    def monitor(self):
        return SramMonitor(self)


class SramMonitor:
    """Reference memory: a write to the last sub-word of a memory word stores Cat(dat_w, staged sub-words);
    a read returns, one cycle later, the addressed sub-word of the addressed (paged) memory word; 0 when the
    window was not addressed."""

    def __init__(self, inst):
        self.i = inst
        self.mem = [(inst.init[a] if a < len(inst.init) else 0) & ((1 << inst.width) - 1) for a in range(inst.depth)]
        self.stage = [0] * (inst.cpm - 1)
        self.pending = None     # (memory word index, sub-word) addressed in the previous cycle
        self.skip = False

    def expected_datr(self):
        """Expected read data of this cycle; None = unspecified."""
        I = self.i
        if self.skip:
            return None
        if self.pending is None:
            return 0
        w, sub = self.pending
        return None if self.mem[w] is None else (self.mem[w] >> ((I.cpm - 1 - sub) * I.bw)) & ((1 << I.bw) - 1)

    def observe(self, letter, outs, check_datr=True):
        I = self.i
        adr, re, we, dat, pv = letter
        msg = None
        exp = self.expected_datr()
        if check_datr and exp is not None and outs[0] != exp:
            msg = "dat_r = %#x, expected %#x (content of the memory word addressed in the previous cycle)" % (outs[0], exp)
        self.skip = False
        self.pending = None
        if (adr >> I.pbits) == I.address:
            idx = adr & ((1 << I.pbits) - 1)
            wbits = (I.cpm - 1).bit_length()
            sub = idx & ((1 << wbits) - 1)
            inpage = idx >> wbits
            words_per_page = (1 << I.pbits) >> wbits
            w = inpage + (pv * words_per_page if I.page_bits else 0)
            if w >= I.depth or sub >= I.cpm:
                # outside the populated window: unspecified (the simulator clamps the array index)
                self.skip = True
                if we and not I.read_only:
                    self.mem = [None] * I.depth
                    self.stage = [None] * (I.cpm - 1)
            else:
                if we and not I.read_only:
                    if sub == I.cpm - 1:
                        v = dat & ((1 << I.bw) - 1)
                        for k, s in enumerate(reversed(self.stage)):
                            v = None if (v is None or s is None) else v | (s << ((k + 1) * I.bw))
                        self.mem[w] = None if v is None else v & ((1 << I.width) - 1)
                    else:
                        self.stage[sub] = dat & ((1 << I.bw) - 1)
                self.pending = (w, sub)
        return msg


class _Periph:
    """A CSR-bearing object as CSRBankArray expects it (`get_csrs`, `get_memories`)."""

    def __init__(self, csrs, mems):
        self._csrs, self._mems = csrs, mems

    def get_csrs(self):
        return list(self._csrs)

    def get_memories(self):
        return list(self._mems)


class ArrayInst:
    """Real `CSRBankArray` over a source object with several CSR-bearing attributes, connected to one master
    through `Interconnect` or to several through `InterconnectShared`.
      periphs: list of (attr name, [Reg], [(width, depth, read_only, init)])   (attribute names sort = scan order)
      address_map: attr name -> bank number, (attr name, k-th memory) -> window number
    Letter = (adr, re, we, dat_w) per master + (dev_we, dev_dat) per register of every bank (bank order).
    Outputs = [dat_r] + per register [val, re, we, r] + storage fields."""

    def __init__(self, name, periphs, bank_addr, mem_addr, bw=8, ordering="big", paging=0x800, aw=14, nmasters=1,
                 data_values=(0xA5A5A5A5A5, 0x5A5A5A5A5A), dev_values=(0x3C3C3C3C3C,), m1_letters=None):
        from migen import Memory
        self.name, self.bw, self.aw, self.nmasters = name, bw, aw, nmasters
        self.ordering = ordering
        self.pbits = _log2(paging // 4)

        class Src:
            pass
        src = Src()
        self.objs = {}
        mems_by_id = {}
        for pname, regs, mems in periphs:
            objs = [build_reg(r, r.name or "%s_r%d" % (pname, k)) for k, r in enumerate(regs)]
            mobjs = []
            for mi, (w, d, ro, init) in enumerate(mems):
                m = Memory(w, d, init=init, name="%s_mem%d" % (pname, mi))
                mems_by_id[id(m)] = (pname, mi)
                mobjs.append((ro, m) if ro else m)
            setattr(src, pname, _Periph(objs, mobjs))
            self.objs[pname] = objs

        def address_map(nm, memory):
            if memory is None:
                return bank_addr[nm]
            return mem_addr[mems_by_id[id(memory)]]
        self.array = _csr_bus.CSRBankArray(src, address_map, data_width=bw, address_width=aw, paging=paging,
                                           ordering=ordering)
        self.masters = [_csr_bus.Interface(data_width=bw, address_width=aw) for _ in range(nmasters)]
        top = Module()
        top.submodules += self.array
        if nmasters == 1:
            top.submodules += _csr_bus.Interconnect(self.masters[0], self.array.get_buses())
        else:
            top.submodules += _csr_bus.InterconnectShared(self.masters, self.array.get_buses())
        self.netlist = Netlist(top)
        # ---- describe what was built (from the real array, in its own order)
        self.bank_regs = []
        self.ports = []
        toks = [nmasters, len(self.array.banks)]
        page_loc = {}
        for bi, (nm, csrs, mapaddr, rmap) in enumerate(self.array.banks):
            regs = [spec_of(c) for c in csrs]
            self.bank_regs.append(regs)
            for ri, (r, c) in enumerate(zip(regs, csrs)):
                self.ports.append(RegPorts(r, c))
                page_loc[id(c)] = (bi, ri)
            toks.append("%d %d %d %d %s" % (bw, 0 if ordering == "big" else 1, self.pbits, mapaddr, lean_regs(regs)))
        toks.append(len(self.array.srams))
        self.windows = []
        for (nm, memory, mapaddr, mmap) in self.array.srams:
            ro = not hasattr(mmap, "specials") and False
            port = list(memory.ports)[0]
            ro = port.we is None
            init = list(memory.init or [])
            toks.append(lean_sram(bw, self.pbits, mapaddr, memory.width, memory.depth, ro, init))
            if mmap._page is not None:
                bi, ri = page_loc[id(mmap._page)]
                toks.append("1 %d %d" % (bi, ri))
            else:
                toks.append("0 0 0")
            self.windows.append((mapaddr, memory.depth * (-(-memory.width // bw))))
        self.lean_open = "array " + " ".join(map(str, toks))
        self.all_regs = [r for regs in self.bank_regs for r in regs]
        self.qual = [None]
        base = 1
        for p in self.ports:
            q = [None] * p.nouts()
            if p.reg.kind == RAW:
                q[3] = base + 1
            self.qual += q
            base += p.nouts()
        # ---- alphabet
        dmask = (1 << bw) - 1
        adrs = []
        for (nm, csrs, mapaddr, rmap) in self.array.banks:
            adrs += [(mapaddr << self.pbits) + a for a in range(min(len(rmap.simple_csrs), 1 << self.pbits))]
        for (mapaddr, nw) in self.windows:
            adrs += [(mapaddr << self.pbits) + a for a in range(min(nw, 1 << self.pbits))]
        used = set(bank_addr.values()) | set(mem_addr.values())
        free = next(a for a in range(64) if a not in used)
        adrs.append(free << self.pbits)
        self.adrs = adrs
        m0 = []
        for a in adrs:
            m0.append((a, 0, 0, 0))
            m0.append((a, 1, 0, 0))
            for d in data_values:
                m0.append((a, 0, 1, d & dmask))
        if nmasters > 1:
            m1 = m1_letters or [(0, 0, 0, 0), (adrs[0], 0, 1, data_values[-1] & dmask), (adrs[-2], 1, 0, 0)]
            ml = [x + y for x in m0 for y in m1]
            for _ in range(nmasters - 2):
                ml = [x + (0, 0, 0, 0) for x in ml]
        else:
            ml = m0
        nodev = [(0, 0)] * len(self.all_regs)
        devl = [tuple(nodev)]
        for k, r in enumerate(self.all_regs):
            for ch in dev_choices(r, dev_values):
                l = list(nodev)
                l[k] = ch
                devl.append(tuple(l))
        self.alphabet = [m + tuple(itertools.chain(*d)) for m in ml for d in devl]
        self.inputs = self.outputs = None

    def apply(self, letter):
        n = self.netlist
        for mi, m in enumerate(self.masters):
            adr, re, we, dat = letter[4 * mi:4 * mi + 4]
            n.set(m.adr, adr); n.set(m.re, re); n.set(m.we, we); n.set(m.dat_w, dat)
        o = 4 * self.nmasters
        for k, p in enumerate(self.ports):
            p.drive(n, letter[o + 2 * k], letter[o + 2 * k + 1])
        n.settle()

    def sample(self):
        n = self.netlist
        d = [n.getu(m.dat_r) for m in self.masters]
        outs = [d[0] if all(x == d[0] for x in d) else -1]
        for p in self.ports:
            outs += p.sample(n)
        return outs

    def nontrivial(self, letter, outs):
        return bool(any(letter[4 * mi + 1] or letter[4 * mi + 2] for mi in range(self.nmasters))
                    or any(letter[4 * self.nmasters + 2 * k] for k in range(len(self.ports))))

    def monitor(self):
        return ArrayMonitor(self)

    def gen(self, rng, t):
        dmask = (1 << self.bw) - 1
        letter = []
        active = rng.randrange(self.nmasters)
        for mi in range(self.nmasters):
            if mi != active and rng.random() < 0.9:
                letter += [0, 0, 0, 0]
                continue
            adr = rng.choice(self.adrs) if rng.random() < 0.85 else rng.randrange(1 << self.aw)
            y = rng.random()
            re, we = (0, 0) if y < 0.15 else (1, 0) if y < 0.5 else (0, 1)
            letter += [adr, re, we, rng.choice((0, dmask, rng.getrandbits(self.bw), rng.getrandbits(self.bw)))]
        for r in self.all_regs:
            m = (1 << r.eff_size()) - 1
            if r.kind == STORAGE:
                letter += [1 if (r.wfd and rng.random() < 0.15) else 0, rng.getrandbits(r.eff_size()) if r.wfd else 0]
            else:
                letter += [0, rng.choice((0, m, rng.getrandbits(r.eff_size())))]
        return tuple(letter)


class _Win:
    """Geometry of one memory window, as SramMonitor needs it."""

    def __init__(self, bw, pbits, address, memory, read_only, page_bits):
        self.bw, self.pbits, self.address = bw, pbits, address
        self.width, self.depth = memory.width, memory.depth
        self.cpm = -(-memory.width // bw)
        self.read_only = read_only
        self.init = list(memory.init or [])
        self.page_bits = page_bits


class ArrayMonitor:
    """Property oracle for a bank array: one reference register file per bank, one reference memory per window,
    all fed with the OR of the masters' signals; the read data every master sees must be the OR of what the
    slaves are expected to drive (the addressed one its word, all others 0)."""

    def __init__(self, inst):
        self.inst = inst
        self.banks = []
        o = 1
        d = 4 * inst.nmasters
        for (nm, csrs, mapaddr, rmap), regs in zip(inst.array.banks, inst.bank_regs):
            nout = sum(4 + (len(r.fields) if r.kind == STORAGE else 0) for r in regs)
            mon = RegFileMonitor(regs, inst.bw, inst.ordering, inst.pbits, mapaddr,
                                 check_atomic=not (inst.ordering == "little" and any(
                                     r.kind == STORAGE and r.atomic and r.eff_size() > inst.bw for r in regs)))
            self.banks.append((mon, o, nout, d, len(regs)))
            o += nout
            d += 2 * len(regs)
        self.wins = []
        for (nm, memory, mapaddr, mmap) in inst.array.srams:
            port = list(memory.ports)[0]
            pb = len(mmap._page.storage) if mmap._page is not None else 0
            mon = SramMonitor(_Win(inst.bw, inst.pbits, mapaddr, memory, port.we is None, pb))
            page_out = None
            if mmap._page is not None:
                k = next(i for i, p in enumerate(inst.ports) if p.obj is mmap._page)
                page_out = 1 + sum(p.nouts() for p in inst.ports[:k])
            self.wins.append((mon, page_out))

    def observe(self, letter, outs):
        I = self.inst
        bus = [0, 0, 0, 0]
        for mi in range(I.nmasters):
            for x in range(4):
                bus[x] |= letter[4 * mi + x]
        msg = None
        exp, known = 0, True
        for (mon, o, nout, d, nr) in self.banks:
            exp |= mon.exp_datr
        for (mon, page_out) in self.wins:
            e = mon.expected_datr()
            if e is None:
                known = False
            else:
                exp |= e
        if outs[0] == -1:
            msg = "masters see different read data"
        elif known and outs[0] != exp:
            msg = "dat_r = %#x, expected %#x (OR of the addressed slave's word and zeros)" % (outs[0], exp)
        for (mon, o, nout, d, nr) in self.banks:
            m = mon.observe(tuple(bus) + tuple(letter[d:d + 2 * nr]), [None] + list(outs[o:o + nout]), check_datr=False)
            msg = msg or m
        for (mon, page_out) in self.wins:
            pv = outs[page_out] if page_out is not None else 0
            mon.observe(tuple(bus) + (pv,), [None], check_datr=False)
        return msg
