"""C19 — `litex/soc/cores/uart.py:Stream2Wishbone` (UARTBone / UARTWishboneBridge command FSM): instance, stimulus and
protocol-level monitor.  Lean side: `lean/LitexModel/Periph/Bone.lean` (`open bone <data_width> <address_width> <t>`).

  letter  = (sink.valid, sink.data, source.ready, wishbone.ack, wishbone.dat_r)
  outputs = (sink.ready, source.valid, source.data, source.last, wishbone.cyc, wishbone.stb, wishbone.we,
             wishbone.adr, wishbone.dat_w, wishbone.sel)
  compared at port level: source.data/last only while source.valid, we/adr/sel only while cyc, dat_w only while
  cyc & we.

Constructible parameters: data_width in {16, 32}, address_width in {16, 32, 64} (the constructor's assertion also lists
8, but `Signal(int(log2(1)))` = `Signal(0)` raises TypeError).  `t = int(100e-3*clk_freq)` is the WaitTimer count; the
timer runs during the whole command (everything after the command byte must fit into t cycles).  `wishbone.adr` has
address_width - log2(data_width/8) lines (word addressing): the top bits of the host's address are not shown.

The monitor (`BoneMonitor`) never looks at the Lean model: it decodes the byte stream accepted on the sink into commands
and keeps a transaction-level scoreboard of what the bridge owes the bus and the source.
"""
from c19lib import PInst

CMD_WR_INCR, CMD_RD_INCR, CMD_WR_FIXED, CMD_RD_FIXED = 1, 2, 3, 4


class BoneMonitor:
    """Protocol scoreboard (see the UARTBone host protocol, `litex/tools/remote/comm_uart.py`):
       command = cmd byte, length byte L, address (big-endian), then
         write (cmd 1 incr / 3 fixed): L words, each sent MSB first, each followed by exactly one wishbone write
            (we=1, sel all ones, dat_w = the word) at base + j (incr) or base (fixed), modulo 2**address_width;
         read (cmd 2 incr / 4 fixed): L wishbone reads at those addresses, each followed by the word read, MSB first, on
            the source (valid held until ready), `last` exactly on the final byte of the final word;
         any other cmd byte: the bus is not touched, a new command is accepted after the address bytes.
       sink.ready is 1 exactly while the bridge waits for a byte of the host, cyc/stb exactly while it owes the bus an
       access, source.valid exactly while it owes the host a byte: in particular after a command the bridge accepts the
       next one.  Never stuck: once `t` consecutive cycles have been spent inside a command the command is abandoned and
       the bridge accepts a new command byte (sink.ready = 1, no bus/source activity) in the next cycle.
       A byte accepted in the very cycle after such a timeout — or after a command that completed in exactly its t-th
       cycle, when the timer has run out as well — may or may not count as a command byte (the real core swallows it):
       the scoreboard then suspends judgement until the host has been silent for t + 2 cycles."""

    CMD, LEN, ADDR, DATA, WR, RD, SEND = range(7)

    def __init__(self, dw, aw, t):
        self.nb, self.na, self.t = dw // 8, aw // 8, t
        self.dmask, self.amask = (1 << dw) - 1, (1 << aw) - 1
        # wishbone.Interface(address_width=aw, addressing="word") has aw - log2(dw/8) address lines: the host's address is
        # a word address, counted modulo 2**aw, of which the bus shows the low lines
        self.lmask = (1 << (aw - (self.nb.bit_length() - 1))) - 1
        self.st = self.CMD
        self.inside = 0          # consecutive cycles spent inside a command so far
        self.after_timeout = False
        self.lost = None         # None, or number of consecutive cycles without a sink handshake
        self.cmd = self.length = self.addr = self.word = self.k = self.j = 0

    def _expect(self):
        """(sink.ready, source.valid, cyc, we) owed in the current scoreboard state."""
        s = self.st
        return (1 if s in (self.CMD, self.LEN, self.ADDR, self.DATA) else 0, 1 if s == self.SEND else 0,
                1 if s in (self.WR, self.RD) else 0, 1 if s == self.WR else 0)

    def _word_done(self, again):
        self.j += 1
        if self.cmd in (CMD_WR_INCR, CMD_RD_INCR):
            self.addr = (self.addr + 1) & self.amask
        # a burst of `length` words; length 0 never completes (only the timeout ends it)
        self.st = self.CMD if self.j == self.length else again
        self.k = 0

    def observe(self, letter, outs):
        sv, sd, rdy, ack, datr = letter
        srdy, srcv, srcd, last, cyc, stb, we, adr, datw, sel = outs
        sd &= 0xff
        datr &= self.dmask
        if self.lost is not None:
            self.lost = 0 if (sv and srdy) else self.lost + 1
            if self.lost >= self.t + 2:
                self.lost, self.st, self.inside, self.after_timeout = None, self.CMD, 0, False
            return None
        msg = None
        e_srdy, e_srcv, e_cyc, e_we = self._expect()
        names = ("RECEIVE-CMD", "RECEIVE-LENGTH", "RECEIVE-ADDRESS", "RECEIVE-DATA", "WRITE-DATA", "READ-DATA", "SEND-DATA")
        where = "%s of cmd=%d length=%d word %d" % (names[self.st], self.cmd, self.length, self.j)
        if srdy != e_srdy:
            msg = "sink.ready=%d in %s" % (srdy, where)
        elif srcv != e_srcv:
            msg = "source.valid=%d in %s" % (srcv, where)
        elif cyc != e_cyc or stb != e_cyc:
            msg = "wishbone cyc=%d stb=%d in %s" % (cyc, stb, where)
        elif e_cyc and (we != e_we or adr != self.addr & self.lmask or sel != (1 << self.nb) - 1):
            msg = "wishbone we=%d adr=0x%x sel=0x%x, expected we=%d adr=0x%x sel=0x%x in %s" % (
                we, adr, sel, e_we, self.addr & self.lmask, (1 << self.nb) - 1, where)
        elif e_cyc and e_we and datw != self.word:
            msg = "wishbone dat_w=0x%x, host sent 0x%x (%s)" % (datw, self.word, where)
        elif e_srcv:
            byte = (self.word >> (8 * (self.nb - 1 - self.k))) & 0xff
            e_last = 1 if (self.k == self.nb - 1 and self.j + 1 == self.length) else 0
            if srcd != byte or last != e_last:
                msg = "source.data=0x%02x last=%d, expected byte %d of 0x%x = 0x%02x last=%d (%s)" % (
                    srcd, last, self.k, self.word, byte, e_last, where)
        if msg:
            return msg
        # ---- what the observed handshakes do to the scoreboard
        st0 = self.st
        if st0 == self.CMD:
            if sv:
                if self.after_timeout:
                    self.lost = 0
                    return None
                self.cmd, self.st, self.j, self.k = sd, self.LEN, 0, 0
        elif st0 == self.LEN:
            if sv:
                self.length, self.st, self.k, self.addr = sd, self.ADDR, 0, 0
        elif st0 == self.ADDR:
            if sv:
                self.addr = ((self.addr << 8) | sd) & self.amask
                self.k += 1
                if self.k == self.na:
                    self.k, self.word = 0, 0
                    self.st = (self.DATA if self.cmd in (CMD_WR_INCR, CMD_WR_FIXED) else
                               self.RD if self.cmd in (CMD_RD_INCR, CMD_RD_FIXED) else self.CMD)
        elif st0 == self.DATA:
            if sv:
                self.word = ((self.word << 8) | sd) & self.dmask
                self.k += 1
                if self.k == self.nb:
                    self.k, self.st = 0, self.WR
        elif st0 == self.WR:
            if ack:
                self.word = 0
                self._word_done(self.DATA)
        elif st0 == self.RD:
            if ack:
                self.word, self.k, self.st = datr, 0, self.SEND
        elif st0 == self.SEND:
            if rdy:
                self.k += 1
                if self.k == self.nb:
                    self._word_done(self.RD)
        # ---- never stuck: at most t cycles inside a command without the timeout
        self.after_timeout = False
        if st0 != self.CMD:
            if self.inside >= self.t:
                self.st, self.after_timeout = self.CMD, True
            else:
                self.inside += 1
                if self.inside >= self.t and self.st == self.CMD:
                    self.after_timeout = True        # completed in exactly the t-th cycle: the timer has run out as well
        else:
            self.inside = 0
        return None


class BoneInst(PInst):
    """`Stream2Wishbone(phy=None, clk_freq, data_width, address_width)`; mode B plays a host (well-formed commands with
    gaps, occasional garbage and silences longer than the timeout), a wishbone memory with random ack delays and a
    source consumer with random stalls.  The stimulus is closed-loop: it reads the (Moore) outputs sink.ready,
    wishbone.cyc/we/adr of the real netlist before choosing the letter of the cycle."""

    def __init__(self, dw, aw, clk_freq, alphabet=None, tag=""):
        from litex.soc.cores.uart import Stream2Wishbone
        core = Stream2Wishbone(phy=None, clk_freq=clk_freq, data_width=dw, address_width=aw)
        t = int(100e-3 * clk_freq)
        self.core, self.dw, self.aw, self.t = core, dw, aw, t
        wb = core.wishbone
        PInst.__init__(self, "Stream2Wishbone(data_width=%d,address_width=%d,timeout=%d)%s" % (dw, aw, t, tag), core,
                       "bone %d %d %d" % (dw, aw, t),
                       [core.sink.valid, core.sink.data, core.source.ready, wb.ack, wb.dat_r],
                       [core.sink.ready, core.source.valid, core.source.data, core.source.last, wb.cyc, wb.stb, wb.we,
                        wb.adr, wb.dat_w, wb.sel],
                       alphabet, None, lambda l, o: (l[0] and o[0]) or (l[2] and o[1]) or (l[3] and o[4]),
                       qual=[None, None, 1, 1, None, None, 4, 4, (lambda a: a[4] == 1 and a[6] == 1), 4],
                       idle=lambda l: (0, 0, 1, 1, 0))
        self.monitor = lambda: BoneMonitor(dw, aw, t)
        self._host_reset()

    # ---- mode B stimulus
    def _host_reset(self):
        self.q = []              # bytes the host still wants to send
        self.silence = 0         # cycles of deliberate host silence left
        self.rd_left = 0         # bytes the host still expects back
        self.idle = 0
        self.mem = {}
        self.p = (1.0, 1.0, 1.0)

    def _new_command(self, rng):
        nb, na, t = self.dw // 8, self.aw // 8, self.t
        r = rng.random()
        cmd = rng.choice((1, 2, 3, 4)) if r < 0.9 else rng.choice((0, 5, 6, 0x81, 0xff))
        lmax = max(1, min(255, t // (2 * nb + 2)))
        r = rng.random()
        length = (rng.randint(1, min(lmax, 4)) if r < 0.7 else rng.randint(1, lmax) if r < 0.93 else
                  0 if r < 0.96 else rng.choice((255, 128, lmax + 3)) & 0xff)
        r = rng.random()
        top = (1 << self.aw) - 1
        addr = (rng.getrandbits(self.aw) if r < 0.5 else rng.randint(0, 16) if r < 0.75 else
                top - rng.randint(0, 2))                              # wraps around within a burst
        q = [cmd, length] + [(addr >> (8 * (na - 1 - k))) & 0xff for k in range(na)]
        if cmd in (1, 3):
            q += [rng.getrandbits(8) for _ in range(nb * length)]
            self.rd_left = 0
        elif cmd in (2, 4):
            self.rd_left = nb * length
        self.q = q

    def gen(self, rng, t):
        n, c = self.netlist, self.core
        if t == 0:
            self._host_reset()
        if t % 211 == 0:
            self.p = (rng.choice((1.0, 0.8, 0.35)), rng.choice((1.0, 0.6, 0.25)), rng.choice((1.0, 0.6, 0.25)))
        pv, pa, pr = self.p
        srdy, srcv = n.getu(c.sink.ready), n.getu(c.source.valid)
        cyc, we, adr = n.getu(c.wishbone.cyc), n.getu(c.wishbone.we), n.getu(c.wishbone.adr)
        # host -> sink
        sv, sd = 0, rng.getrandbits(8)
        if self.silence > 0:
            self.silence -= 1
            if self.silence == 0 and rng.random() < 0.7:
                self.q, self.rd_left = [], 0                       # the host gives the command up
        elif self.q:
            if rng.random() < 0.004 * (1 + 200 // (self.t + 1)):
                self.silence = rng.choice((self.t // 2, self.t + 1, self.t + 2, self.t + 9))
            elif rng.random() < pv:
                sv, sd = 1, self.q[0]
                if srdy:
                    self.q.pop(0)
        elif self.rd_left > 0 and self.idle < 2 * self.t + 20 and rng.random() < 0.98:
            pass                                                     # waiting for the read data
        elif rng.random() < 0.3:
            self._new_command(rng)
            self.idle = 0
        self.idle = 0 if (sv or cyc or srcv) else self.idle + 1
        # source consumer
        rdy = 1 if rng.random() < pr else 0
        if rdy and srcv and self.rd_left > 0:
            self.rd_left -= 1
        # wishbone memory
        ack = 1 if rng.random() < (pa if cyc else 0.05) else 0
        datr = self.mem.get(adr)
        if datr is None:
            datr = rng.getrandbits(self.dw)
            if cyc:
                self.mem[adr] = datr
        if cyc and we and ack:
            self.mem[adr] = n.getu(c.wishbone.dat_w)
        return (sv, sd, rdy, ack, datr)


def mk_bone(data_width, address_width, clk_freq, alphabet=None, tag=""):
    return BoneInst(data_width, address_width, clk_freq, alphabet, tag)


def bone_alphabet(bytes_, datrs, extra=()):
    """Mode A letters: idle, one sink byte, source ready, a bus ack with read data, and everything at once."""
    L = [(0, 0, 0, 0, 0), (0, 0, 1, 0, 0)]
    L += [(1, b, 0, 0, 0) for b in bytes_]
    L += [(0, 0, 0, 1, d) for d in datrs]
    L += [(1, bytes_[0], 1, 1, datrs[-1])]
    return L + list(extra)


def jobs(tier):
    from explore import Job
    quick = tier == "quick"
    J = []
    A = lambda mk, q, th: J.append(Job("A", mk, max_states=q if quick else th))
    B = lambda mk, q, th: J.append(Job("B", mk, cycles=q if quick else th, runs=1 if quick else 3))
    # mode A: t = 7 lets a one-word burst finish (2 + 2 + 2 + 1 cycles), t = 10 a two-word burst
    A(lambda: mk_bone(16, 16, 70, bone_alphabet((1, 2), (0x0102,)), "/A wr,rd incr"), 1000, 30000)
    A(lambda: mk_bone(16, 16, 100, bone_alphabet((3, 4, 2), (0x0304,)), "/A fixed"), 700, 30000)
    A(lambda: mk_bone(16, 16, 70, bone_alphabet((0, 1, 7), (0xff00, 1)), "/A bad cmd, length 0"), 700, 30000)
    if not quick:
        A(lambda: mk_bone(32, 16, 120, bone_alphabet((1, 2), (0x01020304,)), "/A dw32"), 0, 30000)
        A(lambda: mk_bone(16, 32, 100, bone_alphabet((1, 2), (0x0102,)), "/A aw32"), 0, 30000)
    # mode B
    B(lambda: mk_bone(32, 32, 3000), 2500, 40000)
    B(lambda: mk_bone(16, 64, 2000), 2000, 30000)
    B(lambda: mk_bone(32, 16, 400), 2000, 30000)
    if not quick:
        B(lambda: mk_bone(16, 16, 250), 0, 30000)
        B(lambda: mk_bone(32, 64, 20000), 0, 30000)
        B(lambda: mk_bone(16, 32, 1e3), 0, 30000)
    return J


# ---------------------------------------------------------------------------------------------------------
if __name__ == "__main__":
    import sys, time, random
    sys.path.insert(0, '/verif/harness')
    import envshim
    envshim.install()
    from leanproc import LeanDriver
    import explore
    from runner import Coverage

    lean = LeanDriver("C19")
    cycles = int(sys.argv[1]) if len(sys.argv) > 1 else 4000
    bad = 0
    t0 = time.process_time()
    for k, mk in enumerate([lambda: mk_bone(32, 32, 3000), lambda: mk_bone(16, 64, 2000), lambda: mk_bone(32, 16, 400),
                            lambda: mk_bone(16, 16, 250), lambda: mk_bone(32, 64, 600), lambda: mk_bone(16, 32, 70)]):
        inst = mk()
        cov = Coverage()
        dis = explore.cosim(inst, lean, cov, random.Random(1000 + k), cycles, runs=2)
        stats = cov.instances[-1]
        print("B %-60s %d cycles x2, %d distinct handshake situations: %s" % (
            inst.name, cycles, stats["distinct_nontrivial"], "ok" if not dis else "MISMATCH"))
        for d in dis:
            bad += 1
            print("   %s at cycle %d: impl %s model %s; last letters %s" % (d.kind, d.cycle, d.impl_outs, d.model_outs,
                                                                         [list(l) for l in d.trace[-6:]]))
    for job in jobs("quick"):
        if job.mode != "A":
            continue
        inst = job.make()
        cov = Coverage()
        dis = explore.coexplore(inst, lean, cov, **job.kw)
        stats = cov.instances[-1]
        print("A %-60s %d states %d transitions exhaustive=%s: %s" % (
            inst.name, stats["states"], stats["transitions"], stats["exhaustive"], "ok" if not dis else "MISMATCH"))
        for d in dis:
            bad += 1
            print("   cycle %d: impl %s model %s trace %s" % (d.cycle, d.impl_outs, d.model_outs, [list(l) for l in d.trace]))
    lean.quit()
    print("cpu %.1f s; %s" % (time.process_time() - t0, "PASS" if not bad else "FAIL (%d)" % bad))
    sys.exit(1 if bad else 0)
