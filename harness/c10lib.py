"""C10 — instances, oracles and explorers for AXIBurst2Beat and the AXI data-width converters.

The oracle functions in the first section are an independent Python transcription of AMBA AXI A3.4.1; they are
used by the monitors and by the failing-input search and never consult the Lean model."""
import time, os
from collections import deque
from netlist import Netlist
from explore import Disagreement, impl_step, _masked_equal, _path

FIXED, INCR, WRAP, RESERVED = 0, 1, 2, 3

# ---------------------------------------------------------------------------------------------------------
# A3.4.1 oracle (independent of the model)


def spec_addr(start, ln, size, bt, k):
    """Address of transfer k (0-based) of a burst, AMBA AXI A3.4.1."""
    number_bytes = 1 << size
    burst_length = ln + 1
    aligned = (start // number_bytes) * number_bytes
    if bt == INCR or bt == WRAP:
        a = start if k == 0 else aligned + k * number_bytes
        if bt == WRAP:
            wrap_boundary = (start // (number_bytes * burst_length)) * (number_bytes * burst_length)
            if a >= wrap_boundary + number_bytes * burst_length:
                a -= number_bytes * burst_length
        return a
    return start


def legal(aw, start, ln, size, bt):
    """Legal burst for (effective) burst type bt on an aw-bit address bus."""
    if not (start < (1 << aw) and ln < 256 and size < 8):
        return False
    nb = 1 << size
    if bt == INCR:
        return ((start // nb) * nb) % 4096 + (ln + 1) * nb <= 4096
    if bt == WRAP:
        return ln in (1, 3, 7, 15) and start % nb == 0
    return True


def eff_burst(caps, bt):
    if bt == INCR and INCR in caps:
        return INCR
    if bt == WRAP and WRAP in caps:
        return WRAP
    return FIXED


def beat_bytes(start, ln, size, bt, k):
    a = spec_addr(start, ln, size, bt, k)
    nb = 1 << size
    return list(range(a, (a // nb) * nb + nb))


def burst_bytes(start, ln, size, bt):
    out = []
    for k in range(ln + 1):
        out += beat_bytes(start, ln, size, bt, k)
    return out


# ---------------------------------------------------------------------------------------------------------
# AXIBurst2Beat driven by a protocol-legal master


class HeldNetlist:
    """Netlist plus the request a protocol-legal master is holding (part of the explored state)."""

    def __init__(self, netlist):
        self.n = netlist
        self.held = None
        self.pending = None     # (valid, req, burst_ready) of the cycle being stepped
        self.hold = True

    def tick(self, cds=("sys",)):
        v, req, bready = self.pending
        self.held = req if (self.hold and v and not bready) else None
        self.n.tick(cds)

    def snapshot(self):
        return (self.n.snapshot(), self.held)

    def restore(self, snap):
        self.n.restore(snap[0])
        self.held = snap[1]

    def state_key(self):
        return (self.n.state_key(), self.held)


class B2BInst:
    """letter  = (go, addr, len, size, burst, id, beat.ready)
       outputs = [burst.valid, burst.ready, beat.valid, beat.addr, beat.first, beat.last, beat.id]"""
    FMT = "go, addr, len, size, burst, id, beat.ready  (request fields used only when the master holds nothing)"

    def __init__(self, name, aw=12, caps=(FIXED, INCR, WRAP), hold=True, id_width=2, box=None, legal_only=False,
                 shard=None, version="axi4"):
        from litex.soc.interconnect.axi.axi_full import AXIBurst2Beat, ax_description
        from litex.soc.interconnect.axi.axi_stream import AXIStreamInterface
        self.name = name
        self.aw = aw
        self.caps = set(caps)
        self.hold = hold
        self.id_width = id_width
        self.version = version
        self.size_max = 7 if version == "axi4" else 15
        self.len_max = 255 if version == "axi4" else 15
        self.burst = AXIStreamInterface(layout=ax_description(aw, version=version), id_width=id_width)
        self.beat = AXIStreamInterface(layout=[("addr", aw)], id_width=id_width)
        self.module = AXIBurst2Beat(self.burst, self.beat, capabilities=self.caps)
        self.netlist = HeldNetlist(Netlist(self.module))
        self.netlist.hold = hold
        self.reset_key = self.netlist.n.state_key()
        self.lean_open = "b2b %d %d %d %d" % (aw, int(INCR in self.caps), int(WRAP in self.caps), int(hold))
        self.qual = [None, 0, None, 2, 2, 2, 2]
        self.legal_only = legal_only
        # box = dict(addr=[...], len=[...], size=[...], burst=[...], id=[...]) for mode D
        self.box = box
        self.shard = shard
        self.alphabet = None
        b = self.burst
        self._req_sigs = (b.addr, b.len, b.size, b.burst, b.id)

    # -- explore.impl_step hooks --------------------------------------------------------------------------
    def apply(self, letter):
        hn = self.netlist
        n = hn.n
        go, addr, ln, size, bt, rid, ready = letter
        if hn.held is not None:
            v, req = 1, hn.held
        else:
            v, req = go, (addr, ln, size, bt, rid)
        n.set(self.burst.valid, v)
        for s, val in zip(self._req_sigs, req):
            n.set(s, val)
        n.set(self.beat.ready, ready)
        n.settle()
        self._cur = (v, req)

    def sample(self):
        n = self.netlist.n
        v, req = self._cur
        bready = n.getu(self.burst.ready)
        self.netlist.pending = (v, req, bready)
        return [v, bready, n.getu(self.beat.valid), n.getu(self.beat.addr), n.getu(self.beat.first),
                n.getu(self.beat.last), n.getu(self.beat.id)]

    def nontrivial(self, letter, outs):
        return bool(outs[2] and letter[6])

    # -- dynamic alphabet (mode D) ------------------------------------------------------------------------
    def requests(self):
        bx = self.box
        for bt in bx["burst"]:
            for size in bx["size"]:
                for ln in bx["len"]:
                    for a in bx["addr"]:
                        yield (a, ln, size, bt)

    def letters_here(self):
        """Letters to explore from the current (restored) state."""
        hn = self.netlist
        if hn.held is not None:
            return [(0, 0, 0, 0, 0, 0, 0), (0, 0, 0, 0, 0, 0, 1)]
        clean = hn.n.state_key() == self.reset_key
        ids = self.box["id"]
        out = [(0, 5 % (1 << self.aw), 0, 0, 1, ids[-1], 0), (0, 9 % (1 << self.aw), 3, 1, 2, ids[0], 1)]   # garbage with valid = 0
        if clean:
            k = 0
            for (a, ln, size, bt) in self.requests():
                for r in (0, 1):
                    out.append((1, a, ln, size, bt, ids[k % len(ids)], r))
                k += 1
        else:
            # idle with a stale offset: only reachable after an illegal burst; reduced alphabet
            amax = (1 << self.aw) - 1
            for (a, ln, size, bt) in ((0x10 & amax, 0, 2, FIXED), (0x24 & amax, 1, 2, INCR), (0x8 & amax, 1, 2, WRAP),
                                      (0xc & amax, 3, 2, WRAP)):
                for r in (0, 1):
                    out.append((1, a, ln, size, bt, ids[0], r))
        return out

    # -- random generator (mode B) ------------------------------------------------------------------------
    def gen_req(self, rng):
        aw = self.aw
        kind = rng.random()
        bt = rng.choice((FIXED, INCR, INCR, WRAP, WRAP)) if kind < 0.97 or self.legal_only else RESERVED
        size = rng.randint(0, 7)
        if self.size_max > 7 and rng.random() < 0.3:
            size = rng.randint(8, self.size_max)      # AXI3 port: 4-bit size, 1 << size overflows the 12-bit beat_size
        nb = 1 << size
        page = rng.randrange(1 << (aw - 12)) << 12 if aw > 12 else 0
        if rng.random() < 0.3:
            page = (((1 << aw) - 1) >> 12) << 12       # top page of the address space
        illegal = (not self.legal_only) and rng.random() < 0.1
        if size > 7:
            ln = rng.randint(0, self.len_max)
            addr = rng.randrange(1 << aw)
        elif bt == INCR:
            maxlen = min(255, 4096 // nb - 1)
            ln = rng.choice((0, 1, maxlen, rng.randint(0, maxlen), rng.randint(0, min(maxlen, 20))))
            room = 4096 - (ln + 1) * nb
            off = rng.choice((0, room, rng.randint(0, room))) // nb * nb
            addr = page + off + (rng.randrange(nb) if rng.random() < 0.5 else 0)
            if illegal:
                ln = rng.randint(0, 255)
                addr = rng.randrange(1 << aw)
        elif bt == WRAP:
            ln = rng.choice((1, 3, 7, 15))
            addr = page + rng.randrange(4096 // nb) * nb
            if illegal:
                ln = rng.randint(0, 255)
                addr = rng.randrange(1 << aw)
        else:
            ln = rng.choice((0, 1, 15, rng.randint(0, 255)))
            addr = rng.randrange(1 << aw)
        rid = rng.randrange(1 << self.id_width)
        return (addr & ((1 << aw) - 1), min(ln, self.len_max), size, bt, rid)

    def gen(self, rng, t):
        regime = (t // 128) % 5
        pgo = (0.7, 1.0, 0.3, 1.0, 0.6)[regime]
        pr = (0.5, 1.0, 0.9, 0.1, 0.3)[regime]
        go = 1 if rng.random() < pgo else 0
        ready = 1 if rng.random() < pr else 0
        return (go,) + self.gen_req(rng) + (ready,)

    def monitor(self):
        return B2BMonitor(self.aw, self.caps, self.hold)


class B2BMonitor:
    """Property oracle on the real code: for every LEGAL burst offered by the protocol-legal master exactly
    len+1 beats are delivered, addresses equal the A3.4.1 addresses at transfer-size granularity, first/last mark
    the ends, the id is copied and the request is consumed exactly once, in the cycle of the last beat's handshake.
    After the first illegal burst the monitor stops demanding (the property does not cover what follows)."""

    def __init__(self, aw, caps, hold=True):
        self.aw = aw
        self.caps = caps
        self.cur = None
        self.k = 0
        self.off = not hold
        self.stall = 0
        self.prev = None      # beat offered and not accepted in the previous cycle

    def observe(self, letter, outs):
        if self.off:
            return None
        go, addr, ln, size, bt, rid, ready = letter
        v, bready, bv, baddr, bfirst, blast, bid = outs
        # a beat that was offered and stalled must be offered again unchanged (also during stalls, not only at
        # the handshake): the beat stream carries the addresses of the burst, a beat that changes while it waits
        # is a different beat
        prev, self.prev = self.prev, ((baddr, bfirst, blast, bid) if (bv and not ready) else None)
        if prev is not None and (not bv or prev != (baddr, bfirst, blast, bid)):
            return "stalled beat (addr=0x%x first=%d last=%d id=%d) changed to (valid=%d addr=0x%x first=%d last=%d id=%d)" % (
                prev + (bv, baddr, bfirst, blast, bid))
        if self.cur is None:
            if not v:
                if bv:
                    return "beat offered while no burst request is pending"
                return None
            eb = eff_burst(self.caps, bt)
            if not legal(self.aw, addr, ln, size, eb):
                self.off = True
                return None
            self.cur = (addr, ln, size, eb, rid)
            self.k = 0
            self.stall = 0
        addr, ln, size, eb, rid = self.cur
        if not v:
            return "master model error: request withdrawn"
        beat_hs = bv and ready
        burst_hs = v and bready
        msg = None
        if not bv:
            self.stall += 1
            if self.stall > 16:
                msg = "no beat offered for 16 cycles while a burst request is pending"
        else:
            self.stall = 0
        if beat_hs:
            k = self.k
            if k > ln:
                msg = "more than len+1 = %d beats delivered for burst %r" % (ln + 1, self.cur)
            else:
                exp = spec_addr(addr, ln, size, eb, k)
                if (baddr >> size) != (exp >> size):
                    msg = "beat %d of burst (addr=0x%x len=%d size=%d burst=%d): address 0x%x, AXI A3.4.1 says 0x%x" % (
                        k, addr, ln, size, eb, baddr, exp)
                elif bfirst != int(k == 0) or blast != int(k == ln):
                    msg = "beat %d of %d: first=%d last=%d" % (k, ln + 1, bfirst, blast)
                elif bid != rid:
                    msg = "beat id %d, request id %d" % (bid, rid)
            self.k += 1
        if msg is None:
            if burst_hs and not (beat_hs and self.k == ln + 1):
                msg = "burst request consumed in a cycle that is not the last beat's handshake (beats so far %d of %d)" % (
                    self.k, ln + 1)
            elif beat_hs and self.k == ln + 1 and not burst_hs:
                msg = "last beat delivered but the burst request was not consumed"
        if burst_hs:
            self.cur = None
        return msg


def coexplore_dyn(inst, lean, cov, max_states=400000, deadline=None):
    """Exhaustive co-exploration with a state-dependent alphabet (`inst.letters_here()`): the request lines are
    chosen only where the protocol-legal master is free to choose them."""
    n = inst.netlist
    t_start = time.time()
    lean.open(inst.lean_open)
    root_snap = n.snapshot()
    root_key = (n.state_key(), 0)
    seen = {root_key: (None, None)}
    frontier = deque([(root_snap, 0, root_key)])
    transitions = nontriv = 0
    disagreements = []
    exhaustive = True
    mon_hits = []
    while frontier and len(disagreements) < 3:
        if (deadline is not None and time.time() > deadline) or len(seen) > max_states:
            exhaustive = False
            break
        batch = [frontier.popleft() for _ in range(min(len(frontier), 256))]
        reqs = []
        impl_res = []
        for snap, sid, pair in batch:
            n.restore(snap)
            for letter in inst.letters_here():
                n.restore(snap)
                outs = impl_step(inst, letter)
                impl_res.append((pair, letter, outs, n.state_key(), n.snapshot()))
                reqs.append((sid, letter))
        model_res = lean.step_batch(reqs)
        for (pair, letter, outs, key2, snap2), (sid2, mouts) in zip(impl_res, model_res):
            transitions += 1
            if inst.nontrivial(letter, outs):
                nontriv += 1
            if not _masked_equal(inst, outs, mouts):
                trace = _path(seen, pair) + [letter]
                disagreements.append(Disagreement(inst, trace, len(trace) - 1, outs, mouts))
                if len(disagreements) >= 3:
                    break
                continue
            p2 = (key2, sid2)
            if p2 not in seen:
                seen[p2] = (pair, letter)
                frontier.append((snap2, sid2, p2))
    lean.close_session()
    cov.add_instance(inst.name, states=len(seen), transitions=transitions, nontrivial=nontriv,
                     exhaustive=exhaustive and not disagreements, mode="A")
    cov.instances[-1]["wall_s"] = round(time.time() - t_start, 1)
    cov.instances[-1]["alphabet"] = "state-dependent: request chosen only when the master holds nothing"
    if len(cov.samples) < 2:
        last = next(reversed(seen))
        cov.samples.append({"instance": inst.name, "mode": "A", "path_to_deepest_state":
                            [list(l) for l in _path(seen, last)][:40]})
    return disagreements


def monitor_sweep(inst, requests, schedules, deadline=None):
    """Failing-input search for AXIBurst2Beat: run every request of `requests` from reset under each ready
    schedule with the property monitor armed.  Returns (trace, msg) or None."""
    n = inst.netlist
    root = n.snapshot()
    for (a, ln, size, bt, rid) in requests:
        if deadline is not None and time.time() > deadline:
            break
        for sched in schedules:
            n.restore(root)
            mon = inst.monitor()
            trace = []
            t = 0
            done = False
            while not done and t < 4 * (ln + 2) + 8:
                ready = sched(t)
                letter = (1, a, ln, size, bt, rid, ready)
                outs = impl_step(inst, letter)
                trace.append(letter)
                m = mon.observe(letter, outs)
                if m:
                    n.restore(root)
                    return trace, m
                if outs[0] and outs[1]:
                    done = True
                t += 1
            if not done and not mon.off:
                n.restore(root)
                return trace, "burst never consumed"
    n.restore(root)
    return None


# ---------------------------------------------------------------------------------------------------------
# Converter address-channel arithmetic (combinational; real netlist vs Lean `upConv` / `downConv`)


def log2i(x):
    return x.bit_length() - 1


def build_converter(kind, dw_from, dw_to, aw=32, aw_to=None, via="direct"):
    """Real converter between two AXIInterfaces.  `via`: 'direct' instantiates AXIUpConverter/AXIDownConverter,
    'AXIConverter' goes through the selection glue users call (it picks the class from the two data widths)."""
    from litex.soc.interconnect.axi.axi_full import AXIInterface, AXIUpConverter, AXIDownConverter, AXIConverter
    axi_from = AXIInterface(data_width=dw_from, address_width=aw, id_width=2)
    axi_to = AXIInterface(data_width=dw_to, address_width=aw_to or aw, id_width=2)
    if via == "AXIConverter":
        module = AXIConverter(axi_from, axi_to)
    else:
        assert kind in ("up", "down")
        module = (AXIUpConverter if kind == "up" else AXIDownConverter)(axi_from, axi_to)
    return axi_from, axi_to, module


def conv_name(kind, dw_from, dw_to, aw_to=None, via="direct"):
    base = {"up": "AXIUpConverter", "down": "AXIDownConverter", "same": "AXIConverter-identity"}[kind]
    return "%s(%d->%d)%s%s" % (base, dw_from, dw_to, "/via-AXIConverter" if via != "direct" else "",
                               "/aw_to=%d" % aw_to if aw_to else "")


SIDEBAND = ("id", "lock", "prot", "cache", "qos", "region")


class ConvArith:
    """Address channels (and the other pass-through ports) of a real converter, combinationally."""

    def __init__(self, kind, dw_from, dw_to, aw=32, aw_to=None, via="direct"):
        self.kind = kind                    # 'up' | 'down' | 'same'
        self.dw_from, self.dw_to, self.aw, self.aw_to = dw_from, dw_to, aw, aw_to or aw
        self.name = conv_name(kind, dw_from, dw_to, aw_to, via) + "/ax"
        self.axi_from, self.axi_to, self.module = build_converter(kind, dw_from, dw_to, aw, aw_to, via)
        self.n = Netlist(self.module)
        self.sf = log2i(dw_from // 8)
        self.st = log2i(dw_to // 8)
        # widths of the side-band fields as declared by ax_description(version="axi4") and our id_width=2
        self.sb_width = {"id": 2, "lock": 1, "prot": 3, "cache": 4, "qos": 4, "region": 4}

    def lean_line(self, req):
        a, ln, size, bt = req
        if self.kind == "down":
            return "down %d %d %d %d %d %d" % (self.sf, self.st, a, ln, size, bt)
        return "up %d %d %d %d %d" % (self.st - self.sf, a, ln, size, bt)        # 'same' = ratio 2^0

    @staticmethod
    def garbage(req):
        """Default payload for the idle channel: differs from `req` in every field."""
        a, ln, size, bt = req
        return (a ^ 0x5a5a5a5a5a, (ln ^ 0xa5) & 0xff, (size + 3) % 8, (bt + 1) % 4)

    def _drive(self, ch, req, valid):
        n = self.n
        f = getattr(self.axi_from, ch)
        a, ln, size, bt = req
        n.set(f.valid, valid)
        n.set(f.addr, a)
        n.set(f.len, ln)
        n.set(f.size, size)
        n.set(f.burst, bt)

    def _read(self, ch):
        n = self.n
        t = getattr(self.axi_to, ch)
        return (n.getu(t.addr), n.getu(t.len), n.getu(t.size), n.getu(t.burst))

    def impl(self, req, channel="aw", other=None):
        """Translate `req` on `channel` while the OTHER address channel is idle (valid = 0) with independent garbage
        on its payload lines (`other`, default: a payload differing in every field)."""
        self._drive(channel, req, 1)
        self._drive("ar" if channel == "aw" else "aw", tuple(other) if other is not None else self.garbage(req), 0)
        self.n.settle()
        return self._read(channel)

    def impl2(self, req_aw, req_ar):
        """A write and a read request presented concurrently (both valid), different payloads."""
        self._drive("aw", req_aw, 1)
        self._drive("ar", req_ar, 1)
        self.n.settle()
        return self._read("aw"), self._read("ar")

    def passthrough(self, rng):
        """Ports the converters only connect through: AW/AR valid/ready and side-band fields, the B channel, and
        (combinationally, up-converter / identity only) R resp/id.  Returns a message or None."""
        n = self.n
        f, t = self.axi_from, self.axi_to
        for ch in ("aw", "ar"):
            cf, ct = getattr(f, ch), getattr(t, ch)
            vals = {k: rng.getrandbits(w) for k, w in self.sb_width.items()}
            v, r = rng.getrandbits(1), rng.getrandbits(1)
            n.set(cf.valid, v)
            n.set(ct.ready, r)
            for k, x in vals.items():
                n.set(getattr(cf, k), x)
            n.settle()
            got = {k: n.getu(getattr(ct, k)) for k in vals}
            if n.getu(ct.valid) != v or n.getu(cf.ready) != r:
                return "%s.%s: valid/ready not connected through (valid %d->%d, ready %d->%d)" % (
                    self.name, ch, v, n.getu(ct.valid), r, n.getu(cf.ready))
            if v and got != vals:
                return "%s.%s: side-band fields %r forwarded as %r" % (self.name, ch, vals, got)
        v, r, resp, bid = rng.getrandbits(1), rng.getrandbits(1), rng.getrandbits(2), rng.getrandbits(2)
        n.set(t.b.valid, v); n.set(t.b.resp, resp); n.set(t.b.id, bid); n.set(f.b.ready, r)
        n.settle()
        if n.getu(f.b.valid) != v or n.getu(t.b.ready) != r or (v and (n.getu(f.b.resp), n.getu(f.b.id)) != (resp, bid)):
            return "%s.b: response (valid %d resp %d id %d, ready %d) arrives as (valid %d resp %d id %d, ready %d)" % (
                self.name, v, resp, bid, r, n.getu(f.b.valid), n.getu(f.b.resp), n.getu(f.b.id), n.getu(t.b.ready))
        if self.kind in ("up", "same"):
            resp, rid = rng.getrandbits(2), rng.getrandbits(2)
            n.set(t.r.valid, 1); n.set(t.r.resp, resp); n.set(t.r.id, rid)
            n.settle()
            if n.getu(f.r.valid) and (n.getu(f.r.resp), n.getu(f.r.id)) != (resp, rid):
                return "%s.r: resp/id (%d,%d) arrive as (%d,%d)" % (self.name, resp, rid, n.getu(f.r.resp), n.getu(f.r.id))
            n.set(t.r.valid, 0)
            n.settle()
        return None

    def supported(self, req):
        """Sub-domain in which the unchanged converter transfers the right bytes (None outside):
        'incr'   INCR, full-width (up: start aligned to the wide word, len+1 multiple of the ratio;
                 down: (len+1)*ratio <= 256)                        -- proved: *_arith_partial
        'wrap'   legal WRAP, full-width, forwarded burst again a legal WRAP of 2..16 transfers
                 (up: start aligned to the wide word, (len+1)/ratio in 2..16; down: (len+1)*ratio <= 16)
        'single' down only: a single transfer (len = 0, INCR or FIXED) at least as wide as the narrow bus, any start
                 inside one wide word: forwarded as the `ratio` full-width narrow transfers of that word (strobes
                 select the bytes).  (Single transfers NARROWER than the narrow bus keep their size but still get
                 `ratio` beats: wrong on the unchanged tree, same defect as the narrow-burst known finding.)
        'same'   identity converter: everything legal."""
        a, ln, size, bt = req
        if a >= (1 << self.aw):
            return None
        if self.kind == "same":
            return "same" if bt in (FIXED, INCR, WRAP) and legal(self.aw, a, ln, size, bt) and size <= self.sf else None
        if self.kind == "up":
            ratio = 1 << (self.st - self.sf)
            if size != self.sf or a % (1 << self.st) or (ln + 1) % ratio:
                return None
            if bt == INCR and legal(self.aw, a, ln, size, INCR):
                return "incr"
            if bt == WRAP and legal(self.aw, a, ln, size, WRAP) and (ln + 1) // ratio >= 2:
                return "wrap"
            return None
        ratio = 1 << (self.sf - self.st)
        if bt == INCR and size == self.sf and legal(self.aw, a, ln, size, INCR) and (ln + 1) * ratio <= 256:
            return "incr"
        if bt == WRAP and size == self.sf and legal(self.aw, a, ln, size, WRAP) and (ln + 1) * ratio <= 16:
            return "wrap"
        if ln == 0 and bt in (INCR, FIXED) and self.st <= size <= self.sf:
            return "single"
        return None

    def oracle(self, req, got):
        """Byte-sequence equality across the converter (A3.4.1 on both sides); None if fine."""
        a, ln, size, bt = req
        dom = self.supported(req)
        if dom is None:
            return None
        a2, ln2, size2, bt2 = got
        if self.kind == "down" and dom in ("incr", "single"):
            al = (a >> self.sf) << self.sf
            want = burst_bytes(al, ln, self.sf, INCR)      # the whole wide containers, in order
        else:
            want = burst_bytes(a, ln, size, bt)
        have = burst_bytes(a2, ln2, size2, bt2) if (bt2 in (FIXED, INCR, WRAP) and ((ln2 + 1) << size2) <= 8192) else None
        ok = have == want
        if ok and dom == "wrap" and not legal(self.aw_to, a2, ln2, size2, bt2):
            ok = False
        if ok and size2 > self.st:
            ok = False
        if not ok:
            return "%s: burst (addr=0x%x len=%d size=%d burst=%d) forwarded as (addr=0x%x len=%d size=%d burst=%d): " \
                   "%s bytes from %s instead of %d bytes from 0x%x [%s]" % (
                       self.name, a, ln, size, bt, a2, ln2, size2, bt2, len(have) if have is not None else "?",
                       ("0x%x" % have[0]) if have else "?", len(want), want[0],
                       "first difference at byte %d" % next((k for k in range(min(len(have or []), len(want)))
                                                           if have[k] != want[k]), min(len(have or []), len(want))))
        return None


def conv_run(ca, lean, cov, seed, tier):
    """Mode C job: the converter's AW/AR arithmetic on the real netlist vs `upConv`/`downConv`, plus the byte-set
    oracle (model independent).  Returns a list of JSON-able disagreement dicts."""
    import random
    quick = tier == "quick"
    rng = random.Random(seed * 131 + ca.dw_from * 7 + ca.dw_to)
    reqs = list(conv_requests(rng, ca.aw, ca.sf, ca.st, quick)) + list(conv_supported_requests(rng, ca, 150 if quick else 1500))
    ans = lean.call_batch([ca.lean_line(r) for r in reqs])
    dis = []
    nsup = 0
    ofail = None
    grng = random.Random(seed * 17 + 5)
    wants = [tuple(int(w) for w in line.split()) for line in ans]
    for k, (r, line) in enumerate(zip(reqs, ans)):
        ch = "aw" if k % 2 == 0 else "ar"
        # the idle channel carries independent garbage (valid = 0): another request of the list or random fields
        other = reqs[grng.randrange(len(reqs))] if grng.random() < 0.5 else (
            grng.getrandbits(ca.aw), grng.getrandbits(8), grng.getrandbits(3), grng.getrandbits(2))
        got = ca.impl(r, ch, other)
        want = wants[k]
        if k % 3 == 0 and ofail is None and len(dis) < 3:
            # read and write presented concurrently with different payloads: both translations must be right
            k2 = grng.randrange(len(reqs))
            pair = (r, reqs[k2]) if ch == "aw" else (reqs[k2], r)
            wpair = (want, wants[k2]) if ch == "aw" else (wants[k2], want)
            gpair = ca.impl2(*pair)
            for c2, rq, g, w, orq in (("aw", pair[0], gpair[0], wpair[0], pair[1]), ("ar", pair[1], gpair[1], wpair[1], pair[0])):
                if g != w and len(dis) < 3:
                    dis.append({"instance": ca.name, "kind": "conv-arith", "channel": c2, "request": list(rq),
                                "other": list(orq), "concurrent": True, "impl": list(g), "model": list(w)})
                m = ca.oracle(rq, g) if ca.supported(rq) else None
                if m and ofail is None:
                    ofail = {"instance": ca.name, "kind": "monitor:" + m, "channel": c2, "request": list(rq),
                             "other": list(orq), "concurrent": True, "forwarded": list(g), "monitor": m}
            got = ca.impl(r, ch, other)
        dom = ca.supported(r)
        if dom:
            nsup += 1
            cov.count("conv-arith byte oracle, domain " + dom)
            m = ca.oracle(r, got)
            if m and ofail is None:
                ofail = {"instance": ca.name, "kind": "monitor:" + m, "channel": ch, "request": list(r),
                         "other": list(other), "forwarded": list(got), "monitor": m}
        if k % 16 == 0 and ofail is None:
            m = ca.passthrough(rng)
            if m:
                ofail = {"instance": ca.name, "kind": "monitor:" + m, "passthrough": True, "monitor": m}
        if got != want and len(dis) < 3:
            dis.append({"instance": ca.name, "kind": "conv-arith", "channel": ch, "request": list(r),
                        "other": list(other), "impl": list(got), "model": list(want)})
    if ofail:
        dis.append(ofail)
    cov.add_cases(ca.name, len(reqs), nsup, exhaustive=False)
    cov.count("conv-arith requests", len(reqs))
    cov.count("conv-arith requests in the byte-preserving region", nsup)
    return dis


def conv_supported_requests(rng, ca, n):
    """Requests inside the sub-domains where the converter is claimed to transfer the right bytes
    (see ConvArith.supported): INCR, WRAP and (down) single transfers of every size."""
    aw = ca.aw
    page = lambda: rng.randrange(1 << (aw - 12)) << 12
    for k in range(n):
        mode = k % 4
        if ca.kind == "same":
            bt = rng.choice((FIXED, INCR, WRAP))
            size = rng.randint(0, ca.sf)
            nb = 1 << size
            if bt == WRAP:
                ln = rng.choice((1, 3, 7, 15))
                yield (page() + rng.randrange(4096 // nb) * nb, ln, size, bt)
            else:
                ln = rng.randint(0, min(255, 4096 // nb - 1) if bt == INCR else 15)
                room = 4096 - (ln + 1) * nb
                yield (page() + (rng.randint(0, room) // nb) * nb + rng.randrange(nb), ln, size, bt)
        elif ca.kind == "up":
            ratio = 1 << (ca.st - ca.sf)
            nb = 1 << ca.sf
            if mode == 3 and ratio <= 8:
                beats = rng.choice([b for b in (2, 4, 8, 16) if b % ratio == 0 and b // ratio >= 2] or [0])
                if not beats:
                    continue
                win = beats * nb
                base = (rng.randrange(4096 // win)) * win
                yield (page() + base + rng.randrange(win >> ca.st) * (1 << ca.st), beats - 1, ca.sf, WRAP)
                continue
            beats = ratio * rng.randint(1, 256 // ratio)
            room = 4096 - beats * nb
            if room < 0:
                continue
            off = (rng.randint(0, room) >> ca.st) << ca.st
            yield (page() + off, beats - 1, ca.sf, INCR)
        else:
            ratio = 1 << (ca.sf - ca.st)
            nb = 1 << ca.sf
            if mode == 2:
                size = rng.randint(ca.st, ca.sf)    # single transfer, every size from the narrow to the wide bus width
                yield (page() + rng.randrange(4096), 0, size, rng.choice((INCR, INCR, FIXED)))
                continue
            if mode == 3:
                cands = [b for b in (2, 4, 8, 16) if b * ratio <= 16]
                if cands:
                    beats = rng.choice(cands)
                    win = beats * nb
                    base = rng.randrange(4096 // win) * win
                    yield (page() + base + rng.randrange(beats) * nb, beats - 1, ca.sf, WRAP)
                    continue
            ln = rng.randint(0, min(256 // ratio, 4096 // nb) - 1)
            room = 4096 - (ln + 1) * nb
            off = (rng.randint(0, room) >> ca.sf) << ca.sf
            yield (page() + off + (rng.randrange(nb) if rng.random() < 0.3 else 0), ln, ca.sf, INCR)


def conv_requests(rng, aw, sf, st, quick):
    """Request grid for the arithmetic differential: all (len, size, burst) with two addresses each in the
    thorough tier; in the quick tier all sizes/bursts with a structured sample of lengths."""
    wide = max(sf, st)
    if quick:
        lens = sorted(set(list(range(0, 20)) + [31, 32, 63, 64, 126, 127, 128, 129, 254, 255] +
                          [rng.randrange(256) for _ in range(12)]))
    else:
        lens = range(256)
    for bt in (FIXED, INCR, WRAP, RESERVED):
        for size in range(8):
            for ln in lens:
                base = rng.randrange(1 << (aw - 12)) << 12
                yield (base + (rng.randrange(4096 >> wide) << wide), ln, size, bt)     # wide-aligned
                yield (base + rng.randrange(4096), ln, size, bt)                       # arbitrary


# ---------------------------------------------------------------------------------------------------------
# Converter data channels (W and R paths) as one-sink/one-source lane machines


class LanePathInst:
    """One data channel of a real AXIUpConverter/AXIDownConverter.

    direction 'up'   (narrow sink -> wide source): letter (valid, lane, first, last, ready)
              outputs [sink.ready, source.valid, source.first, source.last, lane0..]
    direction 'down' (wide sink -> narrow source): letter (valid, first, last, ready, lane0..)
              outputs [sink.ready, source.valid, lane, source.first, source.last]
    A lane value packs (data | strb << dw) of one narrow word for the W channel, data only for R."""
    FMT = "up: valid, lane, first, last, ready | down: valid, first, last, ready, lane0.."

    def __init__(self, name, conv, channel, dw_from, dw_to, lane_values=None, aw=32, via="direct"):
        self.name = name
        self.axi_from, self.axi_to, self.module = build_converter(conv, dw_from, dw_to, aw, None, via)
        self.netlist = Netlist(self.module)
        self.channel = channel
        self.ratio = max(dw_from, dw_to) // min(dw_from, dw_to)
        self.nw = min(dw_from, dw_to)             # narrow data width
        if channel == "w":
            self.sink, self.source = self.axi_from.w, self.axi_to.w
            self.direction = "up" if conv == "up" else "down"
        else:
            self.sink, self.source = self.axi_to.r, self.axi_from.r
            self.direction = "down" if conv == "up" else "up"
        self.has_strb = channel == "w"
        self.lane_bits = self.nw + (self.nw // 8 if self.has_strb else 0)
        self.lean_open = ("wup %d" if self.direction == "up" else "wdown %d") % self.ratio
        self.lane_values = lane_values or [0, (1 << self.lane_bits) - 1]
        if self.direction == "up":
            self.qual = [None, None, 1, 1] + [1] * self.ratio
        else:
            self.qual = [None, None, 1, 1, 1]
        self.alphabet = self._alphabet()

    def _alphabet(self):
        import itertools
        L = []
        if self.direction == "up":
            for v in (0, 1):
                for r in (0, 1):
                    for d in self.lane_values:
                        for f, l in ((0, 0), (1, 0), (0, 1), (1, 1)):
                            L.append((v, d, f, l, r))
        else:
            for v in (0, 1):
                for r in (0, 1):
                    for lanes in itertools.product(self.lane_values, repeat=self.ratio):
                        for f, l in ((0, 0), (1, 1), (0, 1)):
                            L.append((v, f, l, r) + lanes)
        return L

    def _split(self, lane):
        return lane & ((1 << self.nw) - 1), lane >> self.nw

    def apply(self, letter):
        n = self.netlist
        nw, nsw = self.nw, self.nw // 8
        if self.direction == "up":
            v, d, f, l, r = letter
            data, strb = self._split(d)
        else:
            v, f, l, r = letter[:4]
            data = strb = 0
            for i, lane in enumerate(letter[4:]):
                dd, ss = self._split(lane)
                data |= dd << (i * nw)
                strb |= ss << (i * nsw)
        n.set(self.sink.valid, v)
        n.set(self.sink.data, data)
        if self.has_strb:
            n.set(self.sink.strb, strb)
        n.set(self.sink.first, f)
        n.set(self.sink.last, l)
        n.set(self.source.ready, r)
        n.settle()

    def sample(self):
        n = self.netlist
        nw, nsw = self.nw, self.nw // 8
        data = n.getu(self.source.data)
        strb = n.getu(self.source.strb) if self.has_strb else 0
        head = [n.getu(self.sink.ready), n.getu(self.source.valid)]
        f, l = n.getu(self.source.first), n.getu(self.source.last)
        if self.direction == "up":
            lanes = [((data >> (i * nw)) & ((1 << nw) - 1)) | (((strb >> (i * nsw)) & ((1 << nsw) - 1)) << nw)
                     for i in range(self.ratio)]
            return head + [f, l] + lanes
        return head + [(data & ((1 << nw) - 1)) | ((strb & ((1 << nsw) - 1)) << nw), f, l]

    def nontrivial(self, letter, outs):
        r = letter[4] if self.direction == "up" else letter[3]
        return bool((letter[0] and outs[0]) or (outs[1] and r))

    def gen(self, rng, t):
        regime = (t // 64) % 5
        pv = (0.5, 0.9, 0.1, 1.0, 0.5)[regime]
        pr = (0.5, 0.1, 0.9, 1.0, 0.2)[regime]
        v = 1 if rng.random() < pv else 0
        r = 1 if rng.random() < pr else 0
        f = 1 if rng.random() < 0.2 else 0
        l = 1 if rng.random() < 0.25 else 0
        m = (1 << self.lane_bits) - 1
        if self.direction == "up":
            return (v, rng.randint(0, m), f, l, r)
        return (v, f, l, r) + tuple(rng.randint(0, m) for _ in range(self.ratio))

    def monitor(self):
        return LaneScoreboard(self.direction, self.ratio)


class LaneScoreboard:
    """Property oracle of a converter data channel: every accepted beat is delivered exactly once, lanes in
    ascending order, `last` on (and only on) the final beat of a burst.
    down: a wide beat yields `ratio` narrow beats (lane 0 first), last only on the final lane of a last beat;
    up  : narrow beats are grouped `ratio` at a time (a `last` beat closes the group early); the group's lanes
          0..n-1 carry the beats in order (lanes beyond n are unspecified) and last is the closing beat's last."""

    def __init__(self, direction, ratio):
        self.direction = direction
        self.ratio = ratio
        self.exp = []        # expected source beats, in order
        self.group = []

    def observe(self, letter, outs):
        ratio = self.ratio
        if self.direction == "up":
            v, d, f, l, r = letter
            sready, ovalid, of, ol = outs[:4]
            lanes = outs[4:]
            msg = None
            # a wide beat that was offered and stalled must be offered again unchanged
            prev = getattr(self, "prev", None)
            self.prev = (of, ol, list(lanes)) if (ovalid and not r) else None
            if prev is not None and (not ovalid or prev != (of, ol, list(lanes))):
                return "stalled wide beat %r changed to (valid=%d) %r" % (prev, ovalid, (of, ol, list(lanes)))
            if ovalid and r:
                # delivery first: a group completed in this very cycle cannot be delivered now (1 cycle latency)
                if not self.exp:
                    msg = "wide beat delivered although no complete group was accepted"
                else:
                    g, l0 = self.exp.pop(0)
                    if lanes[:len(g)] != g:
                        msg = "wide beat lanes %r, accepted group %r" % (lanes, g)
                    elif ol != l0:
                        msg = "wide beat last=%d, closing narrow beat last=%d" % (ol, l0)
            if v and sready:
                self.group.append(d)
                if l or len(self.group) == ratio:
                    self.exp.append((list(self.group), l))
                    self.group = []
            if msg is None and len(self.exp) > 1:
                msg = "more than one complete group in flight"
            return msg
        v, f, l, r = letter[:4]
        lanes = list(letter[4:])
        sready, ovalid, od, of, ol = outs
        msg = None
        if not hasattr(self, "pos"):
            self.pos = 0
        if ovalid and r:
            if not v:
                return "narrow beat delivered without a wide beat on the sink"
            if od != lanes[self.pos]:
                msg = "narrow beat %d carries 0x%x, lane holds 0x%x" % (self.pos, od, lanes[self.pos])
            elif ol != int(bool(l) and self.pos == ratio - 1):
                msg = "narrow beat %d of %d: last=%d (wide last=%d)" % (self.pos, ratio, ol, l)
            self.pos += 1
        if v and sready:
            if self.pos != ratio:
                msg = msg or "wide beat consumed after %d of %d narrow beats" % (self.pos, ratio)
            self.pos = 0
        elif self.pos >= ratio:
            msg = msg or "all lanes delivered but the wide beat was not consumed"
        return msg


class SideInst(LanePathInst):
    """A converter data channel together with its side-band ports (resp/id/user/dest), see
    lean/LitexModel/Axi/WidthConvSide.lean.  Letters/outputs are those of LanePathInst with the four side-band values
    inserted: up  : letter (valid, lane, first, last, ready, resp, id, user, dest)
                    outputs [sink.ready, source.valid, first, last, resp, id, user, dest, lane0..]
              down: letter (valid, first, last, ready, resp, id, user, dest, lane0..)
                    outputs [sink.ready, source.valid, lane, first, last, resp, id, user, dest]
    (resp is not a port of the W channel: driven/read as 0)."""
    SB = ("resp", "id", "user", "dest")

    def __init__(self, name, conv, channel, dw_from, dw_to, lane_values=None, aw=32, via="direct", sb_values=None):
        LanePathInst.__init__(self, name, conv, channel, dw_from, dw_to, lane_values, aw, via)
        self.conv = conv
        self.sb_sigs_in = [getattr(self.sink, k) if (k != "resp" or channel == "r") else None for k in self.SB]
        self.sb_sigs_out = [getattr(self.source, k) if (k != "resp" or channel == "r") else None for k in self.SB]
        self.sb_w = [len(x) if x is not None else 0 for x in self.sb_sigs_in]
        if self.direction == "up":
            self.lean_open = ("sidereg %d" if conv == "down" else "sidecombup %d") % self.ratio
            self.qual = [None, None, 1, 1, 1, 1, 1, 1] + [1] * self.ratio
        else:
            self.lean_open = "sidecombdown %d" % self.ratio
            self.qual = [None, None, 1, 1, 1, 1, 1, 1, 1]
        # mode A alphabet: the side-band takes two values differing in every field that exists
        self.sb_values = sb_values or [tuple(0 for _ in self.sb_w), tuple((1 << w) - 1 if w else 0 for w in self.sb_w)]
        base = self.alphabet
        if self.direction == "up":
            self.alphabet = [l + sb for l in base for sb in self.sb_values]
        else:
            self.alphabet = [l[:4] + sb + l[4:] for l in base for sb in self.sb_values]

    def _sb_of(self, letter):
        return letter[5:9] if self.direction == "up" else letter[4:8]

    def apply(self, letter):
        n = self.netlist
        sb = self._sb_of(letter)
        for sig, v in zip(self.sb_sigs_in, sb):
            if sig is not None:
                n.set(sig, v)
        LanePathInst.apply(self, letter[:5] if self.direction == "up" else letter[:4] + letter[8:])

    def sample(self):
        n = self.netlist
        o = LanePathInst.sample(self)
        sb = [n.getu(sig) if sig is not None else 0 for sig in self.sb_sigs_out]
        if self.direction == "up":
            return o[:4] + sb + o[4:]
        return o + sb

    def gen(self, rng, t):
        l = LanePathInst.gen(self, rng, t)
        # side-band values change slowly on some stretches (bursts with one id) and every cycle on others
        if (t // 48) % 2 == 0 and getattr(self, "_sbprev", None) is not None and rng.random() < 0.8:
            sb = self._sbprev
        else:
            sb = tuple(rng.getrandbits(w) if w else 0 for w in self.sb_w)
        self._sbprev = sb
        return (l + sb) if self.direction == "up" else (l[:4] + sb + l[4:])

    def monitor(self):
        return SideScoreboard(self)


class SideScoreboard:
    """Data-path scoreboard (LaneScoreboard) plus the side-band rules that do not depend on the model:
    combinational paths of a wide->narrow converter: every offered narrow beat carries the side-band of the wide beat
    on the sink; registered path (AXIDownConverter R): a wide beat handed over in the FIRST cycle it is offered
    carries the side-band of the narrow beat that completed it (the cycle before)."""

    def __init__(self, inst):
        self.inst = inst
        self.lane = LaneScoreboard(inst.direction, inst.ratio)
        self.prev_close = None      # side-band of the closing narrow beat accepted in the previous cycle
        self.prev_valid = False
        self.count = 0

    def observe(self, letter, outs):
        inst = self.inst
        if inst.direction == "up":
            m = self.lane.observe(letter[:5], outs[:4] + outs[8:])
            v, d, f, l, r = letter[:5]
            sb_in = list(letter[5:9])
            sready, ovalid = outs[0], outs[1]
            sb_out = list(outs[4:8])
            if m is None and inst.conv == "down" and ovalid and not self.prev_valid and self.prev_close is not None \
                    and sb_out != self.prev_close:
                m = "wide beat offered with resp/id/user/dest %r, the narrow beat that completed it carried %r" % (
                    sb_out, self.prev_close)
            self.prev_valid = bool(ovalid and not r)
            self.prev_close = None
            if v and sready:
                self.count += 1
                if l or self.count == inst.ratio:
                    self.prev_close = sb_in
                    self.count = 0
            return m
        m = self.lane.observe(letter[:4] + letter[8:], outs[:5])
        if m is None and outs[1] and list(outs[5:9]) != list(letter[4:8]):
            m = "narrow beat offered with resp/id/user/dest %r, the wide beat carries %r" % (list(outs[5:9]), list(letter[4:8]))
        return m


# ---------------------------------------------------------------------------------------------------------
# End-to-end byte oracle across a real converter (address channel + data channel together; model independent)


class ConvE2E:
    """Drives whole write and read bursts from the sub-domains of `ConvArith.supported` through a real
    AXIUp/DownConverter with random stalls and compares, byte by byte, what the master issued with what appears on
    the other side: write: the ordered list of (byte address, value) with strobe set; read: the value the master
    receives for every byte address against the value the slave returned for it; plus beat counts and `last` on the
    final beat.  Byte addresses of the beats follow the A3.4.1 oracle on both sides.  Bursts run back to back on
    the same netlist state (no reset in between) so that state left behind by one burst meets the next."""

    def __init__(self, kind, dw_from, dw_to, aw=32, via="direct"):
        self.p = LanePathInst("e2e", kind, "w", dw_from, dw_to, aw=aw, via=via)
        self.kind, self.dw_from, self.dw_to, self.aw, self.via = kind, dw_from, dw_to, aw, via
        self.name = conv_name(kind, dw_from, dw_to, None, via) + "/end-to-end"
        self.ca_sf = log2i(dw_from // 8)
        self.ca_st = log2i(dw_to // 8)
        self.n = self.p.netlist
        self.root = self.n.snapshot()
        self.fresh = True

    def supported_request(self, rng):
        class _C:
            pass
        c = _C()
        c.kind, c.sf, c.st, c.aw = self.kind, self.ca_sf, self.ca_st, self.aw
        while True:
            for r in conv_supported_requests(rng, c, 4):
                a, ln, size, bt = r
                if ln < 48 and rng.random() < 0.5:
                    return (a, ln, size, bt)

    def _garbage(self, ch, rng):
        n = self.n
        n.set(ch.valid, 0)
        n.set(ch.addr, rng.getrandbits(self.aw)); n.set(ch.len, rng.getrandbits(8))
        n.set(ch.size, rng.getrandbits(3)); n.set(ch.burst, rng.getrandbits(2))

    def legal_strb(self, req, k, strb):
        """Strobes a master may raise on beat k: only the byte lanes of that transfer."""
        a, ln, size, bt = req
        m = 0
        for b in beat_bytes(a, ln, size, bt, k):
            m |= 1 << (b % (self.dw_from // 8))
        return strb & m

    @staticmethod
    def bytes_of_beats(req, beats, dw, with_strb):
        """[(byte address, value)] for the beats of a burst on a dw-bit bus (lane = address mod bus bytes)."""
        a, ln, size, bt = req
        nbus = dw // 8
        out = []
        for k, (data, strb) in enumerate(beats):
            for b in beat_bytes(a, ln, size, bt, k) if k <= ln else []:
                lane = b % nbus
                if (not with_strb) or (strb >> lane) & 1:
                    out.append((b, (data >> (8 * lane)) & 0xff))
        return out

    def run_write(self, req, wbeats, seed):
        import random
        rng = random.Random(seed)
        n, f, t = self.n, self.p.axi_from, self.p.axi_to
        if self.fresh:
            n.restore(self.root)
        a, ln, size, bt = req
        aw_sent = False
        i = 0
        got_aw = None
        got_w = []
        idle = 0
        for cyc in range(40 * (len(wbeats) + 4) * max(1, self.dw_from // self.dw_to)):
            wv = int(i < len(wbeats) and rng.random() < 0.8)
            n.set(f.aw.valid, int(not aw_sent)); n.set(f.aw.addr, a); n.set(f.aw.len, ln); n.set(f.aw.size, size)
            n.set(f.aw.burst, bt)
            if aw_sent:                                   # idle AW after its handshake: garbage on the payload lines
                self._garbage(f.aw, rng)
            self._garbage(f.ar, rng)                      # the read address channel is idle throughout: garbage
            n.set(f.w.valid, wv)
            if i < len(wbeats):
                n.set(f.w.data, wbeats[i][0]); n.set(f.w.strb, wbeats[i][1]); n.set(f.w.last, int(i == len(wbeats) - 1))
            drain = aw_sent and i >= len(wbeats)
            n.set(t.aw.ready, int(drain or rng.random() < 0.6)); n.set(t.w.ready, int(drain or rng.random() < 0.6))
            n.settle()
            if n.getu(t.aw.valid) and n.getu(t.aw.ready) and got_aw is None:
                got_aw = (n.getu(t.aw.addr), n.getu(t.aw.len), n.getu(t.aw.size), n.getu(t.aw.burst))
            if (not aw_sent) and n.getu(f.aw.ready):
                aw_sent = True
            if n.getu(t.w.valid) and n.getu(t.w.ready):
                got_w.append((n.getu(t.w.data), n.getu(t.w.strb), n.getu(t.w.last)))
            if wv and n.getu(f.w.ready):
                i += 1
            n.tick()
            if aw_sent and i >= len(wbeats):
                idle += 1
                if idle > 12:
                    break
        self._last = ("write", req, list(wbeats), got_aw, [(d, st) for (d, st, _) in got_w])
        if got_aw is None:
            return "write burst %r: AW never forwarded" % (req,)
        want = self.bytes_of_beats(req, wbeats, self.dw_from, True)
        if len(got_w) != got_aw[1] + 1:
            return "write burst %r forwarded as AW%r with %d W beats" % (req, got_aw, len(got_w))
        if [l for (_, _, l) in got_w] != [0] * (len(got_w) - 1) + [1]:
            return "write burst %r: W last flags %r" % (req, [l for (_, _, l) in got_w])
        have = self.bytes_of_beats(got_aw, [(d, s) for (d, s, _) in got_w], self.dw_to, True)
        if have != want:
            k = next((j for j in range(min(len(have), len(want))) if have[j] != want[j]), min(len(have), len(want)))
            return "write burst %r forwarded as AW%r: byte stream differs at position %d (%r vs %r; %d vs %d bytes)" % (
                req, got_aw, k, have[k] if k < len(have) else None, want[k] if k < len(want) else None, len(have), len(want))
        return None

    def run_read(self, req, seed):
        import random
        rng = random.Random(seed)
        n, f, t = self.n, self.p.axi_from, self.p.axi_to
        if self.fresh:
            n.restore(self.root)
        a, ln, size, bt = req
        ar_sent = False
        got_ar = None
        sl_beats = []      # beats the slave returns on the to-side
        ms_beats = []      # beats the master receives
        sl_next = None
        idle = 0
        for cyc in range(60 * (ln + 4) * max(1, self.dw_from // self.dw_to)):
            n.set(f.ar.valid, int(not ar_sent)); n.set(f.ar.addr, a); n.set(f.ar.len, ln); n.set(f.ar.size, size)
            n.set(f.ar.burst, bt)
            if ar_sent:
                self._garbage(f.ar, rng)
            self._garbage(f.aw, rng)                      # idle write channels: garbage with valid = 0
            n.set(f.w.valid, 0); n.set(f.w.data, rng.getrandbits(self.dw_from)); n.set(f.w.strb, rng.getrandbits(self.dw_from // 8))
            n.set(t.ar.ready, int(rng.random() < 0.6))
            rv = int(got_ar is not None and len(sl_beats) <= got_ar[1] and rng.random() < 0.7)
            if rv and sl_next is None:
                sl_next = rng.getrandbits(self.dw_to)
            n.set(t.r.valid, rv)
            if rv:
                n.set(t.r.data, sl_next); n.set(t.r.last, int(len(sl_beats) == got_ar[1]))
            drain = got_ar is not None and len(sl_beats) > got_ar[1]
            n.set(f.r.ready, int(drain or rng.random() < 0.6))
            n.settle()
            if n.getu(t.ar.valid) and n.getu(t.ar.ready) and got_ar is None:
                got_ar = (n.getu(t.ar.addr), n.getu(t.ar.len), n.getu(t.ar.size), n.getu(t.ar.burst))
            if (not ar_sent) and n.getu(f.ar.ready):
                ar_sent = True
            if rv and n.getu(t.r.ready):
                sl_beats.append((sl_next, 0))
                sl_next = None
            if n.getu(f.r.valid) and n.getu(f.r.ready):
                ms_beats.append((n.getu(f.r.data), n.getu(f.r.last)))
            n.tick()
            if got_ar is not None and len(sl_beats) > got_ar[1]:
                idle += 1
                if idle > 12:
                    break
        self._last = ("read", req, [(d, (1 << (self.dw_from // 8)) - 1) for (d, _) in ms_beats], got_ar,
                      [(d, (1 << (self.dw_to // 8)) - 1) for (d, _) in sl_beats])
        if got_ar is None:
            return "read burst %r: AR never forwarded" % (req,)
        if len(ms_beats) != ln + 1:
            return "read burst %r forwarded as AR%r: master received %d beats" % (req, got_ar, len(ms_beats))
        if [l for (_, l) in ms_beats] != [0] * ln + [1]:
            return "read burst %r: R last flags %r" % (req, [l for (_, l) in ms_beats])
        want = dict(self.bytes_of_beats(got_ar, sl_beats, self.dw_to, False))
        have = self.bytes_of_beats(req, [(d, 0) for (d, _) in ms_beats], self.dw_from, False)
        for (b, v) in have:
            if want.get(b) != v:
                return "read burst %r forwarded as AR%r: byte 0x%x read as 0x%02x, slave returned %s" % (
                    req, got_ar, b, v, "0x%02x" % want[b] if b in want else "nothing for it")
        return None

    @staticmethod
    def _lanes(beats, dw):
        """flat lane codes (2*byte + strobe) of a list of (data, strb) beats on a dw-bit bus"""
        out = []
        for (d, st) in beats:
            for i in range(dw // 8):
                out.append(2 * ((d >> (8 * i)) & 0xff) + ((st >> i) & 1))
        return out

    def lean_tie(self, lean):
        """The burst just run against the Lean byte-level model (LitexModel/Axi/WidthConvMem.lean):
        burstWrites on both sides vs the Python byte oracle, and upWords/downWords (the transaction-level data path the
        end-to-end theorems are about) vs the beats the real converter produced.  Returns a disagreement dict or None."""
        what, req, fbeats, got_ax, tbeats = self._last
        nbf, nbt = self.dw_from // 8, self.dw_to // 8
        fl, tl = self._lanes(fbeats, self.dw_from), self._lanes(tbeats, self.dw_to)
        ratio = max(nbf, nbt) // min(nbf, nbt)
        lines = ["writes %d %d %d %d %d %s" % ((nbf,) + tuple(req) + (" ".join(map(str, fl)),)),
                 "writes %d %d %d %d %d %s" % ((nbt,) + tuple(got_ax) + (" ".join(map(str, tl)),))]
        exp = [self.bytes_of_beats(req, fbeats, self.dw_from, True), self.bytes_of_beats(got_ax, tbeats, self.dw_to, True)]
        # data path: write = from -> to, read = to -> from
        src, dst, nsrc, ndst = (fl, tl, nbf, nbt) if what == "write" else (tl, fl, nbt, nbf)
        if nsrc < ndst:
            lines.append("upwords %d %d %s" % (ratio, nsrc, " ".join(map(str, src))))
        else:
            lines.append("downwords %d %d %s" % (ndst, ratio, " ".join(map(str, src))))
        ans = lean.call_batch(lines)
        for k in (0, 1):
            got = [int(x) for x in ans[k].split()]
            want = [x for pair in exp[k] for x in pair]
            if got != want:
                return {"instance": self.name, "kind": "e2e-model", "what": "burstWrites (Lean) vs byte oracle (Python), side %d" % k,
                        "request": list(req if k == 0 else got_ax), "lean": got[:40], "python": want[:40]}
        words, toks, i = [], [int(x) for x in ans[2].split()], 0
        while i < len(toks):
            words += toks[i + 1:i + 1 + toks[i]]
            i += 1 + toks[i]
        if words != dst:
            k = next((j for j in range(min(len(words), len(dst))) if words[j] != dst[j]), min(len(words), len(dst)))
            return {"instance": self.name, "kind": "e2e-model", "what": "%s data path: upWords/downWords (Lean) vs the beats of the real converter" % what,
                    "request": list(req), "first_difference_lane": k, "lean_lanes": len(words), "impl_lanes": len(dst)}
        return None

    def run_history(self, history):
        """Replay a list of bursts back to back from reset; returns the first monitor message or None."""
        self.n.restore(self.root)
        self.fresh = False
        try:
            for h in history:
                if h["e2e"] == "write":
                    m = self.run_write(tuple(h["request"]), [tuple(x) for x in h["wbeats"]], h["stall_seed"])
                else:
                    m = self.run_read(tuple(h["request"]), h["stall_seed"])
                if m:
                    return m
        finally:
            self.fresh = True
        return None

    def run(self, cov, seed, tier, lean=None):
        import random
        rng = random.Random(seed * 977 + self.dw_from + 3 * self.dw_to)
        nb = 16 if tier == "quick" else 160
        dis = []
        beats = 0
        history = []
        self.n.restore(self.root)
        self.fresh = False
        for k in range(nb):
            if k % 8 == 0:
                self.n.restore(self.root)
                history = []
            req = self.supported_request(rng)
            cov.count("end-to-end domain " + str(ConvArith.supported(self, req)))
            full = (1 << (self.dw_from // 8)) - 1
            wbeats = [(rng.getrandbits(self.dw_from),
                       self.legal_strb(req, b, rng.choice((rng.getrandbits(self.dw_from // 8), full))))
                      for b in range(req[1] + 1)]
            for what in ("write", "read"):
                sd = rng.getrandbits(30)
                h = {"e2e": what, "request": list(req), "stall_seed": sd}
                if what == "write":
                    h["wbeats"] = [list(b) for b in wbeats]
                    m = self.run_write(req, wbeats, sd)
                else:
                    m = self.run_read(req, sd)
                history.append(h)
                if not m and lean is not None:
                    d = self.lean_tie(lean)
                    cov.count("end-to-end bursts compared with the Lean byte-level model")
                    if d:
                        d.update(h)
                        dis.append(d)
                        break
                if m:
                    # prefer the burst alone from reset as the witness; else the whole back-to-back sequence
                    alone = self.run_history([h])
                    d = dict(h)
                    d.update({"instance": self.name, "kind": "monitor:" + (alone or m), "monitor": alone or m})
                    if not alone:
                        d["history"] = history
                    dis.append(d)
                    break
            if dis:
                break
            beats += 2 * (req[1] + 1)
        self.fresh = True
        cov.add_cases(self.name, 2 * nb, 2 * nb, exhaustive=False)
        cov.instances[-1]["mode"] = "E (monitor only)"
        cov.count("end-to-end bursts (write+read)", 2 * nb)
        cov.count("end-to-end beats", beats)
        return dis

    # ConvArith.supported reads these
    @property
    def sf(self):
        return self.ca_sf

    @property
    def st(self):
        return self.ca_st


# ---------------------------------------------------------------------------------------------------------
# AXIBurst2Beat inside its in-tree users (AXI2AXILite, AXI2Wishbone): capability set + bursts into a real SRAM


def spy_b2b_caps(build):
    """Run `build()` while recording the `capabilities` every AXIBurst2Beat instantiated by the user module receives
    (the constructor default when the user passes none).  Returns (result of build, [frozenset of burst codes])."""
    import inspect
    import litex.soc.interconnect.axi.axi_full as af
    import litex.soc.interconnect.axi.axi_full_to_axi_lite as afl
    orig = af.AXIBurst2Beat
    default = inspect.signature(orig.__init__).parameters["capabilities"].default
    seen = []

    class Spy(orig):
        def __init__(self, ax_burst, ax_beat, *a, **kw):
            caps = a[0] if a else kw.get("capabilities", default)
            seen.append(frozenset(caps))
            orig.__init__(self, ax_burst, ax_beat, *a, **kw)
    mods = [m for m in (af, afl) if getattr(m, "AXIBurst2Beat", None) is orig]
    for m in mods:
        m.AXIBurst2Beat = Spy
    try:
        res = build()
    finally:
        for m in mods:
            m.AXIBurst2Beat = orig
    return res, seen


class B2BUserE2E:
    """A real user of AXIBurst2Beat in front of a real SRAM: `axi2axilite` = AXI2AXILite + AXILiteSRAM,
    `axi2wishbone` = AXI2Wishbone + wishbone.SRAM.  FIXED / INCR / WRAP write and read bursts of all legal lengths
    and sizes are driven through it; model-independent checks: every beat's address on the narrow side (AXI-Lite
    aw/ar handshakes, Wishbone acks) names the container A3.4.1 prescribes, beat count, and the data read back
    (same burst type, then an INCR sweep of the touched window) equals a reference byte memory updated with the
    A3.4.1 byte oracle.  The capability set the user passes to AXIBurst2Beat is read at elaboration time and
    compared with the Lean `userCaps` (the set `user_b2b_beats` is stated for)."""
    SIZE = 4096

    def __init__(self, user, dw=32):
        from migen import Module
        from litex.soc.interconnect import wishbone
        from litex.soc.interconnect.axi import (AXIInterface, AXILiteInterface, AXI2AXILite, AXI2Wishbone, AXILiteSRAM)
        self.user, self.dw, self.aw = user, dw, 16
        self.name = "%s(dw=%d)+SRAM/burst-types" % ({"axi2axilite": "AXI2AXILite", "axi2wishbone": "AXI2Wishbone"}[user], dw)
        self.nb = dw // 8
        nw = self.SIZE // self.nb
        self.init = [sum((((7 * (w * self.nb + i) + 3) & 0xff) << (8 * i)) for i in range(self.nb)) for w in range(nw)]

        def build():
            m = Module()
            self.axi = AXIInterface(data_width=dw, address_width=self.aw, id_width=2)
            if user == "axi2axilite":
                self.lite = AXILiteInterface(data_width=dw, address_width=self.aw)
                m.submodules.bridge = AXI2AXILite(self.axi, self.lite)
                m.submodules.ram = AXILiteSRAM(self.SIZE, init=self.init, bus=self.lite)
            else:
                self.wb = wishbone.Interface(data_width=dw, address_width=self.aw, addressing="word")
                m.submodules.bridge = AXI2Wishbone(self.axi, self.wb)
                m.submodules.ram = wishbone.SRAM(self.SIZE, init=self.init, bus=self.wb)
            return m
        self.module, self.caps_seen = spy_b2b_caps(build)
        self.n = Netlist(self.module)
        self.ref = {}
        for w, val in enumerate(self.init):
            for i in range(self.nb):
                self.ref[w * self.nb + i] = (val >> (8 * i)) & 0xff

    # -- narrow-side beat observation -------------------------------------------------------------------------
    def _narrow_beat(self, write):
        """word index addressed on the narrow side in this cycle, or None"""
        n = self.n
        if self.user == "axi2axilite":
            ch = self.lite.aw if write else self.lite.ar
            if n.getu(ch.valid) and n.getu(ch.ready):
                return n.getu(ch.addr) // self.nb
            return None
        if n.getu(self.wb.cyc) and n.getu(self.wb.stb) and n.getu(self.wb.ack) and bool(n.getu(self.wb.we)) == write:
            return n.getu(self.wb.adr)
        return None

    def run_burst(self, write, req, wbeats, seed):
        """-> (message or None).  wbeats: [(data, strb)] for writes."""
        import random
        rng = random.Random(seed)
        n, axi = self.n, self.axi
        a, ln, size, bt = req
        ax = axi.aw if write else axi.ar
        other = axi.ar if write else axi.aw
        sent = False
        i = 0
        narrow = []
        rbeats = []
        done = False
        for cyc in range(60 * (ln + 4)):
            n.set(other.valid, 0)
            n.set(ax.valid, int(not sent)); n.set(ax.addr, a); n.set(ax.len, ln); n.set(ax.size, size); n.set(ax.burst, bt)
            n.set(ax.id, 1)
            wv = int(write and sent and i <= ln and (self.user == "axi2wishbone" or rng.random() < 0.8))
            n.set(axi.w.valid, wv)
            if write and i <= ln:
                n.set(axi.w.data, wbeats[i][0]); n.set(axi.w.strb, wbeats[i][1]); n.set(axi.w.last, int(i == ln))
            n.set(axi.b.ready, 1)
            n.set(axi.r.ready, int(rng.random() < 0.7))
            n.settle()
            nb_ = self._narrow_beat(write)
            if nb_ is not None:
                narrow.append(nb_)
            if (not sent) and n.getu(ax.ready):
                sent = True
            elif wv and n.getu(axi.w.ready):
                i += 1
            if (not write) and n.getu(axi.r.valid) and n.getu(axi.r.ready):
                rbeats.append((n.getu(axi.r.data), n.getu(axi.r.last)))
                if len(rbeats) == ln + 1:
                    done = True
            if write and n.getu(axi.b.valid):
                done = True
            n.tick()
            if done:
                break
        for _ in range(3):
            n.set(ax.valid, 0); n.set(axi.w.valid, 0); n.settle(); n.tick()
        kind = "write" if write else "read"
        if not done:
            return "%s burst %r: not completed (%d narrow beats, %d R beats)" % (kind, req, len(narrow), len(rbeats))
        want = [spec_addr(a, ln, size, bt, k) // self.nb for k in range(ln + 1)]
        if narrow != want:
            k = next((j for j in range(min(len(narrow), len(want))) if narrow[j] != want[j]), min(len(narrow), len(want)))
            return "%s burst (addr=0x%x len=%d size=%d burst=%d): narrow-side beat %d addresses word 0x%x, A3.4.1 prescribes " \
                   "word 0x%x (%d beats, %d expected)" % (kind, a, ln, size, bt, k, narrow[k] if k < len(narrow) else -1,
                                                          want[k] if k < len(want) else -1, len(narrow), len(want))
        if write:
            for k, (data, strb) in enumerate(wbeats):
                for b in beat_bytes(a, ln, size, bt, k):
                    if (strb >> (b % self.nb)) & 1:
                        self.ref[b] = (data >> (8 * (b % self.nb))) & 0xff
            return None
        if [l for (_, l) in rbeats] != [0] * ln + [1]:
            return "read burst %r: R last flags %r" % (req, [l for (_, l) in rbeats])
        for k, (data, _) in enumerate(rbeats):
            for b in beat_bytes(a, ln, size, bt, k):
                v = (data >> (8 * (b % self.nb))) & 0xff
                if v != self.ref[b]:
                    return "read burst (addr=0x%x len=%d size=%d burst=%d): beat %d byte 0x%x read as 0x%02x, reference memory " \
                           "holds 0x%02x" % (a, ln, size, bt, k, b, v, self.ref[b])
        return None

    def requests(self, rng, tier):
        smax = log2i(self.nb)
        R = []
        for size in range(smax + 1):
            nbytes = 1 << size
            for ln in (1, 3, 7, 15):
                win = (ln + 1) * nbytes
                base = rng.randrange(self.SIZE // win) * win
                R.append((base + rng.randrange(ln + 1) * nbytes, ln, size, WRAP))
            for ln in ((0, 1, 2, 5, 15) if tier == "quick" else (0, 1, 2, 3, 4, 7, 8, 15, 16, 31)):
                room = self.SIZE - (ln + 1) * nbytes
                R.append(((rng.randint(0, room) // nbytes) * nbytes + rng.randrange(nbytes), ln, size, INCR))
            for ln in (0, 1, 3):
                R.append((rng.randrange(self.SIZE), ln, size, FIXED))
        return R

    def run_history(self, history):
        self.__init__(self.user, self.dw)
        for h in history:
            m = self.run_burst(h["b2buser"] == "write", tuple(h["request"]), [tuple(x) for x in h.get("wbeats", [])], h["stall_seed"])
            if m:
                return m
        return None

    def run(self, cov, seed, tier, lean=None):
        import random
        rng = random.Random(seed * 733 + self.dw)
        dis = []
        # capability set of the real user vs the set the Lean corollary is stated for
        if lean is not None:
            ans = lean.call_batch(["b2bcaps %s" % self.user])[0].split()
            model = frozenset([FIXED] + ([INCR] if ans[0] == "1" else []) + ([WRAP] if ans[1] == "1" else []))
            if self.caps_seen != [model]:
                dis.append({"instance": self.name, "kind": "b2b-caps", "impl": [sorted(c) for c in self.caps_seen],
                            "model": sorted(model)})
        cov.count("AXIBurst2Beat users: capability sets compared with userCaps")
        history = []
        nbursts = 0
        full = (1 << self.nb) - 1
        for req in self.requests(rng, tier):
            a, ln, size, bt = req
            wbeats = []
            for k in range(ln + 1):
                lanes = 0
                for b in beat_bytes(a, ln, size, bt, k):
                    lanes |= 1 << (b % self.nb)
                wbeats.append((rng.getrandbits(self.dw), lanes & rng.choice((full, full, rng.getrandbits(self.nb)))))
            al = (a // self.nb) * self.nb
            if bt == WRAP:
                win = (ln + 1) << size
                al = ((a // win) * win // self.nb) * self.nb
            span = max(1, -(-(((ln + 1) << size) + (a - al if bt != WRAP else 0)) // self.nb))
            sweep = (al, min(span, (self.SIZE - al) // self.nb) - 1, log2i(self.nb), INCR)
            for write, rq in ((True, req), (False, req), (False, sweep)):
                h = {"b2buser": "write" if write else "read", "request": list(rq), "stall_seed": rng.getrandbits(30)}
                if write:
                    h["wbeats"] = [list(x) for x in wbeats]
                history.append(h)
                m = self.run_burst(write, rq, wbeats, h["stall_seed"])
                nbursts += 1
                cov.count("AXIBurst2Beat users: bursts of type %d" % rq[3])
                if m:
                    d = dict(h)
                    d.update({"instance": self.name, "kind": "monitor:" + m, "monitor": m, "history": list(history)})
                    dis.append(d)
                    break
            if any(d.get("kind", "").startswith("monitor:") for d in dis):
                break
        cov.add_cases(self.name, nbursts, nbursts, exhaustive=False)
        cov.instances[-1]["mode"] = "E (monitor + capability-set tie)"
        return dis


# ---------------------------------------------------------------------------------------------------------
# Parallel job runner with the extra job kinds of this property


class Job:
    def __init__(self, mode, make, label=None, **kw):
        self.mode = mode      # 'A' | 'B' | 'D' | 'C' | 'E'
        self.make = make
        self.label = label
        self.kw = kw


_JOBS = None
_CTXINFO = None


def _worker(idx):
    import random
    from runner import Coverage
    from leanproc import LeanDriver
    from explore import coexplore, cosim
    prop, seed, tier = _CTXINFO
    job = _JOBS[idx]
    cov = Coverage()
    lean = LeanDriver(prop)
    budget = 400 if tier == "quick" else 3000          # per-job wall budget: a hang ends as a reported disagreement
    try:
        return _run_job(idx, job, cov, lean, seed, tier, budget)
    except Exception as e:                              # building/driving a changed implementation may blow up
        import traceback
        name = getattr(job, "label", None) or "job %d (mode %s)" % (idx, job.mode)
        return idx, cov.__dict__, [{"instance": name, "kind": "exception", "error": repr(e),
                                    "traceback": traceback.format_exc()[-1500:]}]
    finally:
        lean.quit()


class JobTimeout(Exception):
    pass


def _run_job(idx, job, cov, lean, seed, tier, budget):
    import random, signal
    from explore import coexplore, cosim

    # The budget is CPU time of this worker (load independent: the box is shared with many other checks and wall
    # times stretch 5-7x); a much larger wall-clock alarm still ends a job that blocks without consuming CPU.
    wall = budget * 8

    def on_alarm(*a):
        raise JobTimeout("job exceeded its budget (%d s CPU / %d s wall)" % (budget, wall))
    signal.signal(signal.SIGALRM, on_alarm)
    signal.signal(signal.SIGVTALRM, on_alarm)
    signal.alarm(wall)
    signal.setitimer(signal.ITIMER_VIRTUAL, budget)
    try:
        inst = job.make()
        job.label = getattr(inst, "name", None) or job.label
        if job.mode == "A":
            dis = coexplore(inst, lean, cov, deadline=time.time() + wall * 0.9, **job.kw)
        elif job.mode == "D":
            dis = coexplore_dyn(inst, lean, cov, deadline=time.time() + wall * 0.9, **job.kw)
        elif job.mode == "C":
            return idx, cov.__dict__, conv_run(inst, lean, cov, seed, tier)
        elif job.mode == "E":
            return idx, cov.__dict__, inst.run(cov, seed, tier, lean)
        else:
            rng = random.Random(seed * 7919 + idx)
            dis = cosim(inst, lean, cov, rng, **job.kw)
    finally:
        signal.alarm(0)
        signal.setitimer(signal.ITIMER_VIRTUAL, 0)
    for ci in cov.instances:
        if ci.get("mode") == "A" and not ci.get("exhaustive") and not dis:
            # an exploration that does not finish (state blow-up / time-out) is not silently accepted
            dis = list(dis) + [{"instance": ci["instance"], "kind": "exploration-incomplete",
                                "states": ci.get("states"), "transitions": ci.get("transitions")}]
    return idx, cov.__dict__, [d if isinstance(d, dict) else
                               (d.trace, d.cycle, d.impl_outs, d.model_outs, d.kind, d.inst_name, d.lean_open)
                               for d in dis]


def run_jobs(ctx, jobs, procs=None):
    global _JOBS, _CTXINFO
    import multiprocessing as mp
    _JOBS = jobs
    _CTXINFO = (ctx.prop, ctx.seed, ctx.tier)
    procs = procs or min(len(jobs), int(os.environ.get("VERIF_PROCS", "0")) or (os.cpu_count() or 4))
    if procs <= 1 or len(jobs) <= 1:
        results = [_worker(i) for i in range(len(jobs))]
    else:
        with mp.get_context("fork").Pool(procs) as pool:
            results = pool.map(_worker, range(len(jobs)), chunksize=1)
    dis = []
    for idx, covd, ds in sorted(results):
        ctx.cov.instances += covd["instances"]
        for s in covd["samples"]:
            if len(ctx.cov.samples) < 8:
                ctx.cov.samples.append(s)
        ctx.cov.evaluations += covd["evaluations"]
        ctx.cov.nontrivial += covd["nontrivial"]
        ctx.cov.states += covd["states"]
        ctx.cov.transitions += covd["transitions"]
        for k, v in covd["hist"].items():
            ctx.cov.count(k, v)
        ctx.cov.notes += covd["notes"]
        for item in ds:
            if isinstance(item, dict):
                item["job"] = idx
                dis.append(item)
                continue
            (trace, cycle, io, mo, kind, iname, lopen) = item
            d = Disagreement(None, trace, cycle, io, mo, kind)
            d.inst_name, d.lean_open, d.job = iname, lopen, idx
            dis.append(d)
    return dis
