"""C19 — the remaining small pieces of the anchor files, tied to the real code:
  uart.py : UART.add_auto_tx_flush, RS232PHYMultiplexer, UARTMultiplexer, RS232PHYModel, UARTCrossover
  misc.py : split, displacer, chooser (comb builders, wrapped in a tiny Module), BitSlip
Lean side: lean/LitexModel/Periph/Glue2.lean (`openGlue2`, port orders documented there and per class below).
Instances follow the protocol of explore.py; the monitors never look at the Lean model (scoreboards / recomputation).

    import c19glue2; J += c19glue2.jobs(tier)
"""
from math import log2
from migen import Module, Signal
from migen.genlib.record import Record
from c19lib import PInst, prod
from netlist import Netlist
from explore import Job


def _mask(w):
    return (1 << w) - 1


# ---------------------------------------------------------------------------------------------------------
# UART.add_auto_tx_flush

class UartFlushMonitor:
    """Scoreboard of the TX path with the automatic flush (the RX path as in the plain UART):
      - what the PHY is offered is always the oldest character software wrote (while txfull = 0) that has neither been
        taken by the PHY nor flushed: order preserved, nothing invented;
      - a character is dropped only while the PHY has not been ready for >= `timeout` consecutive cycles, and then at
        most one per 2^k cycles;
      - software is never blocked by a dead PHY: while source.ready stays low, txfull does not stay high for more than
        timeout + 2^k + 2 cycles;
      - a character handed to the PHY (source.valid & source.ready) leaves the FIFO in that cycle: it is sent exactly once
        (before fix `C19-uart-autoflush-duplicate` the flush branch ignored source.ready and the character was sent
        twice when the PHY recovered in a cycle with flush_count != 0)."""

    def __init__(self, dtx, drx, rx_we, timeout, k, strict=True):
        self.dtx, self.drx, self.rx_we, self.T, self.P = dtx, drx, rx_we, timeout, 1 << k
        self.txq, self.rxq = [], []
        self.streak = 0          # consecutive cycles (before this one) without source.ready
        self.t = 0
        self.full_for = 0
        self.tx_wait = self.rx_wait = 0
        self.strict = strict
        self.dups = 0
        self.dropped = 0
        self.delivered = []

    def observe(self, letter, outs):
        re, r, we, clr, sv, sd, rdy = letter
        srcv, srcd, srdy, w, txfull, txempty, rxempty, rxfull, ttx, trx = outs
        msg = None
        flushing = self.streak >= self.T
        pop = bool(rdy) or (flushing and self.t % self.P == 0)
        if ttx != 1 - txfull or trx != 1 - rxempty:
            msg = "event triggers (tx=%d, rx=%d) do not mirror txfull=%d / rxempty=%d" % (ttx, trx, txfull, rxempty)
        elif txempty != 1 - srcv:
            msg = "txempty=%d while source.valid=%d" % (txempty, srcv)
        elif rxfull != 1 - srdy:
            msg = "rxfull=%d while sink.ready=%d" % (rxfull, srdy)
        elif srcv and (not self.txq or self.txq[0] != srcd):
            if getattr(self, "taken_prev", None) == srcd:
                msg = ("character 0x%02x was taken by the PHY (source.valid & source.ready) in the previous cycle and is "
                       "offered again: it stayed in the TX FIFO and is sent twice" % srcd)
            else:
                msg = "PHY offered 0x%02x, oldest pending character is %s (flush mode: %s)" % (
                    srcd, "0x%02x" % self.txq[0] if self.txq else "none", flushing)
        elif not rxempty and (not self.rxq or self.rxq[0] != w):
            msg = "rxtx shows 0x%02x, PHY delivered %s" % (w, "0x%02x" % self.rxq[0] if self.rxq else "nothing")
        elif len(self.txq) > self.dtx + 1 or len(self.rxq) > self.drx + 1:
            msg = "more characters in flight than the FIFO holds"
        self.full_for = self.full_for + 1 if (txfull and not rdy) else 0
        if msg is None and self.full_for > self.T + self.P + 2:
            msg = "txfull for %d cycles without source.ready: software blocked although the flush timeout is %d cycles" % (
                self.full_for, self.T)
        self.tx_wait = self.tx_wait + 1 if (self.txq and not srcv) else 0
        self.rx_wait = self.rx_wait + 1 if (self.rxq and rxempty) else 0
        if msg is None and (self.tx_wait > 3 or self.rx_wait > 3):
            msg = "a queued character did not surface within 3 cycles"
        self.taken_prev = srcd if (srcv and rdy) else None
        if srcv and rdy:
            self.delivered.append(srcd)
            if not pop:
                self.dups += 1
                if self.strict and msg is None:
                    msg = ("character 0x%02x taken by the PHY (source.valid & source.ready) but kept in the TX FIFO: it will "
                           "be sent twice (PHY recovered after %d idle cycles, flush_count != 0)" % (srcd, self.streak))
        if srcv and pop and self.txq:
            self.txq.pop(0)
            if not rdy:
                self.dropped += 1
        if not rxempty and (clr or (self.rx_we and we)) and self.rxq:
            self.rxq.pop(0)
        if re and not txfull:
            self.txq.append(r & 0xff)
        if sv and srdy:
            self.rxq.append(sd & 0xff)
        self.streak = 0 if rdy else self.streak + 1
        self.t += 1
        return msg


class UartFlushInst:
    """UART(phy=None, tx_fifo_depth, rx_fifo_depth) + add_auto_tx_flush(sys_clk_freq, timeout, interval).
       letter / outputs as c19lib.UartTopInst:
       letter  = (rxtx.re, rxtx.r, rxtx.we, clear rx event, sink.valid, sink.data, source.ready)
       outputs = (source.valid, source.data, sink.ready, rxtx.w, txfull, txempty, rxempty, rxfull, ev.tx.trigger,
                  ev.rx.trigger)"""

    def __init__(self, dtx, drx, sys_clk_freq, timeout, interval, rx_we=False, alphabet=None, strict=True, p_dead=0.3):
        from litex.soc.cores.uart import UART
        core = UART(phy=None, tx_fifo_depth=dtx, rx_fifo_depth=drx, rx_fifo_rx_we=rx_we)
        core.add_auto_tx_flush(sys_clk_freq, timeout=timeout, interval=interval)
        self.core = core
        self.T, self.k = int(timeout * sys_clk_freq), int(log2(interval))
        self.name = "UART(tx_fifo_depth=%d,rx_fifo_depth=%d%s).add_auto_tx_flush(timeout=%d cycles,interval=%d)" % (
            dtx, drx, ",rx_fifo_rx_we" if rx_we else "", self.T, interval)
        self.module = core
        self.lean_open = "uartflush %d %d %d %d %d" % (dtx, drx, self.T, self.k, 1 if rx_we else 0)
        self.netlist = Netlist(core)
        self.inputs = None
        self.outputs = [core.source.valid, core.source.data, core.sink.ready, core._rxtx.w, core._txfull.status,
                        core._txempty.status, core._rxempty.status, core._rxfull.status, core.ev.tx.trigger,
                        core.ev.rx.trigger]
        self.qual = [None, 0, None, (lambda a: a[6] == 0), None, None, None, None, None, None]
        self.alphabet = alphabet
        self.p_dead = p_dead
        self._dead = False
        self.monitor = lambda: UartFlushMonitor(dtx, drx, rx_we, self.T, self.k, strict=strict)

    def apply(self, letter):
        n, c = self.netlist, self.core
        re, r, we, clr, sv, sd, rdy = letter
        n.set(c._rxtx.re, re); n.set(c._rxtx.r, r); n.set(c._rxtx.we, we)
        n.set(c.ev.pending.re, clr); n.set(c.ev.pending.r, 3)
        n.set(c.sink.valid, sv); n.set(c.sink.data, sd); n.set(c.source.ready, rdy)
        n.settle()

    def sample(self):
        return [self.netlist.getu(sig) for sig in self.outputs]

    def nontrivial(self, letter, outs):
        return bool(letter[0] or letter[4] or outs[0] or not outs[6])

    def gen(self, rng, t):
        """Regimes: PHY alive (ready often), PHY slow (ready rare but within the timeout), PHY dead (no ready for a few
        timeouts, software keeps writing), and recovery at a random moment."""
        span = 3 * self.T + 40
        if t % span == 0:
            self._dead = rng.random() < self.p_dead
            self._pr = rng.choice([0.8, 0.3, 1.5 / (self.T + 1)])
        rdy = 0 if self._dead and (t % span) < span - 7 else (1 if rng.random() < self._pr else 0)
        return (1 if rng.random() < 0.5 else 0, rng.getrandbits(8), 1 if rng.random() < 0.3 else 0,
                1 if rng.random() < 0.3 else 0, 1 if rng.random() < 0.3 else 0, rng.getrandbits(8), rdy)


def mk_uart_flush(dtx=2, drx=2, cycles=4, interval=2, rx_we=False, alphabet=None, strict=True):
    """timeout = `cycles` clock cycles (sys_clk_freq = 1 kHz, timeout = cycles ms)."""
    return UartFlushInst(dtx, drx, 1000, cycles * 1e-3 + 1e-4, interval, rx_we=rx_we, alphabet=alphabet, strict=strict)


def flush_dup_witness():
    """Replays the duplicate-character witness (finding C19-uart-autoflush-duplicate) on the real code with the monitor:
    returns ((cycle, message) or None, trace).  timeout 3 cycles, interval 4: write 0x41, 0x42; PHY dead for 3 more
    cycles; PHY ready in a cycle with flush_count != 0.  Before the fix the character taken by the PHY stayed in the FIFO
    and was offered (and taken) again."""
    import explore
    inst = mk_uart_flush(2, 2, cycles=3, interval=4, strict=True)
    w = lambda d: (1, d, 0, 0, 0, 0, 0)
    idle, rdy = (0, 0, 0, 0, 0, 0, 0), (0, 0, 0, 0, 0, 0, 1)
    trace = [w(0x41), w(0x42), idle, idle, idle, rdy, rdy, rdy]
    return explore.replay_with_monitor(inst, trace), trace


# ---------------------------------------------------------------------------------------------------------
# BitSlip

class BitSlipMonitor:
    """o(t+1) = bits [v, v+dw) of the two-word window (word t-2 low, word t-1 high), v = value(t) < dw;
    for v >= dw (no case) o holds.  Recomputed from the last two inputs."""

    def __init__(self, dw):
        self.dw = dw
        self.hist = [0, 0]      # i(t-2), i(t-1)
        self.exp = 0

    def observe(self, letter, outs):
        i, v = letter
        dw = self.dw
        msg = None
        if outs[0] != self.exp:
            msg = "o = 0x%x, expected 0x%x" % (outs[0], self.exp)
        a, b = self.hist
        if v < dw:
            self.exp = ((a >> v) | (b << (dw - v))) & _mask(dw)
        self.hist = [b, i & _mask(dw)]
        return msg


def mk_bitslip(dw, values=None):
    from litex.gen.genlib.misc import BitSlip
    core = BitSlip(dw)
    vw = len(core.value)
    ivals = tuple(range(1 << dw)) if values is None else values
    alphabet = prod(ivals, tuple(range(1 << vw)))
    state = {"v": 0}

    def gen(rng, t):
        if t % 23 == 0:
            state["v"] = rng.randrange(1 << vw)
        return (rng.getrandbits(dw), state["v"] if rng.random() < 0.9 else rng.randrange(1 << vw))

    return PInst("BitSlip(%d)" % dw, core, "bitslip %d" % dw, [core.i, core.value], [core.o], alphabet, gen,
                 lambda l, o: o[0] != 0, monitor=lambda: BitSlipMonitor(dw))


# ---------------------------------------------------------------------------------------------------------
# chooser / displacer / split

class ChooserTop(Module):
    def __init__(self, ws, w, sw, n, reverse):
        from litex.gen.genlib.misc import chooser
        self.signal, self.shift, self.output = Signal(ws), Signal(sw), Signal(w)
        self.comb += chooser(self.signal, self.shift, self.output, n=n, reverse=reverse)


class DisplacerTop(Module):
    def __init__(self, w, sw, n, reverse, wo):
        from litex.gen.genlib.misc import displacer
        self.signal, self.shift, self.output = Signal(w), Signal(sw), Signal(wo)
        self.comb += displacer(self.signal, self.shift, self.output, n=n, reverse=reverse)


class SplitTop(Module):
    def __init__(self, w, counts):
        from litex.gen.genlib.misc import split
        self.v = Signal(w)
        parts = split(self.v, *counts)
        assert len(parts) == len(counts) and all((p is None) == (c == 0) for p, c in zip(parts, counts))
        self.outs = [Signal(max(1, c)) for c in counts]
        self.comb += [o.eq(p) for o, p in zip(self.outs, parts) if p is not None]


class CombMonitor:
    def __init__(self, fn):
        self.fn = fn

    def observe(self, letter, outs):
        exp = self.fn(*letter)
        return None if list(outs) == list(exp) else "outputs %r for inputs %r, expected %r" % (list(outs), tuple(letter), list(exp))


def _comb_inst(name, core, lean_open, inputs, outputs, alphabet, fn):
    return PInst(name, core, lean_open, inputs, outputs, alphabet, lambda rng, t: rng.choice(alphabet),
                 lambda l, o: any(o), monitor=lambda: CombMonitor(fn))


def mk_chooser(ws, w, sw, n=None, reverse=False):
    """signal ws bits, output w bits, shift sw bits, n fields (None: 2**sw)."""
    core = ChooserTop(ws, w, sw, n, reverse)
    nn = (1 << sw) if n is None else n

    def fn(sig, sh):
        i = sh if sh < nn else nn - 1
        s = nn - 1 - i if reverse else i
        return [(sig >> (s * w)) & _mask(w)]

    return _comb_inst("chooser(len(signal)=%d,len(output)=%d,len(shift)=%d,n=%s,reverse=%s)" % (ws, w, sw, n, reverse), core,
                      "chooser %d %d %d %d" % (ws, w, nn, 1 if reverse else 0), [core.signal, core.shift], [core.output],
                      prod(tuple(range(1 << ws)), tuple(range(1 << sw))), fn)


def mk_displacer(w, sw, n=None, reverse=False, wo=None):
    nn = (1 << sw) if n is None else n
    wo = nn * w if wo is None else wo
    core = DisplacerTop(w, sw, n, reverse, wo)

    def fn(sig, sh):
        if sh >= nn:
            return [0]
        pos = nn - 1 - sh if reverse else sh
        return [(sig << (w * pos)) & _mask(wo)]

    return _comb_inst("displacer(len(signal)=%d,len(shift)=%d,n=%s,reverse=%s,len(output)=%d)" % (w, sw, n, reverse, wo), core,
                      "displacer %d %d %d %d" % (w, nn, 1 if reverse else 0, wo), [core.signal, core.shift], [core.output],
                      prod(tuple(range(1 << w)), tuple(range(1 << sw))), fn)


def mk_split(w, counts):
    core = SplitTop(w, counts)
    total = sum(counts)

    def fn(v):
        # the parts, concatenated again, give v back (as far as v has bits)
        out, off = [], 0
        for c in counts:
            out.append((v >> off) & _mask(c) if off + c <= w else ((v & _mask(w)) >> off) & _mask(max(0, min(off + c, w) - off)))
            off += c
        assert sum(p << o for p, o in zip(out, [sum(counts[:j]) for j in range(len(counts))])) == v & _mask(min(total, w))
        return out

    return _comb_inst("split(len(v)=%d,%s)" % (w, ",".join(map(str, counts))), core,
                      "split %d %s" % (w, " ".join(map(str, counts))), [core.v], core.outs,
                      prod(tuple(range(1 << w))), fn)


# ---------------------------------------------------------------------------------------------------------
# RS232PHYMultiplexer / UARTMultiplexer / RS232PHYModel

def mk_phymux(n):
    """letter  = (sel, phy.source.valid, phy.source.data, phy.sink.ready) + n x (sink.valid, sink.data, source.ready)
       outputs = (phy.source.ready, phy.sink.valid, phy.sink.data) + n x (source.valid, source.data, sink.ready)"""
    from litex.soc.cores.uart import RS232PHYMultiplexer, RS232PHYInterface
    phys = [RS232PHYInterface() for _ in range(n)]
    phy = RS232PHYInterface()
    core = RS232PHYMultiplexer(phys, phy)
    inputs = [core.sel, phy.source.valid, phy.source.data, phy.sink.ready]
    outputs = [phy.source.ready, phy.sink.valid, phy.sink.data]
    qual = [None, None, 1]
    for k, p in enumerate(phys):
        inputs += [p.sink.valid, p.sink.data, p.source.ready]
        outputs += [p.source.valid, p.source.data, p.sink.ready]
        qual += [None, 3 + 3 * k, None]
    nsel = 1 << len(core.sel)

    def fn(sel, sv, sd, rdy, *ch):
        chans = [ch[3 * k:3 * k + 3] for k in range(n)]
        if sel < n:
            out = [chans[sel][2], chans[sel][0], chans[sel][1]]
        else:
            out = [0, 0, 0]
        for k in range(n):
            out += [sv, sd, rdy] if k == sel else [0, 0, 1]
        return out

    alphabet = prod(tuple(range(nsel)), (0, 1), (0x5a,), (0, 1), *([(0, 1), (0x11,), (0, 1)] * n))
    alphabet = [l[:4] + tuple((0x10 * (j // 3 + 1) + 1) if j % 3 == 1 else x for j, x in enumerate(l[4:])) for l in alphabet]

    def gen(rng, t):
        return (rng.randrange(nsel), rng.getrandbits(1), rng.getrandbits(8), rng.getrandbits(1)) + tuple(
            rng.getrandbits(8) if j % 3 == 1 else rng.getrandbits(1) for j in range(3 * n))

    inst = PInst("RS232PHYMultiplexer(%d phys)" % n, core, "phymux %d" % n, inputs, outputs, alphabet, gen,
                 lambda l, o: l[1] or o[1], monitor=lambda: CombMonitor(fn), qual=qual)
    return inst


def mk_uartmux(n):
    """letter = (sel, uart.rx, uarts[0].tx, ...), outputs = (uart.tx, uarts[0].rx, ...)"""
    from litex.soc.cores.uart import UARTMultiplexer
    uarts = [Record([("tx", 1), ("rx", 1)]) for _ in range(n)]
    uart = Record([("tx", 1), ("rx", 1)])
    core = UARTMultiplexer(uarts, uart)
    nsel = 1 << len(core.sel)

    def fn(sel, rx, *txs):
        return [txs[sel] if sel < n else 0] + [rx if k == sel else 0 for k in range(n)]

    alphabet = prod(tuple(range(nsel)), (0, 1), *([(0, 1)] * n))
    return _comb_inst("UARTMultiplexer(%d uarts)" % n, core, "uartmux %d" % n, [core.sel, uart.rx] + [u.tx for u in uarts],
                      [uart.tx] + [u.rx for u in uarts], alphabet, fn)


def mk_phymodel():
    """letter = (sink.valid, sink.data, pads.source_ready, pads.sink_valid, pads.sink_data, source.ready)
       outputs = (pads.source_valid, pads.source_data, sink.ready, source.valid, source.data, pads.sink_ready)"""
    from litex.soc.cores.uart import RS232PHYModel
    pads = Record([("source_valid", 1), ("source_ready", 1), ("source_data", 8),
                   ("sink_valid", 1), ("sink_ready", 1), ("sink_data", 8)])
    core = RS232PHYModel(pads)
    alphabet = prod((0, 1), (0x00, 0xa5, 0xff), (0, 1), (0, 1), (0x00, 0x3c, 0xff), (0, 1))
    inst = _comb_inst("RS232PHYModel", core, "phymodel",
                      [core.sink.valid, core.sink.data, pads.source_ready, pads.sink_valid, pads.sink_data, core.source.ready],
                      [pads.source_valid, pads.source_data, core.sink.ready, core.source.valid, core.source.data, pads.sink_ready],
                      alphabet, lambda sv, sd, psr, psv, psd, sr: [sv, sd, psr, psv, psd, sr])
    inst._gen = lambda rng, t: (rng.getrandbits(1), rng.getrandbits(8), rng.getrandbits(1), rng.getrandbits(1),
                                rng.getrandbits(8), rng.getrandbits(1))
    return inst


# ---------------------------------------------------------------------------------------------------------
# UARTCrossover

class CrossoverMonitor:
    """Two scoreboards: characters written to the main UART's rxtx (txfull = 0) appear on the xover UART's rxtx.w in
    order, each until it is popped (xover: clear or read, rx_fifo_rx_we=True), none lost or invented; and the same from
    xover to main.  A queued character surfaces within 8 cycles (two FIFOs in a row)."""

    def __init__(self, rx_we):
        self.rx_we = rx_we
        self.m2x, self.x2m = [], []
        self.wait_x = self.wait_m = 0

    def observe(self, letter, outs):
        mre, mr, mwe, mclr, xre, xr, xwe, xclr = letter
        mw, mtxfull, mtxempty, mrxempty, mrxfull, xw, xtxfull, xtxempty, xrxempty, xrxfull = outs
        msg = None
        if not xrxempty and (not self.m2x or self.m2x[0] != xw):
            msg = "xover rxtx shows 0x%02x, main wrote %s" % (xw, "0x%02x" % self.m2x[0] if self.m2x else "nothing")
        elif not mrxempty and (not self.x2m or self.x2m[0] != mw):
            msg = "main rxtx shows 0x%02x, xover wrote %s" % (mw, "0x%02x" % self.x2m[0] if self.x2m else "nothing")
        self.wait_x = self.wait_x + 1 if (self.m2x and xrxempty) else 0
        self.wait_m = self.wait_m + 1 if (self.x2m and mrxempty) else 0
        if msg is None and (self.wait_x > 8 or self.wait_m > 8):
            msg = "a written character did not reach the other side within 8 cycles"
        if not xrxempty and (xclr or xwe) and self.m2x:
            self.m2x.pop(0)
        if not mrxempty and (mclr or (self.rx_we and mwe)) and self.x2m:
            self.x2m.pop(0)
        if mre and not mtxfull:
            self.m2x.append(mr & 0xff)
        if xre and not xtxfull:
            self.x2m.append(xr & 0xff)
        return msg


class CrossoverInst:
    """UARTCrossover(tx_fifo_depth, rx_fifo_depth, rx_fifo_rx_we).
       letter  = (rxtx.re, rxtx.r, rxtx.we, clear rx event) of the main UART, then of `xover`
       outputs = (rxtx.w, txfull, txempty, rxempty, rxfull) of the main UART, then of `xover`"""

    def __init__(self, dtx, drx, rx_we=False, alphabet=None):
        from litex.soc.cores.uart import UARTCrossover
        core = UARTCrossover(tx_fifo_depth=dtx, rx_fifo_depth=drx, rx_fifo_rx_we=rx_we)
        self.core = core
        self.name = "UARTCrossover(tx_fifo_depth=%d,rx_fifo_depth=%d%s)" % (dtx, drx, ",rx_fifo_rx_we" if rx_we else "")
        self.module = core
        self.lean_open = "crossover %d %d %d" % (dtx, drx, 1 if rx_we else 0)
        self.netlist = Netlist(core)
        self.inputs = None
        self.outputs = []
        for u in (core, core.xover):
            self.outputs += [u._rxtx.w, u._txfull.status, u._txempty.status, u._rxempty.status, u._rxfull.status]
        self.qual = [(lambda a: a[3] == 0), None, None, None, None, (lambda a: a[8] == 0), None, None, None, None]
        self.alphabet = alphabet
        self.monitor = lambda: CrossoverMonitor(rx_we)

    def apply(self, letter):
        n = self.netlist
        for u, (re, r, we, clr) in ((self.core, letter[:4]), (self.core.xover, letter[4:])):
            n.set(u._rxtx.re, re); n.set(u._rxtx.r, r); n.set(u._rxtx.we, we)
            n.set(u.ev.pending.re, clr); n.set(u.ev.pending.r, 3)
        n.settle()

    def sample(self):
        return [self.netlist.getu(sig) for sig in self.outputs]

    def nontrivial(self, letter, outs):
        return bool(letter[0] or letter[4] or not outs[3] or not outs[8])

    def gen(self, rng, t):
        regime = (t // 131) % 4
        pmw, pmr, pxw, pxr = ((0.5, 0.3, 0.5, 0.3), (0.9, 0.5, 0.1, 0.02), (0.1, 0.02, 0.9, 0.5), (0.3, 0.6, 0.3, 0.6))[regime]
        b = lambda p: 1 if rng.random() < p else 0
        return (b(pmw), rng.getrandbits(8), b(pmr), b(pmr), b(pxw), rng.getrandbits(8), b(pxr), b(pxr))


# ---------------------------------------------------------------------------------------------------------
# jobs

def jobs(tier):
    quick = tier == "quick"
    J = []
    A = lambda mk, **kw: J.append(Job("A", mk, max_states=kw.pop("max_states", 2000 if quick else 200000), **kw))
    B = lambda mk, **kw: J.append(Job("B", mk, cycles=kw.pop("cycles", 1500 if quick else 12000),
                                      runs=kw.pop("runs", 1 if quick else 2), **kw))
    # add_auto_tx_flush: timeout 3 cycles / interval 2 and 4 (mode A: PHY and software letters, one data value per side)
    # (the UART netlists cost ~4 ms per simulated cycle: small caps in the quick tier)
    fl_alpha = prod((0, 1), (1,), (0,), (0, 1), (0, 1), (3,), (0, 1))
    # quick: TX side only (write / source.ready), timeout 2: the whole product (flush mode included) is explored
    A(lambda: mk_uart_flush(2, 2, cycles=2, interval=2, alphabet=prod((0, 1), (1,), (0,), (0,), (0,), (3,), (0, 1))),
      max_states=400 if quick else 20000)
    if not quick:
        A(lambda: mk_uart_flush(2, 2, cycles=3, interval=2, alphabet=prod((0, 1), (1, 2), (0,), (0,), (0,), (3,), (0, 1))),
          max_states=20000)
    B(lambda: mk_uart_flush(3, 2, cycles=6, interval=4, rx_we=True), cycles=450 if quick else 12000)
    if not quick:
        A(lambda: mk_uart_flush(2, 2, cycles=4, interval=4, alphabet=fl_alpha), max_states=20000)
        B(lambda: mk_uart_flush(4, 4, cycles=25, interval=8))
        B(lambda: mk_uart_flush(16, 16, cycles=200, interval=2))
    # BitSlip
    A(lambda: mk_bitslip(2))
    A(lambda: mk_bitslip(3))
    B(lambda: mk_bitslip(8))
    if not quick:
        B(lambda: mk_bitslip(5))
        B(lambda: mk_bitslip(16))
    # chooser / displacer / split (complete input sets)
    A(lambda: mk_chooser(6, 2, 2, n=3, reverse=False))
    A(lambda: mk_chooser(8, 2, 2, n=None, reverse=True))
    A(lambda: mk_chooser(5, 2, 2, n=3, reverse=True))        # signal shorter than n fields: clamped slices
    A(lambda: mk_displacer(2, 2, n=3, reverse=False))
    A(lambda: mk_displacer(2, 2, n=None, reverse=True))
    A(lambda: mk_displacer(3, 2, n=3, reverse=True, wo=7))   # output shorter than n fields: truncated
    A(lambda: mk_split(7, (2, 0, 3, 1)))
    A(lambda: mk_split(6, (1, 2, 3)))
    # multiplexers / PHY model
    A(lambda: mk_phymux(2))
    A(lambda: mk_phymux(3))
    A(lambda: mk_uartmux(3))
    A(lambda: mk_uartmux(2))
    A(lambda: mk_phymodel())
    if not quick:
        B(lambda: mk_phymux(5), cycles=5000)
        B(lambda: mk_phymodel(), cycles=5000)
    # UARTCrossover
    xo_alpha = prod((0, 1), (1,), (0,), (0, 1), (0, 1), (2,), (0, 1), (0,))
    A(lambda: CrossoverInst(2, 2, alphabet=xo_alpha), max_states=8 if quick else 400)
    B(lambda: CrossoverInst(4, 4, rx_we=True), cycles=250 if quick else 8000)
    return J


# ---------------------------------------------------------------------------------------------------------
# smoke test

if __name__ == "__main__":
    import sys
    sys.path.insert(0, '/verif/harness')
    import envshim
    envshim.install()
    import random, time
    import explore
    from runner import Coverage
    from leanproc import LeanDriver

    tier = sys.argv[1] if len(sys.argv) > 1 else "quick"
    bad = 0
    t_all = time.process_time()
    for idx, job in enumerate(jobs(tier)):
        t0 = time.process_time()
        lean = LeanDriver("C19")
        cov = Coverage()
        inst = job.make()
        root = inst.netlist.snapshot()
        try:
            if job.mode == "A":
                dis = explore.coexplore(inst, lean, cov, **job.kw)
                # mode A does not arm the monitor: run it on a random walk over the alphabet as well
                if not dis and hasattr(inst, "monitor"):
                    rng = random.Random(idx)
                    walk = [rng.choice(inst.alphabet) for _ in range(1000)]
                    inst.netlist.restore(root)
                    r = explore.replay_with_monitor(inst, walk)
                    if r:
                        dis = [explore.Disagreement(inst, walk[:r[0] + 1], r[0], None, None, kind="monitor:" + r[1])]
            else:
                kw = dict(job.kw)
                if len(sys.argv) > 2:
                    kw["cycles"] = max(kw["cycles"], int(sys.argv[2]))
                dis = explore.cosim(inst, lean, cov, random.Random(1000 + idx), **kw)
        finally:
            lean.quit()
        i = cov.instances[-1] if cov.instances else {}
        print("%-4s %-100s %s states=%s transitions=%s nontrivial=%s exhaustive=%s cpu=%.2fs" % (
            job.mode, inst.name[:100], "ok  " if not dis else "FAIL", i.get("states"), i.get("transitions"),
            i.get("nontrivial"), i.get("exhaustive"), time.process_time() - t0))
        for d in dis:
            bad += 1
            print("     %s cycle %d impl=%r model=%r\n     trace tail=%r" % (d.kind, d.cycle, d.impl_outs, d.model_outs, d.trace[-6:]))
    r, trace = flush_dup_witness()
    print("add_auto_tx_flush duplicate witness (strict monitor): %r" % (r,))
    print("total cpu %.1fs; %d failing instance(s)" % (time.process_time() - t_all, bad))
    sys.exit(1 if bad else 0)
