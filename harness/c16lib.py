"""C16 — instances, closed-loop stimulus generators and property monitors for litex.soc.interconnect.packet.

Instances follow the protocol of explore.py.  Letters and output vectors are flat tuples of ints in the order
documented in lean/LitexModel/Packet/Num.lean.  The monitors are written from the *property* (byte layout of a
framed packet, per-packet parameter association, one source / one destination per packet); they do not use
the Lean model.
"""
from netlist import Netlist
from migen import Module, Signal
from litex.soc.interconnect import stream
from litex.soc.interconnect import packet


# ---------------------------------------------------------------------------------------------------------
# Reference header layout (specification level: a field of `width` bits starts at bit 8*byte+offset; with
# swap_field_bytes a field of whole bytes is stored most significant byte first).

class HdrSpec:
    def __init__(self, fields, length, swap):
        """fields: dict name -> (byte, offset, width)."""
        self.names = sorted(fields)
        self.table = [tuple(fields[k]) for k in self.names]       # table order = sorted(fields.items())
        self.length = length
        self.swap = bool(swap)
        self.header = packet.Header({k: packet.HeaderField(*fields[k]) for k in self.names}, length,
                                    swap_field_bytes=self.swap)

    def lean_args(self):
        return "%d %d %s" % (int(self.swap), len(self.table), " ".join("%d %d %d" % f for f in self.table))

    def swappable(self):
        return (not self.swap) or all(w <= 8 or w % 8 == 0 for (_, _, w) in self.table)

    def disjoint(self):
        r = sorted((8 * b + o, 8 * b + o + w) for (b, o, w) in self.table)
        return all(r[k][1] <= r[k + 1][0] for k in range(len(r) - 1))

    def fits(self):
        return all(8 * b + o + w <= 8 * self.length for (b, o, w) in self.table)

    def ref_encode(self, vals):
        """Header bytes (list of ints) prescribed by the header definition, or None if the definition does not
        prescribe one (overlapping fields, odd-width swapped fields)."""
        if not (self.swappable() and self.disjoint() and self.fits()):
            return None
        sig = 0
        for (b, o, w), v in zip(self.table, vals):
            v &= (1 << w) - 1
            if self.swap and w > 8:
                v = int.from_bytes(v.to_bytes(w // 8, "little"), "big")
            sig |= v << (8 * b + o)
        return [(sig >> (8 * k)) & 0xff for k in range(self.length)]

    def ref_decode(self, hbytes):
        if not (self.swappable() and self.fits()):
            return None
        sig = sum(x << (8 * k) for k, x in enumerate(hbytes))
        out = []
        for (b, o, w) in self.table:
            v = (sig >> (8 * b + o)) & ((1 << w) - 1)
            if self.swap and w > 8:
                v = int.from_bytes(v.to_bytes(w // 8, "little"), "big")
            out.append(v)
        return out

    def max_vals(self):
        return [(1 << w) - 1 for (_, _, w) in self.table]


def to_bytes(word, nbytes):
    return [(word >> (8 * k)) & 0xff for k in range(nbytes)]


def bit_per_byte(nbytes):
    """The 2**nbytes values having only bit 0 of each byte free ("1 bit per byte" domain)."""
    return [sum(((m >> k) & 1) << (8 * k) for k in range(nbytes)) for m in range(1 << nbytes)]


# ---------------------------------------------------------------------------------------------------------
# Generic instance with explicit port lists.

class FastNetlist(Netlist):
    """Same semantics as `Netlist` without the redundant combinational passes at the clock edge: `PortInst.apply`
    re-settles the combinational logic after driving the inputs and before anything is sampled or clocked, and
    `state_key()` reads registers only, so the edge just executes the sync statements and commits."""

    def tick(self, cds=("sys",)):
        ev = self.ev
        for cd in cds:
            if cd in self.sync:
                ev.execute(self.sync[cd])
        ev.commit()

    def settle(self):
        ev = self.ev
        ev.execute(self.comb)
        n = 0
        while ev.commit():
            ev.execute(self.comb)
            n += 1
            if n > 2000:
                raise RuntimeError("combinational logic does not settle (loop)")


class Packed:
    """Several signals presented to the model as one number (first signal lowest).  The widths are the ones the
    harness asked the constructor for, never `len(signal)`: a mis-sized signal must show as a disagreement."""
    def __init__(self, sigs, widths):
        self.sigs, self.widths = list(sigs), list(widths)


class PortInst:
    def __init__(self, name, module, lean_open, inputs, outputs, qual, alphabet=None, clocks=("sys",)):
        self.name = name
        self.module = module
        self.lean_open = lean_open
        self.netlist = FastNetlist(module, clocks=clocks)
        self.in_sigs = list(inputs)
        self.out_sigs = list(outputs)
        self.qual = list(qual)
        self.alphabet = alphabet or []
        self.inputs = None
        self.outputs = None
        self.last_letter = None
        self.last_outs = None
        self.stim = None          # closed-loop stimulus generator (object with .reset(), .next(rng, t, prev))
        self.mon_factory = None
        self.broken = None        # exception raised while driving the (changed) implementation

    def apply(self, letter):
        self.last_letter = letter
        if self.broken:
            return
        try:
            n = self.netlist
            for s, v in zip(self.in_sigs, letter):
                if isinstance(s, Packed):
                    sh = 0
                    for sig, w in zip(s.sigs, s.widths):
                        n.set(sig, (v >> sh) & ((1 << w) - 1))
                        sh += w
                else:
                    n.set(s, v)
            n.settle()
        except Exception as e:      # a changed implementation may fail while being driven
            self.broken = "%s: %s" % (type(e).__name__, e)

    def sample(self):
        if self.broken:
            self.last_outs = ["driving the implementation raised " + self.broken]
            return self.last_outs
        try:
            n = self.netlist
            outs = []
            for s in self.out_sigs:
                if isinstance(s, Packed):
                    v, sh = 0, 0
                    for sig, w in zip(s.sigs, s.widths):
                        v |= n.getu(sig) << sh
                        sh += w
                    outs.append(v)
                else:
                    outs.append(n.getu(s))
        except Exception as e:
            self.broken = "%s: %s" % (type(e).__name__, e)
            outs = ["driving the implementation raised " + self.broken]
        self.last_outs = outs
        return outs

    def nontrivial(self, letter, outs):
        try:
            return self.is_event(letter, outs)
        except Exception:
            return False

    def is_event(self, letter, outs):
        return False

    def gen(self, rng, t):
        if t == 0:
            self.stim.reset()
            prev = None
        else:
            prev = (self.last_letter, self.last_outs)
            if self.broken:
                prev = None
        return self.stim.next(rng, t, prev)

    def monitor(self):
        return GuardedMonitor(self.mon_factory(), self)


class GuardedMonitor:
    """A monitor must never crash the check: an exception while judging a (changed) implementation is reported."""
    def __init__(self, mon, inst):
        self.mon, self.inst = mon, inst

    def observe(self, letter, outs):
        if self.inst.broken:
            return "driving the implementation raised " + self.inst.broken
        try:
            return self.mon.observe(letter, outs)
        except Exception as e:
            return "monitor could not interpret the outputs (%s: %s)" % (type(e).__name__, e)


class _DummyNetlist:
    def snapshot(self):
        return {}

    def restore(self, snap):
        pass

    def state_key(self):
        return ()

    def tick(self, cds=("sys",)):
        pass


class BrokenInst:
    """Stands in for an instance whose construction raised: every step disagrees with the model, so the failure is
    reported as a correspondence break of this instance instead of crashing the whole check."""
    def __init__(self, name, lean_open, letter, why):
        self.name = name
        self.lean_open = lean_open
        self.netlist = _DummyNetlist()
        self.alphabet = [tuple(letter)]
        self.qual = [None]
        self.why = "building the implementation raised " + why
        self.inputs = self.outputs = None

    def apply(self, letter):
        pass

    def sample(self):
        return [self.why]

    def nontrivial(self, letter, outs):
        return False

    def gen(self, rng, t):
        return self.alphabet[0]


def _try(build, name, lean_open, letter):
    try:
        return build()
    except Exception as e:
        return BrokenInst(name, lean_open, letter, "%s: %s" % (type(e).__name__, e))


def guarded(make, name, lean_open, letter):
    """Wrap an instance factory: a constructor that raises (on a changed implementation) yields a BrokenInst."""
    def mk():
        try:
            return make()
        except Exception as e:
            return BrokenInst(name, lean_open, letter, "%s: %s" % (type(e).__name__, e))
    return mk


def closed_loop_run(inst, rng, cycles, monitor=True):
    """Run the real code with the instance's closed-loop generator and monitor; returns (trace, (t, msg)|None)."""
    from explore import impl_step
    n = inst.netlist
    root = n.snapshot()
    mon = inst.monitor() if monitor else None
    trace = []
    res = None
    for t in range(cycles):
        letter = inst.gen(rng, t)
        outs = impl_step(inst, letter)
        trace.append(tuple(letter))
        if mon is not None:
            m = mon.observe(letter, outs)
            if m:
                res = (t, m)
                break
    n.restore(root)
    return trace, res


def regime(rng, t, period=64):
    k = (t // period) % 6
    pv = (0.5, 0.9, 0.15, 1.0, 0.5, 1.0)[k]
    pr = (0.5, 0.15, 0.9, 1.0, 0.2, 0.5)[k]
    return pv, pr


# ---------------------------------------------------------------------------------------------------------
# Packet producer obeying the stream contract (holds valid and the beat until accepted).

class PacketProducer:
    """Produces packets (header values, payload beats).  `garbage`: what the lines carry while valid = 0:
       'hold' (last driven values), 'zero', or 'random' (incl. random `last`)."""
    def __init__(self, dw, hdr_max, min_len=1, max_len=8, garbage="hold", data_values=None, hdr_values=None,
                 hdr_per_beat=False):
        self.dw = dw
        self.hdr_max = hdr_max
        self.min_len, self.max_len = min_len, max_len
        self.garbage = garbage
        self.data_values = data_values
        self.hdr_values = hdr_values
        self.hdr_per_beat = hdr_per_beat
        self.reset()

    def reset(self):
        self.queue = []       # remaining beats of the current packet: (data, last, hdr tuple)
        self.cur = None       # beat being offered
        self.lines = (0, 0, tuple(0 for _ in self.hdr_max))

    def _new_packet(self, rng):
        n = rng.randint(self.min_len, self.max_len) if rng.random() < 0.8 else self.min_len
        if self.hdr_values is not None:
            hv = tuple(rng.choice(self.hdr_values))
        else:
            hv = tuple(rng.choice((0, m, rng.randint(0, m), rng.randint(0, m))) for m in self.hdr_max)
        for k in range(n):
            if self.data_values is not None:
                d = rng.choice(self.data_values)
            else:
                d = rng.randint(0, (1 << self.dw) - 1)
            self.queue.append((d, int(k == n - 1), hv))

    def next(self, rng, pv, accepted_prev):
        """Returns (valid, data, last, hdr tuple)."""
        if self.cur is not None and accepted_prev:
            self.cur = None
        if self.cur is None and rng.random() < pv:
            if not self.queue:
                self._new_packet(rng)
            self.cur = self.queue.pop(0)
        if self.cur is not None:
            self.lines = self.cur
            return (1,) + self.cur
        if self.garbage == "zero":
            self.lines = (0, 0, tuple(0 for _ in self.hdr_max))
        elif self.garbage == "random":
            self.lines = (rng.randint(0, (1 << self.dw) - 1), rng.randint(0, 1),
                          tuple(rng.randint(0, m) for m in self.hdr_max))
        elif self.garbage == "data":      # garbage on data/params, `last` low
            self.lines = (rng.randint(0, (1 << self.dw) - 1), 0, tuple(rng.randint(0, m) for m in self.hdr_max))
        return (0,) + self.lines


# ---------------------------------------------------------------------------------------------------------
# the optional `error` payload field (`source.error.eq(sink.error)` when both endpoints have it)

ERR_W = 2


class ErrStim:
    """Appends a random sink.error value (changing every cycle, also while valid = 0) to the wrapped stimulus."""
    def __init__(self, base):
        self.base = base

    def reset(self):
        self.base.reset()

    def next(self, rng, t, prev):
        if prev is not None and not isinstance(prev[1][0], str):
            prev = (prev[0][:-1], prev[1][:-1])
        return tuple(self.base.next(rng, t, prev)) + (rng.getrandbits(ERR_W),)


class ErrMonitor:
    """source.error is the sink's error line of the same cycle whenever the source is valid (0 when only the source
    has the field); everything else is judged by the wrapped monitor."""
    def __init__(self, base, both):
        self.base, self.both = base, both

    def observe(self, letter, outs):
        if outs[1]:
            want = letter[-1] if self.both else 0
            if outs[-1] != want:
                return "source.error = %r while sink.error = %r (%s)" % (
                    outs[-1], letter[-1], "pass-through expected" if self.both else "source-only field must stay 0")
        return self.base.observe(letter[:-1], outs[:-1])


def _err_layout(dw, error, side):
    lay = [("data", dw)]
    if error == "both" or (error == "source" and side == "source"):
        lay.append(("error", ERR_W))
    return lay


def _add_error(inst, m, error, letters):
    """Extend a Packetizer/Depacketizer instance by the error line: input last, output last."""
    both = error == "both"
    inst.in_sigs.append(m.sink.error if both else Signal(ERR_W))
    inst.out_sigs.append(m.source.error)
    inst.qual.append(1)
    inst.alphabet = [l + (e,) for l in letters for e in ((1, 2) if both else (0, 1))]      # both bits, distinguishable
    inst.stim = ErrStim(inst.stim)
    base_factory = inst.mon_factory
    inst.mon_factory = lambda: ErrMonitor(base_factory(), both)
    base_event = inst.is_event
    inst.is_event = lambda letter, o: base_event(letter[:-1], o[:-1])
    return inst


# ---------------------------------------------------------------------------------------------------------
# Packetizer

class PacketizerStim:
    def __init__(self, prod):
        self.prod = prod

    def reset(self):
        self.prod.reset()

    def next(self, rng, t, prev):
        pv, pr = regime(rng, t)
        acc = bool(prev and prev[0][0] and prev[1][0])
        v, d, l, hv = self.prod.next(rng, pv, acc)
        return (v, d, l) + tuple(hv) + (1 if rng.random() < pr else 0,)


class FramingMonitor:
    """Byte-stream framing oracle for the Packetizer: the delivered beats of a packet, flattened to bytes
    (lane 0 first), must be encode(header of the packet) ++ payload bytes (++ padding up to a whole beat), with
    `last` on the final beat only.  The producer must obey the stream contract; if it does not, the oracle
    stops judging."""
    def __init__(self, B, hdr):
        self.B = B
        self.hdr = hdr
        self.nf = len(hdr.table)
        self.off = False
        self.pending = None          # beat offered and not yet accepted
        self.exp = []                # expected bytes of the current packet, so far determined
        self.exp_complete = False    # all payload beats of the current packet have been accepted
        self.got = 0                 # bytes of the current packet delivered so far
        self.started = False         # header of the current packet known (first beat offered)
        self.stall = 0               # consecutive cycles: beat on offer, source ready, beat not accepted

    def observe(self, letter, outs):
        if self.off:
            return None
        v, d, l = letter[0:3]
        hv = tuple(letter[3:3 + self.nf])
        r = letter[3 + self.nf]
        sready, ovalid, odata, olast = outs[0:4]
        beat = (d, l, hv)
        if self.pending is not None and (not v or beat != self.pending):
            self.off = True          # producer broke the contract
            return None
        msg = None
        # progress: with a beat on offer (or a flush pending) and the source ready something must be delivered,
        # and the beat must be accepted once the header has gone out
        if r and not ovalid and (v or (self.started and self.exp_complete)):
            return "source ready and %s, but nothing is delivered (stuck)" % (
                "a beat on offer" if v else "the packet's last bytes still to be flushed")
        if v and r and not sready:
            self.stall += 1
            if self.stall > self.hdr.length // self.B + 3:
                return "beat on offer and source ready for %d cycles, beat never accepted" % self.stall
        else:
            self.stall = 0
        if v and not self.started:
            hb = self.hdr.ref_encode(hv)
            if hb is None:
                self.off = True
                return None
            self.exp = list(hb)
            self.started = True
            self.exp_complete = False
            self.got = 0
        # delivery is judged before this cycle's acceptance is added, except that a beat accepted in this very
        # cycle may be passed through combinationally
        if v and sready:
            self.exp += to_bytes(d, self.B)
            if l:
                self.exp_complete = True
        if ovalid and r:
            ob = to_bytes(odata, self.B)
            if not self.started:
                msg = "beat delivered although no packet was offered"
            else:
                for k, x in enumerate(ob):
                    p = self.got + k
                    if p < len(self.exp):
                        if x != self.exp[p]:
                            msg = "byte %d of the packet is 0x%02x, expected 0x%02x (header ++ payload)" % (p, x, self.exp[p])
                            break
                    elif not self.exp_complete:
                        msg = "byte %d of the packet delivered before the payload beat carrying it was accepted" % p
                        break
                self.got += self.B
                if msg is None:
                    final = self.exp_complete and self.got >= len(self.exp)
                    if olast and not final:
                        msg = "last asserted after %d of %s%d bytes (packet torn)" % (
                            self.got, "" if self.exp_complete else ">= ", len(self.exp))
                    elif final and not olast:
                        msg = "packet complete (%d bytes) but last not asserted" % len(self.exp)
                    if olast or final:
                        self.started = False
                        self.exp = []
                        self.exp_complete = False
                        self.got = 0
        self.pending = beat if (v and not sready) else None
        return msg


def packetizer_inst(name, B, H, fields, swap, data_values=None, hdr_values=None, garbage="hold",
                    min_len=1, max_len=8, alphabet=True, error=None):
    """error: None | 'both' (sink and source have an `error` field) | 'source' (only the source has it)"""
    dw = 8 * B
    hs = HdrSpec(fields, H, swap)
    nf = len(hs.table)
    lean_open = "packetizer %d %d %s" % (B, H, hs.lean_args())
    if error:
        lean_open = "packetizer_err %d %d %d %d %s" % (ERR_W, int(error == "both"), B, H, hs.lean_args())

    def build():
        sd = stream.EndpointDescription(_err_layout(dw, error, "sink"), hs.header.get_layout())
        rd = stream.EndpointDescription(_err_layout(dw, error, "source"))
        m = packet.Packetizer(sd, rd, hs.header)
        fsig = [getattr(m.sink, k) for k in hs.names]
        ins = [m.sink.valid, m.sink.data, m.sink.last] + fsig + [m.source.ready]
        outs = [m.sink.ready, m.source.valid, m.source.data, m.source.last]
        letters = []
        if alphabet:
            for v in (0, 1):
                for r in (0, 1):
                    for d in data_values:
                        for l in (0, 1):
                            for hv in hdr_values:
                                letters.append((v, d, l) + tuple(hv) + (r,))
        inst = PortInst(name, m, lean_open, ins, outs, [None, None, 1, 1], letters)
        inst.hdr = hs
        inst.is_event = lambda letter, o: bool((letter[0] and o[0]) or (o[1] and letter[3 + nf]))
        inst.stim = PacketizerStim(PacketProducer(dw, hs.max_vals(), min_len, max_len, garbage,
                                                  None if not alphabet else data_values,
                                                  None if not alphabet else hdr_values))
        inst.mon_factory = lambda: FramingMonitor(B, hs)
        if error:
            _add_error(inst, m, error, letters)
        return inst
    return _try(build, name, lean_open, (0,) * (4 + nf + (1 if error else 0)))


# ---------------------------------------------------------------------------------------------------------
# Depacketizer

class FramedProducer:
    """Produces already framed packets (raw beats with last) obeying the stream contract."""
    def __init__(self, dw, min_len, max_len, data_values=None, garbage="hold"):
        self.dw, self.min_len, self.max_len = dw, min_len, max_len
        self.data_values = data_values
        self.garbage = garbage
        self.reset()

    def reset(self):
        self.queue = []
        self.cur = None
        self.lines = (0, 0)

    def next(self, rng, pv, accepted_prev):
        if self.cur is not None and accepted_prev:
            self.cur = None
        if self.cur is None and rng.random() < pv:
            if not self.queue:
                n = rng.randint(self.min_len, self.max_len) if rng.random() < 0.8 else self.min_len
                for k in range(n):
                    d = rng.choice(self.data_values) if self.data_values else rng.randint(0, (1 << self.dw) - 1)
                    self.queue.append((d, int(k == n - 1)))
            self.cur = self.queue.pop(0)
        if self.cur is not None:
            self.lines = self.cur
            return (1,) + self.cur
        if self.garbage == "random":
            self.lines = (rng.randint(0, (1 << self.dw) - 1), rng.randint(0, 1))
        return (0,) + self.lines


class DepacketizerStim:
    def __init__(self, prod):
        self.prod = prod

    def reset(self):
        self.prod.reset()

    def next(self, rng, t, prev):
        pv, pr = regime(rng, t)
        acc = bool(prev and prev[0][0] and prev[1][0])
        v, d, l = self.prod.next(rng, pv, acc)
        return (v, d, l, 1 if rng.random() < pr else 0)


class DeframingMonitor:
    """Oracle for the Depacketizer: the accepted beats of a packet, flattened to bytes, are header (H bytes) ++
    payload.  Every delivered beat must carry the next B payload bytes and the decoded header fields of its
    packet; the number of delivered beats is the number of whole beats in the payload; last on the final one.
    Packets that do not contain at least one whole payload beat are outside the oracle (it resynchronises)."""
    def __init__(self, B, H, hdr):
        self.B, self.H, self.hdr = B, H, hdr
        self.inb = []          # bytes of the packet being received
        self.in_done = False
        self.queue = []        # completed-or-current packets: dicts
        self.cur = {"bytes": [], "done": False, "out": 0}
        self.pk = [self.cur]
        self.off = False

    def observe(self, letter, outs):
        if self.off:
            return None
        v, d, l, r = letter[0:4]
        sready, ovalid, odata, olast = outs[0:4]
        fields = outs[4:]
        msg = None
        if v and r and not sready:
            return "beat on offer and source ready, but sink.ready is low (stalled)"
        if v and sready:
            cur = self.pk[-1]
            cur["bytes"] += to_bytes(d, self.B)
            if l:
                cur["done"] = True
                nbeats = (len(cur["bytes"]) - self.H) // self.B if len(cur["bytes"]) >= self.H else 0
                if nbeats < 1:
                    self.off = True      # runt packet: outside the oracle
                    return None
                self.pk.append({"bytes": [], "done": False, "out": 0})
        if ovalid and r:
            p = self.pk[0]
            have = len(p["bytes"])
            lo = self.H + p["out"] * self.B
            if have < lo + self.B:
                msg = "payload beat %d delivered before its bytes were received" % p["out"]
            else:
                exp = p["bytes"][lo:lo + self.B]
                if to_bytes(odata, self.B) != exp:
                    msg = "payload beat %d is %s, expected %s" % (p["out"], to_bytes(odata, self.B), exp)
                want = self.hdr.ref_decode(p["bytes"][:self.H])
                if msg is None and want is not None and list(fields) != want:
                    msg = "header fields %s, expected %s" % (list(fields), want)
                p["out"] += 1
                if msg is None:
                    if p["done"]:
                        total = (have - self.H) // self.B
                        if olast and p["out"] != total:
                            msg = "last on payload beat %d of %d" % (p["out"], total)
                        elif not olast and p["out"] == total:
                            msg = "final payload beat without last"
                    elif olast:
                        # last may be asserted combinationally with the sink's last beat only
                        msg = "last asserted before the packet's last beat was received"
                    if olast:
                        self.pk.pop(0)
        return msg


def depacketizer_inst(name, B, H, fields, swap, data_values=None, min_len=None, max_len=None, alphabet=True,
                      garbage="hold", error=None):
    dw = 8 * B
    hs = HdrSpec(fields, H, swap)
    lean_open = "depacketizer %d %d %s" % (B, H, hs.lean_args())
    if error:
        lean_open = "depacketizer_err %d %d %d %d %s" % (ERR_W, int(error == "both"), B, H, hs.lean_args())

    def build():
        sd = stream.EndpointDescription(_err_layout(dw, error, "sink"))
        rd = stream.EndpointDescription(_err_layout(dw, error, "source"), hs.header.get_layout())
        m = packet.Depacketizer(sd, rd, hs.header)
        fsig = [getattr(m.source, k) for k in hs.names]
        ins = [m.sink.valid, m.sink.data, m.sink.last, m.source.ready]
        outs = [m.sink.ready, m.source.valid, m.source.data, m.source.last] + fsig
        letters = []
        if alphabet:
            for v in (0, 1):
                for r in (0, 1):
                    for d in data_values:
                        for l in (0, 1):
                            letters.append((v, d, l, r))
        inst = PortInst(name, m, lean_open, ins, outs, [None, None, 1, 1] + [1] * len(fsig), letters)
        inst.hdr = hs
        inst.is_event = lambda letter, o: bool((letter[0] and o[0]) or (o[1] and letter[3]))
        W = (8 * H) // dw
        lo = W + 2 if H % B else W + 1        # header beats + at least one whole payload beat
        inst.stim = DepacketizerStim(FramedProducer(dw, min_len or lo, max_len or lo + 6,
                                                    data_values if alphabet else None, garbage))
        inst.mon_factory = lambda: DeframingMonitor(B, H, hs)
        if error:
            _add_error(inst, m, error, letters)
        return inst
    return _try(build, name, lean_open, (0, 0, 0, 0) + ((0,) if error else ()))


# ---------------------------------------------------------------------------------------------------------
# Packetizer -> Depacketizer (the DUT of test_packet.py)

class RoundTripMonitor:
    """Scoreboard for Packetizer -> Depacketizer: every delivered beat is the oldest accepted beat not yet
    delivered (data, last) and carries the header fields of *its* packet's first beat."""
    def __init__(self, hdr, B=1):
        self.hdr = hdr
        self.nf = len(hdr.table)
        self.q = []
        self.pending = None
        self.cur_hdr = None
        self.off = False
        self.judge_hdr = hdr.ref_encode([0] * self.nf) is not None
        self.bound = hdr.length // B + 4      # header beats + realignment latency
        self.stall = 0                        # consecutive cycles: beat on offer, source ready, not accepted
        self.lag = 0                          # consecutive ready cycles with an accepted beat still undelivered

    def observe(self, letter, outs):
        if self.off:
            return None
        v, d, l = letter[0:3]
        hv = tuple(letter[3:3 + self.nf])
        r = letter[3 + self.nf]
        sready, ovalid, odata, olast = outs[0:4]
        fields = tuple(outs[4:])
        beat = (d, l, hv)
        if self.pending is not None and (not v or beat != self.pending):
            self.off = True
            return None
        if v and r and not sready:
            self.stall += 1
            if self.stall > self.bound:
                return "beat on offer and source ready for %d cycles, never accepted (stuck)" % self.stall
        else:
            self.stall = 0
        if len(self.q) > 1 and r and not ovalid:
            self.lag += 1
            if self.lag > self.bound:
                return "%d accepted beats undelivered although the source was ready for %d cycles" % (len(self.q), self.lag)
        elif ovalid and r:
            self.lag = 0
        if v and sready:
            if self.cur_hdr is None:
                self.cur_hdr = hv
            self.q.append((d, l, self.cur_hdr))
            if l:
                self.cur_hdr = None
        msg = None
        if ovalid and r:
            if not self.q:
                msg = "beat delivered that was never accepted"
            else:
                ed, el, eh = self.q.pop(0)
                if (odata, olast) != (ed, el):
                    msg = "delivered (data,last)=%r, expected %r" % ((odata, olast), (ed, el))
                elif self.judge_hdr and fields != eh:
                    msg = "delivered header fields %r, expected %r" % (fields, eh)
        self.pending = beat if (v and not sready) else None
        return msg


def pkdpk_inst(name, B, H, fields, swap, *a, **kw):
    hs = HdrSpec(fields, H, swap)
    return _try(lambda: _pkdpk_build(name, B, H, fields, swap, *a, **kw), name,
                "pkdpk %d %d %s" % (B, H, hs.lean_args()), (0,) * (4 + len(hs.table)))


def _pkdpk_build(name, B, H, fields, swap, data_values=None, hdr_values=None, garbage="hold", min_len=1,
                 max_len=8, alphabet=True, idle_garbage=True):
    dw = 8 * B
    hs = HdrSpec(fields, H, swap)
    pd = stream.EndpointDescription([("data", dw)], hs.header.get_layout())
    rd = stream.EndpointDescription([("data", dw)])

    class DUT(Module):
        def __init__(self):
            self.submodules.pk = packet.Packetizer(pd, rd, hs.header)
            self.submodules.dpk = packet.Depacketizer(rd, pd, hs.header)
            self.comb += self.pk.source.connect(self.dpk.sink)
            self.sink, self.source = self.pk.sink, self.dpk.source
    m = DUT()
    isig = [getattr(m.sink, k) for k in hs.names]
    osig = [getattr(m.source, k) for k in hs.names]
    ins = [m.sink.valid, m.sink.data, m.sink.last] + isig + [m.source.ready]
    outs = [m.sink.ready, m.source.valid, m.source.data, m.source.last] + osig
    letters = []
    if alphabet:
        for v in (0, 1):
            for r in (0, 1):
                if not v and not idle_garbage:
                    # the lines of an invalid sink only show the two extreme beats
                    letters.append((0, data_values[0], 0) + tuple(hdr_values[0]) + (r,))
                    letters.append((0, data_values[-1], 1) + tuple(hdr_values[-1]) + (r,))
                    continue
                for d in data_values:
                    for l in (0, 1):
                        for hv in hdr_values:
                            letters.append((v, d, l) + tuple(hv) + (r,))
    inst = PortInst(name, m, "pkdpk %d %d %s" % (B, H, hs.lean_args()), ins, outs,
                    [None, None, 1, 1] + [1] * len(osig), letters)
    inst.hdr = hs
    nf = len(hs.table)
    inst.is_event = lambda letter, o: bool((letter[0] and o[0]) or (o[1] and letter[3 + nf]))
    inst.stim = PacketizerStim(PacketProducer(dw, hs.max_vals(), min_len, max_len, garbage,
                                              None if not alphabet else data_values,
                                              None if not alphabet else hdr_values))
    inst.mon_factory = lambda: RoundTripMonitor(hs, B)
    return inst


# ---------------------------------------------------------------------------------------------------------
# PacketFIFO

class FifoStim:
    """Packets of 1..cap beats (cap = what the payload queue can hold); a packet of cap+1 beats blocks a
    store-and-forward FIFO for good (packetfifo_capacity), so over-long packets are offered only from cycle
    `overlong_from` on: the run exercises the live FIFO first and the capacity limit at its end."""
    def __init__(self, dwid, pwid, max_len, data_values=None, param_values=None, overlong_from=0):
        self.dwid, self.pwid, self.max_len = dwid, pwid, max_len
        self.data_values, self.param_values = data_values, param_values
        self.overlong_from = overlong_from
        self.reset()

    def reset(self):
        self.left = 0

    def next(self, rng, t, prev):
        pv, pr = regime(rng, t)
        if prev and prev[0][0] and prev[1][0]:      # previous beat accepted
            self.left -= 1
        if self.left <= 0:
            self.left = rng.randint(1, self.max_len if t >= self.overlong_from else max(1, self.max_len - 1))
        v = 1 if rng.random() < pv else 0
        d = rng.choice(self.data_values) if self.data_values else rng.randint(0, (1 << self.dwid) - 1)
        p = rng.choice(self.param_values) if self.param_values else rng.randint(0, (1 << self.pwid) - 1)
        l = 1 if self.left == 1 else 0
        if not v and rng.random() < 0.5:
            l = rng.randint(0, 1)               # garbage while invalid
        return (v, d, p, l, 1 if rng.random() < pr else 0)


class PacketFifoMonitor:
    """Per-packet param/payload association: source.valid only while a complete packet is stored; delivered
    beats are the accepted beats in order; every beat of a packet carries the params pushed with its last beat;
    at most payload_depth (+1 when buffered) beats are stored.  Progress: the sink is ready while fewer than
    payload_depth beats and fewer than param_depth+1 complete packets are stored; a stored complete packet shows
    at the source within 3 cycles.  `cap` = payload capacity, `pdepth` / `qdepth` = depths the two FIFOs must
    have according to the constructor arguments."""
    def __init__(self, cap, pdepth=None, qdepth=None):
        self.pd = cap
        self.pdepth, self.qdepth = pdepth, qdepth
        self.q = []            # accepted, undelivered beats: [data, last, param or None]
        self.open_from = 0     # index in q of the first beat of the packet still being received
        self.hidden = 0        # consecutive cycles: complete packet stored, source.valid low

    def observe(self, letter, outs):
        v, d, p, l, r = letter[0:5]
        sready, ovalid, odata, oparam, ofirst, olast = outs[0:6]
        msg = None
        ncomplete = sum(1 for b in self.q[:self.open_from] if b[1])
        if self.pdepth is not None and v and not sready and len(self.q) < self.pdepth and ncomplete < self.qdepth:
            return "sink.ready low although only %d beats / %d complete packets are stored (depths %d / %d)" % (
                len(self.q), ncomplete, self.pdepth, self.qdepth)
        if self.open_from > 0 and not ovalid:
            self.hidden += 1
            if self.hidden > 3:
                return "a complete packet has been stored for %d cycles but source.valid stays low" % self.hidden
        else:
            self.hidden = 0
        # the FIFO is store-and-forward: judge the source against what was stored before this cycle
        if ovalid:
            if self.open_from == 0:
                msg = "source.valid without a complete packet stored"
            else:
                ed, el, ep = self.q[0]
                if (odata, olast) != (ed, el):
                    msg = "source (data,last)=%r, expected %r" % ((odata, olast), (ed, el))
                elif oparam != ep:
                    msg = "source param %r, expected %r (param of the packet's last beat)" % (oparam, ep)
        if ovalid and r and msg is None:
            self.q.pop(0)
            self.open_from -= 1
        if v and sready:
            self.q.append([d, l, None])
            if l:
                for k in range(self.open_from, len(self.q)):
                    self.q[k][2] = p
                self.open_from = len(self.q)
        if msg is None and len(self.q) > self.pd:
            msg = "more than %d beats stored (payload_depth%s)" % (self.pd, " + output register" if self.pdepth != self.pd else "")
        return msg


def fifo_lean_open(pd, qd, buffered, legacy):
    """`legacy`: the depth >= 2 machines `packetFifo` / `packetFifoBuffered` (the ones packetfifo_atomic /
    packetfifo_buffered_atomic are stated about); otherwise `packetFifoAll`, which covers every depth and is proved
    equal to the legacy machines for depths >= 2."""
    qdepth = (qd if qd is not None else pd) + 1
    if legacy:
        return "packetfifo%s %d %d" % ("_buffered" if buffered else "", pd, qdepth)
    return "packetfifo_all %d %d %d" % (pd, qdepth, int(buffered))


def fifo_defect_region(pd, qd, buffered):
    """No PacketFIFO parameterisation is excluded any more (C16-packetfifo-buffered-param-depth0 is fixed)."""
    return False


def packetfifo_inst(name, pd, qd=None, buffered=False, *a, legacy=False, **kw):
    return _try(lambda: _packetfifo_build(name, pd, qd, buffered, *a, legacy=legacy, **kw), name,
                fifo_lean_open(pd, qd, buffered, legacy), (0, 0, 0, 0, 0))


def _packetfifo_build(name, pd, qd=None, buffered=False, dwid=1, pwid=1, data_values=(0, 1), param_values=(0, 1),
                      alphabet=True, tokens=None, max_len=None, legacy=False, overlong_from=0, noparam=False):
    """noparam: a layout without params (PacketFIFO then queues a 1-bit `dummy` param that is never connected);
    the param letter must be 0 and the param output is a constant 0."""
    layout = stream.EndpointDescription([("data", dwid)], [] if noparam else [("p", pwid)])
    m = packet.PacketFIFO(layout, payload_depth=pd, param_depth=qd, buffered=buffered)
    ins = [m.sink.valid, m.sink.data, Signal() if noparam else m.sink.p, m.sink.last, m.source.ready]
    outs = [m.sink.ready, m.source.valid, m.source.data, Signal() if noparam else m.source.p, m.source.first,
            m.source.last]
    letters = []
    if alphabet:
        toks = tokens or [(d, p, l) for d in data_values for p in param_values for l in (0, 1)]
        for r in (0, 1):
            letters.append((0, 0, 0, 0, r))       # nothing of an invalid sink is stored
            for (d, p, l) in toks:
                letters.append((1, d, p, l, r))
    qdepth = (qd if qd is not None else pd) + 1
    inst = PortInst(name, m, fifo_lean_open(pd, qd, buffered, legacy), ins, outs,
                    [None, None, 1, 1, 1, 1], letters)
    inst.is_event = lambda letter, o: bool((letter[0] and o[0]) or (o[1] and letter[4]))
    cap = pd + (1 if buffered and pd >= 2 else 0)
    inst.stim = FifoStim(dwid, pwid, max_len or cap + 1, data_values if alphabet else None,
                         (0,) if noparam else (param_values if alphabet else None), overlong_from)
    # stream.SyncFIFO ignores `buffered` below depth 2 (depth 1 = PipeValid register, depth 0 = wire)
    inst.mon_factory = lambda: PacketFifoMonitor(pd + (1 if buffered and pd >= 2 else 0), pd, qdepth)
    inst.defect_region = fifo_defect_region(pd, qd, buffered)
    return inst


# ---------------------------------------------------------------------------------------------------------
# Arbiter   (payload = data plus `first`, packed as data | first << dwid: `first` must be forwarded as well)

class ArbiterStim:
    """n independent packet sources; a source may pause (valid = 0) in the middle of a packet."""
    def __init__(self, n, pwid, max_len=4):
        self.n, self.pwid, self.max_len = n, pwid, max_len
        self.reset()

    def reset(self):
        self.left = [0] * self.n
        self.cur = [None] * self.n
        self.offered = [False] * self.n

    def next(self, rng, t, prev):
        pv, pr = regime(rng, t)
        letter = []
        for k in range(self.n):
            if prev and prev[0][3 * k] and prev[1][k]:
                self.cur[k] = None
                self.left[k] -= 1
                self.offered[k] = False
            if self.cur[k] is None and rng.random() < pv * (0.3 + 0.7 * ((t // 200 + k) % 2)):
                if self.left[k] <= 0:
                    self.left[k] = rng.randint(1, self.max_len)
                d = rng.choice((0, (1 << self.pwid) - 1, rng.getrandbits(self.pwid)))
                self.cur[k] = (d, 1 if self.left[k] == 1 else 0)
            # a source may pause between beats (also inside a packet) but holds a beat once it is on offer
            if self.cur[k] is not None and (self.offered[k] or rng.random() < 0.8):
                letter += [1, self.cur[k][0], self.cur[k][1]]
                self.offered[k] = True
            else:
                letter += [0, rng.getrandbits(self.pwid), rng.randint(0, 1)]
        letter.append(1 if rng.random() < pr else 0)
        return tuple(letter)


class ArbiterMonitor:
    """Single source per packet: each beat transferred to the slave comes from exactly one master, carries
    that master's beat (full width, `first` included), and after a non-last beat of master i the next
    transferred beat is master i's.  Progress and fairness: with no packet in progress, an offered beat is
    transferred within 3 ready cycles; while master k keeps offering a beat, the other masters together complete
    at most n-1 packets before k's beat is taken (round-robin bounded wait)."""
    def __init__(self, n):
        self.n = n
        self.owner = None
        self.idle_ready = 0            # consecutive cycles: no packet in progress, some valid, slave ready, no transfer
        self.waiting = [None] * n      # packets completed by others since master k started offering its beat
        self.pending = [None] * n      # beat offered and not yet taken (stream contract of the masters)
        self.live = True               # progress / fairness are judged only while every master obeys the contract

    def observe(self, letter, outs):
        n = self.n
        r = letter[3 * n]
        readys = outs[0:n]
        sv, sd, sl = outs[n:n + 3]
        takers = [k for k in range(n) if letter[3 * k] and readys[k]]
        msg = None
        if len(takers) > 1:
            return "beats of masters %r accepted in the same cycle" % takers
        if bool(takers) != bool(sv and r):
            return "master-side transfer %r but slave-side transfer %r" % (takers, bool(sv and r))
        for k in range(n):
            beat = tuple(letter[3 * k:3 * k + 3])
            if self.pending[k] is not None and beat != self.pending[k]:
                self.live = False       # a master withdrew or changed an offered beat
            self.pending[k] = beat if (beat[0] and not readys[k]) else None
        anyvalid = any(letter[3 * k] for k in range(n))
        if takers:
            k = takers[0]
            if (sd, sl) != (letter[3 * k + 1], letter[3 * k + 2]):
                msg = "slave got %r, master %d offered %r" % ((sd, sl), k, (letter[3 * k + 1], letter[3 * k + 2]))
            elif self.owner is not None and self.owner != k:
                msg = "beat of master %d inside a packet of master %d (interleaved)" % (k, self.owner)
            self.owner = None if sl else k
            self.idle_ready = 0
            if sl:
                for j in range(n):
                    if j != k and self.waiting[j] is not None:
                        self.waiting[j] += 1
                        if msg is None and self.live and self.waiting[j] > n - 1:
                            msg = "master %d kept offering a beat while the others completed %d packets (starved)" % (
                                j, self.waiting[j])
            self.waiting[k] = None
        else:
            if self.owner is None and anyvalid and r:
                self.idle_ready += 1
                if self.live and self.idle_ready > 3:
                    msg = "no packet in progress, a beat on offer and the slave ready for %d cycles: no transfer" % self.idle_ready
            else:
                self.idle_ready = 0
        for k in range(n):
            if letter[3 * k]:
                if self.waiting[k] is None and not (takers and takers[0] == k):
                    self.waiting[k] = 0
            else:
                self.waiting[k] = None      # the request was withdrawn (only a continuous request is bounded)
        return msg


def arbiter_inst(name, n, dwid=1, payload_values=(0, 1, 2, 3), alphabet=True):
    lean_open = "arbiter %d" % n
    pwid = dwid + 1

    def build():
        desc = stream.EndpointDescription([("data", dwid)])
        masters = [stream.Endpoint(desc) for _ in range(n)]
        slave = stream.Endpoint(desc)

        class DUT(Module):
            def __init__(self):
                self.submodules.arb = packet.Arbiter(list(masters), slave)
        m = DUT()
        ins = []
        for ep in masters:
            ins += [ep.valid, Packed([ep.data, ep.first], [dwid, 1]), ep.last]
        ins.append(slave.ready)
        # Arbiter([], slave) is `pass`: it has no `grant` at all; the model's constant 0 is compared with a dummy
        grant = m.arb.grant if n > 0 else Signal()
        outs = [ep.ready for ep in masters] + [slave.valid, Packed([slave.data, slave.first], [dwid, 1]), slave.last,
                                               grant]
        letters = []
        if alphabet:
            per = [(v, d, l) for v in (0, 1) for d in payload_values for l in (0, 1)]
            import itertools
            for combo in itertools.product(per, repeat=n):
                for r in (0, 1):
                    letters.append(tuple(x for c in combo for x in c) + (r,))
        inst = PortInst(name, m, lean_open, ins, outs, [None] * n + [None, n, n, None], letters)
        inst.is_event = lambda letter, o: bool(o[n] and letter[3 * n])
        inst.stim = ArbiterStim(n, pwid)
        inst.mon_factory = lambda: ArbiterMonitor(n)
        return inst
    return _try(build, name, lean_open, (0,) * (3 * n + 1))


# ---------------------------------------------------------------------------------------------------------
# Dispatcher

def sel_width(m_slaves, one_hot):
    """Width of `Dispatcher.sel` as the constructor arguments define it (one bit per slave when one_hot, else a
    binary index) — computed here, never read from the implementation."""
    if one_hot:
        return max(1, m_slaves)
    return max(1, (m_slaves - 1).bit_length())


class DispatcherStim:
    def __init__(self, m, one_hot, pwid, selw, max_len=4):
        self.m, self.one_hot, self.pwid, self.selw, self.max_len = m, one_hot, pwid, selw, max_len
        self.reset()

    def reset(self):
        self.left = 0
        self.cur = None
        self.sel = 0

    def next(self, rng, t, prev):
        pv, pr = regime(rng, t)
        if prev and prev[0][0] and prev[1][0]:
            self.cur = None
            self.left -= 1
        if self.cur is None and rng.random() < pv:
            if self.left <= 0:
                self.left = rng.randint(1, self.max_len)
            self.cur = (rng.choice((0, (1 << self.pwid) - 1, rng.getrandbits(self.pwid))), 1 if self.left == 1 else 0)
        if rng.random() < 0.3:               # the selector flips at any time, also in the middle of a packet
            if self.one_hot and rng.random() < 0.8:
                self.sel = 1 << rng.randrange(max(1, self.m))
            elif rng.random() < 0.7:
                self.sel = rng.randrange(max(1, self.m))
            else:
                self.sel = rng.randint(0, (1 << self.selw) - 1)
        if self.cur is not None:
            beat = (1,) + self.cur
        else:
            beat = (0, rng.getrandbits(self.pwid), rng.randint(0, 1))
        return beat + (self.sel,) + tuple(1 if rng.random() < pr else 0 for _ in range(self.m))


class DispatcherMonitor:
    """One destination per packet: every transferred beat goes to at most one slave and arrives unchanged (full
    width, `first` included); the destination of a packet's first beat is the slave addressed by `sel` in the
    cycle of that transfer (no slave if `sel` addresses none: the packet is drained); all further beats up to
    `last` go to the same place.  Progress: a beat offered to a ready slave (or to nobody) is taken in that very
    cycle.  `plain` = one slave without one_hot: the constructor connects master and slave directly."""
    def __init__(self, m, one_hot, plain=False):
        self.m, self.one_hot, self.plain = m, one_hot, plain
        self.dest = "none-yet"       # destination of the packet in progress

    def observe(self, letter, outs):
        m = self.m
        v, d, l, sel = letter[0:4]
        mready = outs[0]
        sl = [tuple(outs[1 + 3 * k:4 + 3 * k]) for k in range(m)]
        active = [k for k in range(m) if sl[k][0]]
        if len(active) > 1:
            return "beat presented to slaves %r at once" % active
        if active and not v:
            return "slave %d sees valid without master.valid" % active[0]
        if v:
            # progress: the beat is visible somewhere or drained, and a ready destination takes it now
            if active and letter[4 + active[0]] and not mready:
                return "slave %d is ready but master.ready is low" % active[0]
            if not active and not mready and m > 0:      # without any slave there is nothing to demand
                return "beat presented to no slave and not drained (master.ready low)"
        if not (v and mready):
            return None
        # a beat is transferred at the master
        dest = active[0] if active else None
        if dest is not None:
            if not letter[4 + dest]:
                return "master beat accepted but slave %d was not ready" % dest
            if sl[dest][1:] != (d, l):
                return "slave %d got %r, master sent %r" % (dest, sl[dest][1:], (d, l))
        msg = None
        if self.plain:
            if dest != 0:
                msg = "single slave without one_hot: beat went to %r" % (dest,)
        elif self.dest == "none-yet":
            keys = [(1 << k) if self.one_hot else k for k in range(m)]
            want = keys.index(sel) if sel in keys else None
            if dest != want:
                msg = "first beat went to %r, sel=%d addresses %r" % (dest, sel, want)
        elif dest != self.dest:
            msg = "packet started towards %r, beat delivered to %r (torn)" % (self.dest, dest)
        self.dest = "none-yet" if l else dest
        return msg


def dispatcher_inst(name, m_slaves, one_hot=False, dwid=1, payload_values=(0, 1, 2, 3), alphabet=True,
                    sel_values=None):
    lean_open = "dispatcher %d %d" % (m_slaves, int(one_hot))
    pwid = dwid + 1
    selw = sel_width(m_slaves, one_hot)

    def build():
        desc = stream.EndpointDescription([("data", dwid)])
        master = stream.Endpoint(desc)
        slaves = [stream.Endpoint(desc) for _ in range(m_slaves)]

        class DUT(Module):
            def __init__(self):
                self.submodules.disp = packet.Dispatcher(master, list(slaves), one_hot=one_hot)
        m = DUT()
        sel = m.disp.sel
        ins = [master.valid, Packed([master.data, master.first], [dwid, 1]), master.last, sel] + \
              [ep.ready for ep in slaves]
        outs = [master.ready]
        qual = [None]
        for k, ep in enumerate(slaves):
            outs += [ep.valid, Packed([ep.data, ep.first], [dwid, 1]), ep.last]
            qual += [None, 1 + 3 * k, 1 + 3 * k]
        letters = []
        if alphabet:
            import itertools
            sv = sel_values if sel_values is not None else list(range(1 << selw))
            for v in (0, 1):
                for d in payload_values:
                    for l in (0, 1):
                        for sx in sv:
                            for rs in itertools.product((0, 1), repeat=m_slaves):
                                letters.append((v, d, l, sx) + rs)
        inst = PortInst(name, m, lean_open, ins, outs, qual, letters)
        inst.is_event = lambda letter, o: bool(letter[0] and o[0])
        inst.stim = DispatcherStim(m_slaves, one_hot, pwid, selw)
        inst.mon_factory = lambda: DispatcherMonitor(m_slaves, one_hot, plain=(m_slaves == 1 and not one_hot))
        return inst
    return _try(build, name, lean_open, (0,) * (4 + m_slaves))
