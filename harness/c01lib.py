"""C01 support library: FHDL AST serialiser, recursive-descent parser for the Verilog subset emitted by
litex/gen/fhdl/{expression,verilog}.py, grammar-based random FHDL generators.

Token formats (prefix notation, blank separated) understood by lean/LitexModel/Fhdl/Syntax.lean:
  FHDL expr    : C v w s | S id w s | U neg|not a | B op a b | M c a b | L lo hi a | K n e.. | R n a
  Verilog expr : l w s v | i id w s | u neg|not a | b op a b | t c a b | p hi lo a | q i a | k n e.. | r n a | g a
  FHDL stmt    : A <lhs-expr> <rhs-expr> | I <cond> <nT> stmts.. <nF> stmts.. | W <test> <nitems> (key kw ks <n> stmts..).. <hasdefault 0/1> [<n> stmts..]
  Verilog stmt : a nb|bl <lhs-vexpr> <rhs-vexpr> | f <cond> <nT> .. <nF> .. | w <test> <nitems> (<item-vexpr> <n> ..).. <hasdefault> [<n> ..]
"""
import re
import envshim  # noqa: F401
from migen.fhdl.structure import (Signal, Constant, Cat, Replicate, If, Case, Mux, _Operator, _Slice, _Assign,
                                  _ArrayProxy, ClockSignal, ResetSignal, _Part)
from migen.fhdl.bitcontainer import value_bits_sign

OPNAME = {"+": "add", "-": "sub", "*": "mul", "<<<": "shl", ">>>": "shr", "&": "and", "^": "xor", "|": "or",
          "<": "lt", "<=": "le", "==": "eq", "!=": "ne", ">": "gt", ">=": "ge"}


class Unsupported(Exception):
    pass


class SigIds:
    """Signal -> small integer id (identity based), with the declared width/sign."""

    def __init__(self):
        self.ids = {}
        self.sigs = []

    def get(self, s):
        k = id(s)
        if k not in self.ids:
            self.ids[k] = len(self.sigs)
            self.sigs.append(s)
        return self.ids[k]

    def __len__(self):
        return len(self.sigs)


# ----------------------------------------------------------------------------------------------------------
# FHDL -> tokens
# ----------------------------------------------------------------------------------------------------------

def ser_expr(node, ids, out=None):
    """Serialise an FHDL value tree (as it is after lowering: no _ArrayProxy/_Part/ClockSignal)."""
    top = out is None
    if top:
        out = []
    if isinstance(node, Constant):
        out += ["C", str(node.value), str(node.nbits), "1" if node.signed else "0"]
    elif isinstance(node, Signal):
        out += ["S", str(ids.get(node)), str(node.nbits), "1" if node.signed else "0"]
    elif isinstance(node, _Operator):
        n = len(node.operands)
        if n == 1:
            if node.op == "-":
                out += ["U", "neg"]
            elif node.op == "~":
                out += ["U", "not"]
            else:
                raise Unsupported("unary " + node.op)
            ser_expr(node.operands[0], ids, out)
        elif n == 2:
            if node.op not in OPNAME:
                raise Unsupported("binary " + node.op)
            out += ["B", OPNAME[node.op]]
            ser_expr(node.operands[0], ids, out)
            ser_expr(node.operands[1], ids, out)
        elif n == 3 and node.op == "m":
            out += ["M"]
            for o in node.operands:
                ser_expr(o, ids, out)
        else:
            raise Unsupported("operator " + node.op)
    elif isinstance(node, _Slice):
        out += ["L", str(node.start), str(node.stop)]
        ser_expr(node.value, ids, out)
    elif isinstance(node, Cat):
        out += ["K", str(len(node.l))]
        for e in node.l:
            ser_expr(e, ids, out)
    elif isinstance(node, Replicate):
        out += ["R", str(node.n)]
        ser_expr(node.v, ids, out)
    else:
        raise Unsupported(type(node).__name__)
    return out


def ser_stmts(stmts, ids, out):
    """Serialise a (nested) statement list; returns the number of statements emitted."""
    n = 0
    for s in stmts:
        if isinstance(s, _Assign):
            out += ["A"]
            ser_expr(s.l, ids, out)
            ser_expr(s.r, ids, out)
            n += 1
        elif isinstance(s, If):
            out += ["I"]
            ser_expr(s.cond, ids, out)
            for branch in (s.t, s.f):
                sub = []
                k = ser_stmts(branch, ids, sub)
                out += [str(k)] + sub
            n += 1
        elif isinstance(s, Case):
            out += ["W"]
            ser_expr(s.test, ids, out)
            items = [(k, v) for k, v in s.cases.items() if isinstance(k, Constant)]
            out += [str(len(items))]
            for k, v in items:
                sub = []
                c = ser_stmts(v, ids, sub)
                out += [str(k.value), str(k.nbits), "1" if k.signed else "0", str(c)] + sub
            if "default" in s.cases:
                sub = []
                c = ser_stmts(s.cases["default"], ids, sub)
                out += ["1", str(c)] + sub
            else:
                out += ["0"]
            n += 1
        elif isinstance(s, (list, tuple)):
            n += ser_stmts(s, ids, out)
        else:
            raise Unsupported("statement " + type(s).__name__)
    return n


# ----------------------------------------------------------------------------------------------------------
# Verilog text -> tokens
# ----------------------------------------------------------------------------------------------------------

_TOKEN = re.compile(r"""
    (?P<ws>\s+|//[^\n]*|/\*.*?\*/|\(\*.*?\*\))
  | (?P<lit>\d+'s?d\d+)
  | (?P<num>\d+)
  | (?P<id>[A-Za-z_$][A-Za-z0-9_$]*)
  | (?P<str>"[^"]*")
  | (?P<op><<<|>>>|<=|>=|==|!=|[-+*&|^~<>?:,;(){}\[\]=@.\#`])
""", re.X | re.S)

VBIN = {"+": "add", "-": "sub", "*": "mul", "<<<": "shl", ">>>": "shr", "&": "and", "^": "xor", "|": "or",
        "<": "lt", "<=": "le", "==": "eq", "!=": "ne", ">": "gt", ">=": "ge"}


class ParseError(Exception):
    pass


def lex(text):
    pos = 0
    toks = []
    n = len(text)
    while pos < n:
        m = _TOKEN.match(text, pos)
        if not m:
            raise ParseError("cannot lex at %r" % text[pos:pos + 30])
        pos = m.end()
        k = m.lastgroup
        if k == "ws":
            continue
        toks.append((k, m.group(k)))
    return toks


class VParser:
    """names: identifier -> (id, width, signed)."""

    def __init__(self, toks, names):
        self.t = toks
        self.p = 0
        self.names = names

    def peek(self, k=0):
        return self.t[self.p + k] if self.p + k < len(self.t) else ("eof", "")

    def next(self):
        tok = self.peek()
        self.p += 1
        return tok

    def accept(self, val):
        if self.peek()[1] == val and self.peek()[0] in ("op", "id"):
            self.p += 1
            return True
        return False

    def expect(self, val):
        tok = self.next()
        if tok[1] != val:
            raise ParseError("expected %r, got %r (token %d)" % (val, tok[1], self.p - 1))

    def at_end(self):
        return self.p >= len(self.t)

    # expr := operand [ binop operand | '?' operand ':' operand ]
    def expr(self, out):
        first = []
        self.operand(first)
        k, v = self.peek()
        if k == "op" and v in VBIN:
            self.next()
            out += ["b", VBIN[v]] + first
            self.operand(out)
        elif k == "op" and v == "?":
            self.next()
            out += ["t"] + first
            self.operand(out)
            self.expect(":")
            self.operand(out)
        else:
            out += first

    def operand(self, out):
        k, v = self.peek()
        if k == "op" and v == "-":
            self.next()
            out += ["u", "neg"]
            self.operand(out)
        elif k == "op" and v == "~":
            self.next()
            out += ["u", "not"]
            self.operand(out)
        else:
            self.primary(out)

    def primary(self, out):
        k, v = self.next()
        base = []
        if k == "op" and v == "(":
            self.expr(base)
            self.expect(")")
        elif k == "lit":
            m = re.match(r"(\d+)'(s?)d(\d+)$", v)
            base += ["l", m.group(1), "1" if m.group(2) else "0", m.group(3)]
        elif k == "id" and v == "$signed":
            self.expect("(")
            base += ["g"]
            self.expr(base)
            self.expect(")")
        elif k == "id":
            if v not in self.names:
                raise ParseError("unknown identifier %r" % v)
            i, w, s = self.names[v]
            base += ["i", str(i), str(w), "1" if s else "0"]
        elif k == "op" and v == "{":
            if self.peek()[0] == "num" and self.peek(1)[1] == "{":
                n = self.next()[1]
                self.expect("{")
                base += ["r", n]
                self.expr(base)
                self.expect("}")
                self.expect("}")
            else:
                elems = []
                cnt = 0
                while True:
                    self.expr(elems)
                    cnt += 1
                    if self.accept(","):
                        continue
                    self.expect("}")
                    break
                base += ["k", str(cnt)] + elems
        else:
            raise ParseError("unexpected token %r" % v)
        # postfix selects
        while self.peek() == ("op", "["):
            self.next()
            k1, a = self.next()
            if k1 != "num":
                raise ParseError("non-constant select")
            if self.accept(":"):
                k2, b = self.next()
                if k2 != "num":
                    raise ParseError("non-constant select")
                base = ["p", a, b] + base
            else:
                base = ["q", a] + base
            self.expect("]")
        out += base


def parse_vexpr(text, names):
    p = VParser(lex(text), names)
    out = []
    p.expr(out)
    if not p.at_end():
        raise ParseError("trailing tokens after expression: %r" % (p.peek(),))
    return out


# ----------------------------------------------------------------------------------------------------------
# Expression-level real-code access
# ----------------------------------------------------------------------------------------------------------

class FlatNS:
    """Namespace stand-in for `_generate_expression(ns, node)`: signal -> 's<id>'."""

    def __init__(self, ids):
        self.ids = ids

    def get_name(self, s):
        return "s%d" % self.ids.get(s)

    def names(self):
        return {"s%d" % k: (k, s.nbits, s.signed) for k, s in enumerate(self.ids.sigs)}


def truncate(value, nbits, signed):
    value &= (1 << nbits) - 1
    if signed and value >> (nbits - 1):
        value -= 1 << nbits
    return value


# ----------------------------------------------------------------------------------------------------------
# Random expressions
# ----------------------------------------------------------------------------------------------------------

ARITH = ["+", "-", "*"]
BITW = ["&", "|", "^"]
CMP = ["<", "<=", "==", "!=", ">", ">="]


class ExprGen:
    """Grammar-based random FHDL expressions over a pool of signals (operators x signedness mixes x widths,
    nested slices/Cat/Replicate).  `lowered=True` restricts slices to signals (the shape that reaches the
    printer after lower_complex_slices)."""

    def __init__(self, rng, sigs, lowered=True, maxw=24):
        self.rng = rng
        self.sigs = sigs
        self.lowered = lowered
        self.maxw = maxw

    def const(self):
        r = self.rng
        k = r.random()
        if k < 0.5:
            return Constant(r.randrange(0, 1 << r.randint(1, 6)))
        if k < 0.75:
            return Constant(-r.randrange(1, 1 << r.randint(1, 5)))
        w = r.randint(1, 8)
        if k < 0.9:
            return Constant(r.randrange(0, 1 << w), w)
        return Constant(r.randrange(-(1 << (w - 1)), 1 << (w - 1)), (w, True))

    def leaf(self):
        r = self.rng
        if r.random() < 0.75:
            return r.choice(self.sigs)
        return self.const()

    def slice_of(self, v):
        r = self.rng
        n = len(v)
        lo = r.randrange(0, n)
        hi = r.randint(lo + 1, n)
        return _Slice(v, lo, hi)

    def gen(self, depth):
        r = self.rng
        if depth <= 0 or r.random() < 0.15:
            return self.leaf()
        k = r.random()
        if k < 0.25:
            e = _Operator(r.choice(ARITH), [self.gen(depth - 1), self.gen(depth - 1)])
        elif k < 0.40:
            e = _Operator(r.choice(BITW), [self.gen(depth - 1), self.gen(depth - 1)])
        elif k < 0.55:
            e = _Operator(r.choice(CMP), [self.gen(depth - 1), self.gen(depth - 1)])
        elif k < 0.63:
            e = _Operator(r.choice(["~", "~", "-"]), [self.gen(depth - 1)])
        elif k < 0.70:
            amt = r.choice([Constant(r.randint(0, 5)), self.small_unsigned()])
            e = _Operator(r.choice(["<<<", ">>>"]), [self.gen(depth - 1), amt])
        elif k < 0.78:
            e = Mux(self.gen(depth - 1), self.gen(depth - 1), self.gen(depth - 1))
        elif k < 0.86:
            if self.lowered:
                e = self.slice_of(r.choice(self.sigs))
            else:
                e = self.slice_of(self.gen(depth - 1))
        elif k < 0.95:
            e = Cat(*[self.gen(depth - 1) for _ in range(r.randint(1, 3))])
        else:
            e = Replicate(self.gen(depth - 1), r.randint(1, 3))
        if len(e) > self.maxw:
            return self.leaf()
        return e

    def small_unsigned(self):
        c = [s for s in self.sigs if not s.signed and s.nbits <= 3]
        if c:
            return self.rng.choice(c)
        return Constant(self.rng.randint(0, 3))


def make_sigs(rng, n, maxw=9, p_signed=0.35, prefix="s"):
    sigs = []
    for k in range(n):
        w = rng.randint(1, maxw)
        signed = rng.random() < p_signed
        sigs.append(Signal((w, signed), name_override="%s%d" % (prefix, k)))
    return sigs


def sig_range(s):
    if s.signed:
        return range(-(1 << (s.nbits - 1)), 1 << (s.nbits - 1))
    return range(0, 1 << s.nbits)


def used_signals(node, acc=None):
    """Signals occurring in an expression (in first-occurrence order)."""
    if acc is None:
        acc = []
    if isinstance(node, Signal):
        if not any(node is x for x in acc):
            acc.append(node)
    elif isinstance(node, _Operator):
        for o in node.operands:
            used_signals(o, acc)
    elif isinstance(node, _Slice):
        used_signals(node.value, acc)
    elif isinstance(node, Cat):
        for o in node.l:
            used_signals(o, acc)
    elif isinstance(node, Replicate):
        used_signals(node.v, acc)
    return acc
