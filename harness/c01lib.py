"""C01 support library: FHDL AST serialiser, recursive-descent parser for the Verilog subset emitted by
litex/gen/fhdl/{expression,verilog}.py, grammar-based random FHDL generators.

Token formats (prefix notation, blank separated) understood by lean/LitexModel/Fhdl/Syntax.lean:
  FHDL expr    : C v w s | S id w s | U neg|not a | B op a b | M c a b | L lo hi a | K n e.. | R n a
  Verilog expr : l w s v | i id w s | u neg|not a | b op a b | t c a b | p hi lo a | q i a | k n e.. | r n a | g a
  FHDL stmt    : A <lhs-expr> <rhs-expr> | I <cond> <nT> stmts.. <nF> stmts.. | W <test> <nitems> (key kw ks <n> stmts..).. <hasdefault 0/1> [<n> stmts..]
  Verilog stmt : a nb|bl <lhs-vexpr> <rhs-vexpr> | f <cond> <nT> .. <nF> .. | w <test> <nitems> (<item-vexpr> <n> ..).. <hasdefault> [<n> ..]
"""
import re
import envshim  # noqa: F401
from migen.fhdl.structure import (Signal, Constant, Cat, Replicate, If, Case, Mux, _Operator, _Slice, _Assign,
                                  _ArrayProxy, ClockSignal, ResetSignal, _Part)
from migen.fhdl.bitcontainer import value_bits_sign

OPNAME = {"+": "add", "-": "sub", "*": "mul", "<<<": "shl", ">>>": "shr", "&": "and", "^": "xor", "|": "or",
          "<": "lt", "<=": "le", "==": "eq", "!=": "ne", ">": "gt", ">=": "ge"}


class Unsupported(Exception):
    pass


class SigIds:
    """Signal -> small integer id (identity based), with the declared width/sign."""

    def __init__(self):
        self.ids = {}
        self.sigs = []

    def get(self, s):
        k = id(s)
        if k not in self.ids:
            self.ids[k] = len(self.sigs)
            self.sigs.append(s)
        return self.ids[k]

    def __len__(self):
        return len(self.sigs)


# ----------------------------------------------------------------------------------------------------------
# FHDL -> tokens
# ----------------------------------------------------------------------------------------------------------

def ser_expr(node, ids, out=None):
    """Serialise an FHDL value tree (as it is after lowering: no _ArrayProxy/_Part/ClockSignal)."""
    top = out is None
    if top:
        out = []
    if isinstance(node, Constant):
        out += ["C", str(node.value), str(node.nbits), "1" if node.signed else "0"]
    elif isinstance(node, Signal):
        out += ["S", str(ids.get(node)), str(node.nbits), "1" if node.signed else "0"]
    elif isinstance(node, _Operator):
        n = len(node.operands)
        if n == 1:
            if node.op == "-":
                out += ["U", "neg"]
            elif node.op == "~":
                out += ["U", "not"]
            else:
                raise Unsupported("unary " + node.op)
            ser_expr(node.operands[0], ids, out)
        elif n == 2:
            if node.op not in OPNAME:
                raise Unsupported("binary " + node.op)
            out += ["B", OPNAME[node.op]]
            ser_expr(node.operands[0], ids, out)
            ser_expr(node.operands[1], ids, out)
        elif n == 3 and node.op == "m":
            out += ["M"]
            for o in node.operands:
                ser_expr(o, ids, out)
        else:
            raise Unsupported("operator " + node.op)
    elif isinstance(node, _Slice):
        out += ["L", str(node.start), str(node.stop)]
        ser_expr(node.value, ids, out)
    elif isinstance(node, Cat):
        out += ["K", str(len(node.l))]
        for e in node.l:
            ser_expr(e, ids, out)
    elif isinstance(node, Replicate):
        out += ["R", str(node.n)]
        ser_expr(node.v, ids, out)
    else:
        raise Unsupported(type(node).__name__)
    return out


def ser_stmts(stmts, ids, out):
    """Serialise a (nested) statement list; returns the number of statements emitted."""
    n = 0
    for s in stmts:
        if isinstance(s, _Assign):
            out += ["A"]
            ser_expr(s.l, ids, out)
            ser_expr(s.r, ids, out)
            n += 1
        elif isinstance(s, If):
            out += ["I"]
            ser_expr(s.cond, ids, out)
            for branch in (s.t, s.f):
                sub = []
                k = ser_stmts(branch, ids, sub)
                out += [str(k)] + sub
            n += 1
        elif isinstance(s, Case):
            out += ["W"]
            ser_expr(s.test, ids, out)
            items = [(k, v) for k, v in s.cases.items() if isinstance(k, Constant)]
            out += [str(len(items))]
            for k, v in items:
                sub = []
                c = ser_stmts(v, ids, sub)
                out += [str(k.value), str(k.nbits), "1" if k.signed else "0", str(c)] + sub
            if "default" in s.cases:
                sub = []
                c = ser_stmts(s.cases["default"], ids, sub)
                out += ["1", str(c)] + sub
            else:
                out += ["0"]
            n += 1
        elif isinstance(s, (list, tuple)):
            n += ser_stmts(s, ids, out)
        else:
            raise Unsupported("statement " + type(s).__name__)
    return n


# ----------------------------------------------------------------------------------------------------------
# Verilog text -> tokens
# ----------------------------------------------------------------------------------------------------------

_TOKEN = re.compile(r"""
    (?P<ws>\s+|//[^\n]*|/\*.*?\*/|\(\*(?!\)).*?\*\))
  | (?P<lit>\d+'s?d\d+)
  | (?P<num>\d+)
  | (?P<id>[A-Za-z_$][A-Za-z0-9_$]*)
  | (?P<str>"[^"]*")
  | (?P<op><<<|>>>|<=|>=|==|!=|[-+*&|^~<>?:,;(){}\[\]=@.\#`!])
""", re.X | re.S)

VBIN = {"+": "add", "-": "sub", "*": "mul", "<<<": "shl", ">>>": "shr", "&": "and", "^": "xor", "|": "or",
        "<": "lt", "<=": "le", "==": "eq", "!=": "ne", ">": "gt", ">=": "ge"}


class ParseError(Exception):
    pass


def lex(text):
    pos = 0
    toks = []
    n = len(text)
    while pos < n:
        m = _TOKEN.match(text, pos)
        if not m:
            raise ParseError("cannot lex at %r" % text[pos:pos + 30])
        pos = m.end()
        k = m.lastgroup
        if k == "ws":
            continue
        toks.append((k, m.group(k)))
    return toks


class VParser:
    """names: identifier -> (id, width, signed)."""

    def __init__(self, toks, names):
        self.t = toks
        self.p = 0
        self.names = names
        self.mems = {}

    def peek(self, k=0):
        return self.t[self.p + k] if self.p + k < len(self.t) else ("eof", "")

    def next(self):
        tok = self.peek()
        self.p += 1
        return tok

    def accept(self, val):
        if self.peek()[1] == val and self.peek()[0] in ("op", "id"):
            self.p += 1
            return True
        return False

    def expect(self, val):
        tok = self.next()
        if tok[1] != val:
            raise ParseError("expected %r, got %r (token %d)" % (val, tok[1], self.p - 1))

    def at_end(self):
        return self.p >= len(self.t)

    # expr := operand [ binop operand | '?' operand ':' operand ]
    def expr(self, out):
        first = []
        self.operand(first)
        k, v = self.peek()
        if k == "op" and v in VBIN:
            self.next()
            out += ["b", VBIN[v]] + first
            self.operand(out)
        elif k == "op" and v == "?":
            self.next()
            out += ["t"] + first
            self.operand(out)
            self.expect(":")
            self.operand(out)
        else:
            out += first

    def operand(self, out):
        k, v = self.peek()
        if k == "op" and v == "-":
            self.next()
            out += ["u", "neg"]
            self.operand(out)
        elif k == "op" and v == "~":
            self.next()
            out += ["u", "not"]
            self.operand(out)
        elif k == "op" and v == "!":
            self.next()
            out += ["u", "lnot"]
            self.operand(out)
        else:
            self.primary(out)

    def primary(self, out):
        k, v = self.next()
        base = []
        if k == "op" and v == "(":
            self.expr(base)
            self.expect(")")
        elif k == "lit":
            m = re.match(r"(\d+)'(s?)d(\d+)$", v)
            base += ["l", m.group(1), "1" if m.group(2) else "0", m.group(3)]
        elif k == "id" and v == "$signed":
            self.expect("(")
            base += ["g"]
            self.expr(base)
            self.expect(")")
        elif k == "id" and v in getattr(self, "mems", {}):
            mi, mw, md = self.mems[v]
            self.expect("[")
            base += ["M", str(mi), str(mw)]
            self.expr(base)
            self.expect("]")
        elif k == "id":
            if v not in self.names:
                raise ParseError("unknown identifier %r" % v)
            i, w, s = self.names[v]
            base += ["i", str(i), str(w), "1" if s else "0"]
        elif k == "op" and v == "{":
            if self.peek()[0] == "num" and self.peek(1)[1] == "{":
                n = self.next()[1]
                self.expect("{")
                base += ["r", n]
                self.expr(base)
                self.expect("}")
                self.expect("}")
            else:
                elems = []
                cnt = 0
                while True:
                    self.expr(elems)
                    cnt += 1
                    if self.accept(","):
                        continue
                    self.expect("}")
                    break
                base += ["k", str(cnt)] + elems
        else:
            raise ParseError("unexpected token %r" % v)
        # postfix selects
        while self.peek() == ("op", "["):
            self.next()
            k1, a = self.next()
            if k1 != "num":
                raise ParseError("non-constant select")
            if self.accept(":"):
                k2, b = self.next()
                if k2 != "num":
                    raise ParseError("non-constant select")
                base = ["p", a, b] + base
            else:
                base = ["q", a] + base
            self.expect("]")
        out += base


def parse_vexpr(text, names):
    p = VParser(lex(text), names)
    out = []
    p.expr(out)
    if not p.at_end():
        raise ParseError("trailing tokens after expression: %r" % (p.peek(),))
    return out


# ----------------------------------------------------------------------------------------------------------
# Expression-level real-code access
# ----------------------------------------------------------------------------------------------------------

class FlatNS:
    """Namespace stand-in for `_generate_expression(ns, node)`: signal -> 's<id>'."""

    def __init__(self, ids):
        self.ids = ids

    def get_name(self, s):
        return "s%d" % self.ids.get(s)

    def names(self):
        return {"s%d" % k: (k, s.nbits, s.signed) for k, s in enumerate(self.ids.sigs)}


def truncate(value, nbits, signed):
    value &= (1 << nbits) - 1
    if signed and value >> (nbits - 1):
        value -= 1 << nbits
    return value


# ----------------------------------------------------------------------------------------------------------
# Random expressions
# ----------------------------------------------------------------------------------------------------------

ARITH = ["+", "-", "*"]
BITW = ["&", "|", "^"]
CMP = ["<", "<=", "==", "!=", ">", ">="]


class ExprGen:
    """Grammar-based random FHDL expressions over a pool of signals (operators x signedness mixes x widths,
    nested slices/Cat/Replicate).  `lowered=True` restricts slices to signals (the shape that reaches the
    printer after lower_complex_slices)."""

    def __init__(self, rng, sigs, lowered=True, maxw=24, tame=False, neg_shift_ok=False):
        self.tame = tame
        self.neg_shift_ok = neg_shift_ok   # a negative count raises ValueError in the real Evaluator
        self.rng = rng
        self.sigs = sigs
        self.lowered = lowered
        self.maxw = maxw

    def const(self):
        r = self.rng
        k = r.random()
        if k < 0.5:
            return Constant(r.randrange(0, 1 << r.randint(1, 6)))
        if k < 0.75:
            return Constant(-r.randrange(1, 1 << r.randint(1, 5)))
        w = r.randint(1, 8)
        if self.maxw > 32 and r.random() < 0.3:
            w = r.choice([33, 48, 64, 65])        # literals beyond 32 / 64 bits
        if k < 0.9:
            return Constant(r.randrange(0, 1 << w), w)
        return Constant(r.randrange(-(1 << (w - 1)), 1 << (w - 1)), (w, True))

    def leaf(self):
        r = self.rng
        if r.random() < 0.75:
            return r.choice(self.sigs)
        return self.const()

    def slice_of(self, v):
        r = self.rng
        n = len(v)
        lo = r.randrange(0, n)
        hi = r.randint(lo + 1, n)
        return _Slice(v, lo, hi)

    def gen(self, depth):
        if self.tame:
            return self.gen_tame(depth)
        return self.gen_wild(depth)

    # -- tame: the shapes real RTL is made of; arithmetic only at the top of a right-hand side --------------
    def atom(self):
        r = self.rng
        k = r.random()
        s = r.choice(self.sigs)
        if k < 0.55:
            return s
        if k < 0.8 and s.nbits > 1:
            return self.slice_of(s)
        return Constant(r.randrange(0, 1 << r.randint(1, 4)))

    def boolean(self, depth):
        r = self.rng
        k = r.random()
        if depth <= 0 or k < 0.35:
            a = self.atom()
            b = r.choice([self.atom(), Constant(r.randrange(0, 1 << min(len(a), 4)))])
            return _Operator(r.choice(CMP), [a, b])
        if k < 0.5:
            s = r.choice(self.sigs)
            return _Slice(s, 0, 1) if s.nbits > 1 else s
        if k < 0.7:
            return _Operator("~", [self.boolean(depth - 1)])
        return _Operator(r.choice(BITW), [self.boolean(depth - 1), self.boolean(depth - 1)])

    def word(self, depth):
        r = self.rng
        k = r.random()
        if depth <= 0 or k < 0.3:
            return self.atom()
        if not self.lowered and r.random() < 0.12:
            return self.complex_slice(depth)
        if k < 0.5:
            return _Operator(r.choice(BITW), [self.word(depth - 1), self.word(depth - 1)])
        if k < 0.6:
            return Mux(self.boolean(depth - 1), self.word(depth - 1), self.word(depth - 1))
        if k < 0.75:
            return Cat(*[self.word(depth - 1) for _ in range(r.randint(1, 3))])
        if k < 0.8:
            return Replicate(self.word(depth - 1), r.randint(1, 3))
        if k < 0.85:
            return _Operator("~", [self.word(depth - 1)])
        if k < 0.92:
            return _Operator(">>>", [self.atom(), Constant(r.randint(0, 3))])
        return self.boolean(depth - 1)

    def gen_tame(self, depth):
        r = self.rng
        k = r.random()
        if k < 0.3:
            e = _Operator(r.choice(ARITH + ["+", "-"]), [self.word(depth - 1), self.word(depth - 1)])
        elif k < 0.4:
            e = _Operator("<<<", [self.word(depth - 1), Constant(r.randint(0, 3))])
        elif k < 0.6:
            e = self.boolean(depth)
        else:
            e = self.word(depth)
        if len(e) > self.maxw:
            return self.leaf()
        return e

    def gen_wild(self, depth):
        r = self.rng
        if depth <= 0 or r.random() < 0.15:
            return self.leaf()
        if not self.lowered and r.random() < 0.08:
            return self.complex_slice(depth)
        k = r.random()
        if k < 0.25:
            e = _Operator(r.choice(ARITH), [self.gen_wild(depth - 1), self.gen_wild(depth - 1)])
        elif k < 0.40:
            e = _Operator(r.choice(BITW), [self.gen_wild(depth - 1), self.gen_wild(depth - 1)])
        elif k < 0.55:
            e = _Operator(r.choice(CMP), [self.gen_wild(depth - 1), self.gen_wild(depth - 1)])
        elif k < 0.63:
            e = _Operator(r.choice(["~", "~", "-"]), [self.gen_wild(depth - 1)])
        elif k < 0.70:
            amt = r.choice([Constant(r.randint(0, 5)), self.small_unsigned(), self.small_unsigned(),
                            r.choice(self.sigs) if (self.neg_shift_ok and r.random() < 0.15) else Constant(1)])
            e = _Operator(r.choice(["<<<", ">>>"]), [self.gen_wild(depth - 1), amt])
        elif k < 0.78:
            e = Mux(self.gen_wild(depth - 1), self.gen_wild(depth - 1), self.gen_wild(depth - 1))
        elif k < 0.86:
            if self.lowered:
                e = self.slice_of(r.choice(self.sigs))
            else:
                e = self.slice_of(self.gen_wild(depth - 1))
        elif k < 0.95:
            e = Cat(*[self.gen_wild(depth - 1) for _ in range(r.randint(1, 3))])
        else:
            e = Replicate(self.gen_wild(depth - 1), r.randint(1, 3))
        if len(e) > self.maxw:
            return self.leaf()
        return e

    def complex_slice(self, depth):
        """Slices that `_ComplexSliceLowerer` has to resolve: into a Cat element, into one copy of a Replicate,
        nested slices, slices of operator results (proxy signal)."""
        r = self.rng
        sub = self.word if self.tame else self.gen_wild
        k = r.random()
        if k < 0.4:
            base = Cat(*[sub(depth - 1) for _ in range(r.randint(2, 3))])
        elif k < 0.6:
            base = Replicate(sub(depth - 1), r.randint(2, 3))
        elif k < 0.8:
            base = self.slice_of(r.choice(self.sigs))
        else:
            base = sub(depth - 1)
        if len(base) == 0 or len(base) > self.maxw:
            return self.leaf()
        e = self.slice_of(base)
        if isinstance(base, (Cat, Replicate)) and r.random() < 0.5:
            e = _Slice(base, *boundary_slice(r, base))
        if r.random() < 0.3:
            e = self.slice_of(e)
        return e

    def small_unsigned(self):
        c = [s for s in self.sigs if not s.signed and s.nbits <= 3]
        if c:
            return self.rng.choice(c)
        return Constant(self.rng.randint(0, 3))


def boundary_slice(r, base):
    """(lo, hi) of a slice of a Cat / Replicate whose ends sit ON or ONE BIT OFF an element boundary (the corners
    of `_lower_slice_cat` / `_lower_slice_replicate`: ends exactly at an element's end, one bit short, one bit
    into the next element)."""
    n = len(base)
    if isinstance(base, Cat):
        bounds, acc = [0], 0
        for e in base.l:
            acc += len(e)
            bounds.append(acc)
    else:
        w = len(base.v)
        bounds = [k * w for k in range(base.n + 1)] if w else [0, n]
    k = r.randrange(len(bounds) - 1)
    lo = min(max(bounds[k] + r.choice([0, 0, 1, -1]), 0), n - 1)
    hi = min(max(bounds[min(k + r.choice([1, 1, 2]), len(bounds) - 1)] + r.choice([0, 1, -1]), lo + 1), n)
    return lo, hi


def make_sigs(rng, n, maxw=9, p_signed=0.35, prefix="s"):
    sigs = []
    for k in range(n):
        w = rng.randint(1, maxw)
        signed = rng.random() < p_signed
        sigs.append(Signal((w, signed), name_override="%s%d" % (prefix, k)))
    return sigs


def sig_range(s):
    if s.signed:
        return range(-(1 << (s.nbits - 1)), 1 << (s.nbits - 1))
    return range(0, 1 << s.nbits)


def used_signals(node, acc=None):
    """Signals occurring in an expression (in first-occurrence order)."""
    if acc is None:
        acc = []
    if isinstance(node, Signal):
        if not any(node is x for x in acc):
            acc.append(node)
    elif isinstance(node, _Operator):
        for o in node.operands:
            used_signals(o, acc)
    elif isinstance(node, _Slice):
        used_signals(node.value, acc)
    elif isinstance(node, Cat):
        for o in node.l:
            used_signals(o, acc)
    elif isinstance(node, Replicate):
        used_signals(node.v, acc)
    return acc


# ----------------------------------------------------------------------------------------------------------
# Statements and modules: parser for the emitted text
# ----------------------------------------------------------------------------------------------------------

class ModuleText:
    """Result of parsing the text of one generated module."""

    def __init__(self):
        self.name = None
        self.decls = {}        # name -> dict(kind, w, s, init_tokens|None)
        self.order = []        # declaration order
        self.items = []        # token lists: ["assign", ...] | ["comb", n, ...] | ["sync", clk, n, ...]
        self.unsupported = []  # descriptions of constructs outside the modelled subset
        self.blocking = False  # the text contains blocking assignments (`variable` signals: lowered Array targets);
                               # read by the independent reader (PyVSim) only, not by the Lean model
        self.mems = {}         # name -> dict(id, w, depth, init_file)
        self.systasks = False  # the text contains $display / $finish (read by the independent reader only)


class ModParser(VParser):
    def __init__(self, toks, name_ids):
        """name_ids: identifier -> signal id (from the namespace of the real convert run)."""
        VParser.__init__(self, toks, {})
        self.name_ids = name_ids
        self.mt = ModuleText()
        self.allow_new = False     # set for memory modules: address/data registers of memory.py are not in the namespace

    def sign_range(self):
        signed = False
        if self.peek() == ("id", "signed"):
            self.next()
            signed = True
        w = 1
        if self.peek() == ("op", "["):
            self.next()
            hi = int(self.next()[1])
            self.expect(":")
            lo = int(self.next()[1])
            self.expect("]")
            if lo != 0:
                raise ParseError("range not [n:0]")
            w = hi + 1
        return w, signed

    def declare(self, name, kind, w, s, init):
        if name in self.mt.decls:
            raise ParseError("duplicate declaration of %s" % name)
        if name not in self.name_ids:
            if not self.allow_new:
                raise ParseError("declared name %s unknown to the namespace" % name)
            self.name_ids[name] = max(list(self.name_ids.values()) + [-1]) + 1
        self.mt.decls[name] = dict(kind=kind, w=w, s=s, init=init)
        self.mt.order.append(name)
        self.names[name] = (self.name_ids[name], w, s)

    def module(self):
        self.expect("module")
        self.mt.name = self.next()[1]
        self.expect("(")
        while not self.accept(")"):
            d = self.next()[1]
            if d not in ("input", "output", "inout"):
                raise ParseError("port direction expected, got %r" % d)
            t = self.next()[1]
            if t not in ("wire", "reg"):
                raise ParseError("wire/reg expected")
            w, s = self.sign_range()
            name = self.next()[1]
            kind = {"input": "iw", "inout": "io"}.get(d) or ("ow" if t == "wire" else "or")
            init = None
            if self.accept("="):          # `output reg [..] x = reset` (regs_init)
                init = []
                self.expr(init)
            self.declare(name, kind, w, s, init)
            self.accept(",")
        self.expect(";")
        while True:
            k, v = self.peek()
            if k == "eof":
                raise ParseError("endmodule missing")
            if v == "endmodule":
                self.next()
                break
            if v in ("wire", "reg"):
                self.next()
                w, s = self.sign_range()
                name = self.next()[1]
                if self.peek() == ("op", "["):
                    if not self.allow_new:
                        self.mt.unsupported.append("memory array " + name)
                        self.skip_to(";")
                        continue
                    self.next()
                    lo = int(self.next()[1])
                    self.expect(":")
                    hi = int(self.next()[1])
                    self.expect("]")
                    self.expect(";")
                    if lo != 0:
                        raise ParseError("memory range")
                    mid = len(self.mt.mems)
                    self.mt.mems[name] = dict(id=mid, w=w, depth=hi + 1, init_file=None)
                    self.mems[name] = (mid, w, hi + 1)
                    continue
                init = None
                if self.accept("="):
                    init = []
                    self.expr(init)
                self.expect(";")
                self.declare(name, "w" if v == "wire" else "r", w, s, init)
            elif v == "assign":
                self.next()
                item = ["assign"]
                self.primary(item)
                self.expect("=")
                self.expr(item)
                self.expect(";")
                self.mt.items.append(item)
            elif v == "always":
                self.next()
                self.expect("@")
                self.expect("(")
                if self.accept("*"):
                    self.expect(")")
                    self.expect("begin")
                    body = []
                    n = self.stmts(body, ("end",))
                    self.expect("end")
                    self.mt.items.append(["comb", str(n)] + body)
                else:
                    self.expect("posedge")
                    clk = self.next()[1]
                    self.expect(")")
                    self.expect("begin")
                    body = []
                    n = self.stmts(body, ("end",))
                    self.expect("end")
                    if clk not in self.names:
                        raise ParseError("unknown clock %s" % clk)
                    self.mt.items.append(["sync", str(self.names[clk][0]), str(n)] + body)
            elif v == "initial" and self.allow_new:
                self.next()
                self.expect("begin")
                self.expect("$readmemh")
                self.expect("(")
                fn = self.next()[1].strip('"')
                self.expect(",")
                mname = self.next()[1]
                self.expect(")")
                self.expect(";")
                self.expect("end")
                self.mt.mems[mname]["init_file"] = fn
            elif v == "initial":
                self.mt.unsupported.append("initial block")
                self.skip_block()
            else:
                # instance or anything else
                self.mt.unsupported.append("item starting with %r" % v)
                self.skip_to(";")
        return self.mt

    def skip_to(self, tok):
        depth = 0
        while True:
            k, v = self.next()
            if k == "eof":
                raise ParseError("eof while skipping")
            if v in ("(", "{", "["):
                depth += 1
            elif v in (")", "}", "]"):
                depth -= 1
            elif v == tok and depth == 0:
                return

    def skip_block(self):
        # skip 'initial begin ... end' or a single statement
        self.next()
        if self.accept("begin"):
            depth = 1
            while depth:
                k, v = self.next()
                if k == "eof":
                    raise ParseError("eof in initial block")
                if v in ("begin", "case"):
                    depth += 1
                elif v in ("end", "endcase"):
                    depth -= 1
        else:
            self.skip_to(";")

    def stmts(self, out, stop):
        n = 0
        while self.peek()[1] not in stop:
            self.stmt(out)
            n += 1
        return n

    def stmt(self, out):
        k, v = self.peek()
        if v == "if":
            self.next()
            self.expect("(")
            out += ["f"]
            self.expr(out)
            self.expect(")")
            if self.peek()[1] != "begin":
                # single-statement form (memory.py)
                body = []
                self.stmt(body)
                out += ["1"] + body + ["0", "0"]
                return
            self.expect("begin")
            body = []
            n = self.stmts(body, ("end",))
            self.expect("end")
            out += [str(n)] + body
            if self.accept("else"):
                self.expect("begin")
                body = []
                n = self.stmts(body, ("end",))
                self.expect("end")
                out += ["1", str(n)] + body
            else:
                out += ["0", "0"]
        elif v == "case":
            self.next()
            self.expect("(")
            out += ["w"]
            self.expr(out)
            self.expect(")")
            items = []
            cnt = 0
            dflt = None
            while not self.accept("endcase"):
                if self.accept("default"):
                    self.expect(":")
                    self.expect("begin")
                    body = []
                    n = self.stmts(body, ("end",))
                    self.expect("end")
                    if dflt is not None:
                        raise ParseError("two defaults")
                    dflt = [str(n)] + body
                else:
                    if dflt is not None:
                        raise ParseError("item after default")
                    self.expr(items)
                    self.expect(":")
                    self.expect("begin")
                    body = []
                    n = self.stmts(body, ("end",))
                    self.expect("end")
                    items += [str(n)] + body
                    cnt += 1
            out += [str(cnt)] + items
            out += (["1"] + dflt) if dflt is not None else ["0"]
        elif v == "$display":
            # $display("fmt", arg, ...);  ->  y <hex of fmt> <n> <arg exprs>   (read by PyVSim only)
            self.next()
            self.expect("(")
            k1, fmt = self.next()
            if k1 != "str":
                raise ParseError("$display without a format string")
            args = []
            n = 0
            while self.accept(","):
                self.expr(args)
                n += 1
            self.expect(")")
            self.expect(";")
            out += ["y", "x" + fmt[1:-1].encode().hex(), str(n)] + args
            self.mt.systasks = True
        elif v == "$finish":
            self.next()
            self.expect(";")
            out += ["z"]
            self.mt.systasks = True
        else:
            k0 = len(out)
            out += ["a"]
            self.primary(out)
            if self.accept("="):
                out[k0] = "e"            # blocking assignment (variable signal)
                self.mt.blocking = True
            else:
                self.expect("<=")
            self.expr(out)
            self.expect(";")


def strip_prolog(text):
    """Drop everything before 'module' (banner, timescale)."""
    m = re.search(r"^module\s", text, re.M)
    if not m:
        raise ParseError("no module")
    return text[m.start():]


def parse_module(text, name_ids, allow_memories=False):
    toks = lex(strip_prolog(text))
    p = ModParser(toks, dict(name_ids) if allow_memories else name_ids)
    p.allow_new = allow_memories
    mt = p.module()
    mt.name_ids = p.name_ids
    return mt


# ----------------------------------------------------------------------------------------------------------
# Running the real convert and capturing the lowered fragment
# ----------------------------------------------------------------------------------------------------------

class Captured:
    pass


def convert_capture(top, ios, name="top", via=None, **kw):
    """Run the REAL litex.gen.fhdl.verilog.convert and capture the lowered fragment and namespace it printed.
    `via`: a callable that ends up calling convert (e.g. `lambda: platform.get_verilog(fragment)`), to go through
    the glue users go through."""
    from litex.gen.fhdl import verilog as V
    cap = Captured()
    orig = V._generate_module

    def hook(f, ios_, name_, ns, attr_translate, *args, **kwargs):
        cap.f = f
        cap.ns = ns
        cap.ios = set(ios_)
        return orig(f, ios_, name_, ns, attr_translate, *args, **kwargs)
    orig_ir = V.insert_resets

    def hook_ir(f):
        # the sync statements BEFORE reset insertion (the model's `insertReset` is applied to them and must give the
        # text / the lowered fragment)
        cap.pre_sync = {k: list(v) for k, v in f.sync.items()}
        return orig_ir(f)
    V._generate_module = hook
    V.insert_resets = hook_ir
    try:
        r = via() if via is not None else V.convert(top, ios=set(ios), name=name, **kw)
    finally:
        V._generate_module = orig
        V.insert_resets = orig_ir
    cap.text = r.main_source
    cap.result = r
    return cap


def module_signals(cap):
    from migen.fhdl.tools import list_signals, list_special_ios
    f = cap.f
    sigs = list_signals(f) | list_special_ios(f, ins=True, outs=True, inouts=True) | cap.ios
    return sorted(sigs, key=lambda s: s.duid)


def sim_target_order(mt):
    """Targets of the comb items of a text emitted with regular_comb=False, in text order (one item per target:
    `assign t = ...` or `always @(*) begin t <= reset; ... end`).  A concatenation target (one `assign` driving
    several signals) is outside the subset tied to the Lean model of the per-target emitter."""
    order = []
    for it in mt.items:
        if it[0] == "assign":
            if it[1] != "i":
                raise Unsupported("sim back-end: continuous assignment to a concatenation/select")
            order.append(int(it[2]))
        elif it[0] == "comb":
            if len(it) < 5 or it[2] != "a" or it[3] != "i":
                raise Unsupported("sim back-end: always @(*) block without a leading default")
            order.append(int(it[4]))
    return order


def ser_module(cap, variant="synth", target_order=None):
    """Serialise the captured lowered fragment: returns (ids, sections dict).  variant "sim" (text emitted with
    regular_comb=False): ONE comb group holding every comb statement in fragment order (what the simulator itself
    executes), its targets in the order `target_order` of the text."""
    from migen.fhdl.tools import group_by_targets, flat_iteration
    f = cap.f
    ids = SigIds()
    sigs = module_signals(cap)
    for s in sigs:
        ids.get(s)
    ns = cap.ns
    sec_sigs = [str(len(sigs))]
    for s in sigs:
        if not isinstance(s.reset, Constant):
            raise Unsupported("non-constant reset")
        sec_sigs += [str(s.nbits), "1" if s.signed else "0", str(s.reset.value), ns.get_name(s)]
    if variant == "sim":
        flat = list(flat_iteration(f.comb))
        groups = [(list(target_order), flat)] if flat else []
    else:
        groups = group_by_targets(f.comb)
    sec_comb = [str(len(groups))]
    for targets, stmts in groups:
        if variant == "sim":
            sec_comb += ["G", str(len(targets))] + [str(t) for t in targets]
        else:
            sec_comb += ["G", str(len(targets))] + [str(ids.get(t)) for t in sorted(targets, key=lambda x: x.duid)]
        body = []
        n = ser_stmts(stmts, ids, body)
        sec_comb += [str(n)] + body
    sec_sync = [str(len(f.sync))]
    pre_sync = getattr(cap, "pre_sync", None) or {}
    nreset = 0
    for cdname, stmts in f.sync.items():
        cd = f.clock_domains[cdname]
        clk = cd.clk
        body = []
        n = ser_stmts(stmts, ids, body)
        rec = ["D", cdname, str(ids.get(clk)), str(n)] + body
        if cd.rst is not None and cdname in pre_sync:
            # serialise the statements as they were BEFORE insert_resets (only if they are in the lowered subset and
            # name no signal the lowered fragment does not have); the Lean model inserts the reset itself
            probe = SigIds()
            probe.ids, probe.sigs = dict(ids.ids), list(ids.sigs)
            try:
                pbody = []
                pn = ser_stmts(pre_sync[cdname], probe, pbody)
                if len(probe) == len(ids):
                    from migen.fhdl.tools import list_targets, flat_iteration
                    rl = sorted(ids.get(t) for t in list_targets(pre_sync[cdname]) if t.reset_less)
                    # statements appended to the domain AFTER reset insertion (lowered specials, e.g. MultiReg)
                    flat_post = list(flat_iteration(stmts))
                    extra = flat_post[pn + 1:]
                    xbody = []
                    xn = ser_stmts(extra, ids, xbody)
                    rec = ["R", cdname, str(ids.get(clk)), str(ids.get(cd.rst)), str(len(rl))] + [str(x) for x in rl] \
                        + [str(pn)] + pbody + [str(xn)] + xbody
                    nreset += 1
            except Unsupported:
                pass
        sec_sync += rec
    cap.reset_modelled = nreset
    if len(ids) != len(sigs):
        raise Unsupported("statement refers to a signal outside list_signals")
    return ids, sigs, groups, dict(sigs=sec_sigs, comb=sec_comb, sync=sec_sync)


def ser_vmodule(mt, ids_by_name):
    items = [str(len(mt.items))]
    for it in mt.items:
        items += it
    decls = [str(len(mt.order))]
    for name in mt.order:
        d = mt.decls[name]
        decls += [str(ids_by_name[name]), d["kind"], str(d["w"]), "1" if d["s"] else "0"]
        if d["init"] is None:
            decls += ["0"]
        else:
            decls += ["1"] + d["init"]
    return items, decls


def _capped_netlist():
    from netlist import Netlist as _N

    class Netlist(_N):
        """harness/netlist.Netlist with a bound on the comb fix-point (a changed simulator/design that never
        settles must end as a reported disagreement, not as an endless run)."""
        MAX_ROUNDS = 400

        def _propagate(self):
            ev = self.ev
            modified = ev.commit()
            n = 0
            while modified:
                n += 1
                if n > self.MAX_ROUNDS:
                    raise RuntimeError("combinational logic does not settle within %d rounds" % self.MAX_ROUNDS)
                ev.execute(self.comb)
                modified = ev.commit()
    return Netlist


Netlist = _capped_netlist()


class RealLowered:
    """The real Evaluator driven directly on the lowered fragment that convert printed (same Signal objects
    as the text), the way harness/netlist.py drives it on an un-lowered module."""

    def __init__(self, cap):
        from migen.fhdl.tools import list_targets
        from litex.gen.sim.core import Evaluator
        f = cap.f
        self.f = f
        for s in module_signals(cap):
            s.variable = False       # flag only affects printing (already done) and an assert in Evaluator.assign
        self.comb = [s.eq(s.reset) for s in sorted(list_targets(f.comb), key=lambda x: x.duid)] + list(f.comb)
        self.ev = Evaluator(f.clock_domains, {})
        self.clk2cd = {id(cd.clk): cd.name for cd in f.clock_domains}

    MAX_ROUNDS = 400

    def settle(self):
        ev = self.ev
        ev.execute(self.comb)
        n = 0
        while ev.commit():
            n += 1
            if n > self.MAX_ROUNDS:
                raise RuntimeError("lowered fragment: combinational logic does not settle")
            ev.execute(self.comb)

    def set(self, sig, value):
        self.ev.signal_values[sig] = truncate(value, sig.nbits, sig.signed)

    def get(self, sig):
        return self.ev.eval(sig)

    def tick(self, clk_sigs):
        ev = self.ev
        for c in clk_sigs:
            cd = self.clk2cd.get(id(c))
            if cd is not None and cd in self.f.sync:
                ev.execute(self.f.sync[cd])
        modified = ev.commit()
        n = 0
        while modified:
            n += 1
            if n > self.MAX_ROUNDS:
                raise RuntimeError("lowered fragment: combinational logic does not settle")
            ev.execute(self.comb)
            modified = ev.commit()


def stmt_sites(stmts, ns, out):
    """Printed text of every site (assignment rhs / If condition / Case test), in the pre-order the Lean
    driver numbers them."""
    from litex.gen.fhdl.expression import _generate_expression as G
    for s in stmts:
        if isinstance(s, _Assign):
            out.append(("assign", G(ns, s.l)[0] + " <= " + G(ns, s.r)[0]))
        elif isinstance(s, If):
            out.append(("if", G(ns, s.cond)[0]))
            stmt_sites(s.t, ns, out)
            stmt_sites(s.f, ns, out)
        elif isinstance(s, Case):
            out.append(("case", G(ns, s.test)[0]))
            for k, v in s.cases.items():
                if isinstance(k, Constant):
                    stmt_sites(v, ns, out)
            if "default" in s.cases:
                stmt_sites(s.cases["default"], ns, out)
        elif isinstance(s, (list, tuple)):
            stmt_sites(s, ns, out)
    return out


# ----------------------------------------------------------------------------------------------------------
# Random modules (grammar-generated fragments)
# ----------------------------------------------------------------------------------------------------------

class StmtGen:
    def __init__(self, rng, eg, allow_cat=True):
        self.rng = rng
        self.eg = eg
        # allow_cat=False: no `Cat(a, b).eq(...)` over several signals (for comb groups of modules converted with
        # regular_comb=False: the per-target emitter repeats such an assignment in the block of every signal it
        # drives - reported separately, outside the tied domain)
        self.allow_cat = allow_cat

    def sub_slice(self, v, depth=1):
        """Slice of `v`, nested `depth` levels (x[a:b][c:d]…): `_ComplexSliceLowerer` flattens it in the printed
        fragment, the simulator on the original design does a read-modify-write through every level."""
        r = self.rng
        for _ in range(depth):
            n = len(v)
            lo = r.randrange(0, n)
            v = _Slice(v, lo, r.randint(lo + 1, n))
        return v

    def nest_depth(self):
        k = self.rng.random()
        return 1 if k < 0.6 else (2 if k < 0.85 else 3)

    def target(self, sigs):
        r = self.rng
        s = r.choice(sigs)
        k = r.random()
        if len(sigs) >= 2 and hasattr(self.eg, "array_key") and r.random() < 0.12:
            # Array target: lowered to a `variable` signal (blocking assignment) + Case in the printed text,
            # handled natively (`_ArrayProxy`) by the simulator; an out-of-range key selects the last element
            from migen.fhdl.structure import Array
            return Array(r.sample(sigs, k=r.randint(2, min(3, len(sigs)))))[self.eg.array_key()]
        if k < 0.55 or len(sigs) == 0:
            return s
        if k < 0.85 or not self.allow_cat:
            return self.sub_slice(s, self.nest_depth())
        parts = []
        for t in r.sample(sigs, k=min(len(sigs), r.randint(2, 3))):
            if r.random() < 0.5:
                parts.append(t)
            else:
                parts.append(self.sub_slice(t, self.nest_depth()))
        if len(parts) < 2:
            return s
        return Cat(*parts)

    def partial_writes(self, sigs):
        """2-3 consecutive partial writes to ONE signal, at least one through nested slices: they must merge
        (pending value read back at every level of the simulator's assign, part-select NBAs in the text)."""
        r = self.rng
        wide = [s for s in sigs if s.nbits >= 2]
        if not wide:
            return []
        s = r.choice(wide)
        out = []
        n = r.randint(2, 3)
        nested_at = r.randrange(1, n)
        for k in range(n):
            depth = r.randint(2, 3) if k == nested_at else self.nest_depth()
            out.append(_Assign(self.sub_slice(s, depth), self.eg.gen(r.randint(0, 2))))
        return out

    def cond(self):
        r = self.rng
        if self.eg.tame:
            return self.eg.boolean(r.randint(0, 2))
        return self.eg.gen(r.randint(0, 2))

    def stmts(self, targets, depth, n=None):
        r = self.rng
        out = []
        for _ in range(n if n is not None else r.randint(1, 3)):
            k = r.random()
            if r.random() < 0.2:
                out += self.partial_writes(targets)
            if depth <= 0 or k < 0.5:
                out.append(_Assign(self.target(targets), self.eg.gen(r.randint(0, 3))))
            elif k < 0.8:
                s = If(self.cond(), *self.stmts(targets, depth - 1))
                for _ in range(r.randint(0, 2)):
                    if r.random() < 0.5:
                        s = s.Elif(self.cond(), *self.stmts(targets, depth - 1))
                if r.random() < 0.6:
                    s = s.Else(*self.stmts(targets, depth - 1))
                out.append(s)
            else:
                if hasattr(self.eg, "case_test"):
                    test = self.eg.case_test()
                else:
                    test = self.eg.atom() if self.eg.tame else self.eg.gen(r.randint(0, 1))
                n_t = min(len(test), 4)
                if hasattr(self.eg, "case_keys"):
                    keys = self.eg.case_keys(test)
                else:
                    keys = r.sample(range(0, 1 << n_t), k=min(r.randint(1, 4), 1 << n_t))
                cases = {}
                for key in keys:
                    cases[key] = self.stmts(targets, depth - 1)
                if r.random() < 0.1 and value_bits_sign(test)[1]:
                    cases[-1] = self.stmts(targets, depth - 1)
                if r.random() < 0.6:
                    cases["default"] = self.stmts(targets, depth - 1)
                out.append(Case(test, cases))
        return out


def multi_target_stmts(sg, targets):
    """Comb statements that drive SEVERAL signals from shared control structure: `Case` whose items and `default`
    assign different subsets of `targets`, `If`/`Else` with different targets in the two branches, followed by later
    statements overriding single targets (FHDL: the last assignment wins).  The synthesis emitter prints them as
    one always block, the simulation emitter (regular_comb=False) as one filtered block per target."""
    r = sg.rng
    out = []
    for _ in range(r.randint(1, 2)):
        everyone = [_Assign(t if r.random() < 0.7 else sg.sub_slice(t), sg.eg.gen(r.randint(0, 2)))
                    for t in r.sample(targets, k=len(targets))]
        some = lambda: sg.stmts(r.sample(targets, k=r.randint(1, len(targets))), 1, n=r.randint(1, 2))
        if r.random() < 0.6:
            if hasattr(sg.eg, "case_test"):
                test = sg.eg.case_test()
            else:
                test = sg.eg.atom() if sg.eg.tame else sg.eg.gen(r.randint(0, 1))
            if hasattr(sg.eg, "case_keys"):
                keys = sg.eg.case_keys(test)
            else:
                keys = r.sample(range(0, 1 << min(len(test), 3)), k=min(r.randint(1, 3), 1 << min(len(test), 3)))
            cases = {key: some() for key in keys}
            cases["default"] = everyone
            out.append(Case(test, cases))
        else:
            out.append(If(sg.cond(), *some()).Else(*everyone))
    for t in r.sample(targets, k=r.randint(1, len(targets))):
        out.append(If(sg.cond(), _Assign(t if r.random() < 0.6 else sg.sub_slice(t), sg.eg.gen(r.randint(0, 2)))))
    if r.random() < 0.4:
        out += sg.stmts(targets, 2, n=1)
    return out


def random_module(rng, lowered_exprs=False, maxw=9, tame=False, sim_variant=False):
    """A small synchronous module: inputs, registers (some signed, some with non-zero reset, some reset-less),
    combinational signals defined in dependency order (acyclic)."""
    from migen import Module, ClockDomain
    m = Module()
    m.clock_domains.cd_sys = ClockDomain("sys")
    doms = ["sys"]
    if rng.random() < 0.3:
        m.clock_domains.cd_b = ClockDomain("b")
        doms.append("b")
        if rng.random() < 0.4:
            m.clock_domains.cd_c = ClockDomain("c")
            doms.append("c")
    ps = 0.08 if tame else 0.3
    ins = make_sigs(rng, rng.randint(2, 4), maxw=maxw, prefix="i", p_signed=ps)
    regs = []
    for k in range(rng.randint(1, 3)):
        w = rng.randint(1, maxw)
        signed = rng.random() < ps
        lo, hi = (-(1 << (w - 1)), (1 << (w - 1)) - 1) if signed else (0, (1 << w) - 1)
        rst = rng.choice([0, 0, rng.randint(lo, hi)])
        regs.append(Signal((w, signed), name_override="r%d" % k, reset=rst, reset_less=rng.random() < 0.2))
    combs = []
    readable = ins + regs
    for k in range(rng.randint(1, 3)):
        w = rng.randint(1, maxw)
        signed = rng.random() < ps
        lo, hi = (-(1 << (w - 1)), (1 << (w - 1)) - 1) if signed else (0, (1 << w) - 1)
        c = Signal((w, signed), name_override="c%d" % k, reset=rng.choice([0, 0, rng.randint(lo, hi)]))
        eg = ExprGen(rng, list(readable), lowered=lowered_exprs, tame=tame)
        sg = StmtGen(rng, eg)
        m.comb += sg.stmts([c], rng.randint(0, 2))
        combs.append(c)
        readable = readable + [c]
    multi = []
    if rng.random() < 0.6:
        # one comb group driving 2-3 signals from shared If/Case structure (they do not read each other)
        for k in range(rng.randint(2, 3)):
            w = rng.randint(1, maxw)
            signed = rng.random() < ps
            lo, hi = (-(1 << (w - 1)), (1 << (w - 1)) - 1) if signed else (0, (1 << w) - 1)
            multi.append(Signal((w, signed), name_override="d%d" % k, reset=rng.choice([0, rng.randint(lo, hi)])))
        eg = ExprGen(rng, list(readable), lowered=lowered_exprs, tame=tame)
        m.comb += multi_target_stmts(StmtGen(rng, eg, allow_cat=not sim_variant), multi)
        readable = readable + multi
    eg = ExprGen(rng, list(readable), lowered=lowered_exprs, tame=tame)
    sg = StmtGen(rng, eg)
    if rng.random() < 0.3:
        # a clock read as data (ClockSignal is lowered to the domain's clk signal by convert)
        from migen.fhdl.structure import ClockSignal
        ck = Signal(name_override="ckd")
        m.comb += ck.eq(ClockSignal(rng.choice(doms)) ^ ins[0][0])
        combs.append(ck)
    combs = combs[:1] + multi + combs[1:]
    dom_of = [rng.choice(doms) for _ in regs]       # every register is driven from one clock domain
    for d in doms:
        rs = [r_ for r_, dn in zip(regs, dom_of) if dn == d]
        if rs:
            getattr(m.sync, d).__iadd__(sg.stmts(rs, rng.randint(1, 3)))
    ios = set(ins) | set(regs[:1]) | set(combs[:2]) | set(multi)
    for d in doms:
        cd = getattr(m, "cd_" + d)
        ios |= {cd.clk, cd.rst}
    return m, ios


# ----------------------------------------------------------------------------------------------------------
# Real cores: preparing a DUT for convert / simulation
# ----------------------------------------------------------------------------------------------------------

def public_signals(dut):
    """Signals reachable as attributes (or Record fields) of the DUT object."""
    out = []
    seen = set()

    def add(s):
        if isinstance(s, Signal) and id(s) not in seen:
            seen.add(id(s))
            out.append(s)
    for v in vars(dut).values():
        if isinstance(v, Signal):
            add(v)
        elif hasattr(v, "flatten") and hasattr(v, "layout"):
            for s in v.flatten():
                add(s)
        elif isinstance(v, (list, tuple)):
            for e in v:
                if isinstance(e, Signal):
                    add(e)
                elif hasattr(e, "flatten") and hasattr(e, "layout"):
                    for s in e.flatten():
                        add(s)
    return out


def prepare(dut, allow_memories=False):
    """Fragment + clock domains + io list for a DUT.  ios = every undriven signal (driven by the harness) plus
    the driven signals that are public attributes of the DUT.  Returns (fragment, ios list, clock names) or
    raises Unsupported (specials)."""
    from migen.fhdl.structure import ClockDomain
    from migen.fhdl.tools import list_signals, list_targets, list_clock_domains
    pub = public_signals(dut)
    f = dut.get_fragment()
    from migen.genlib.cdc import MultiReg
    from migen.fhdl.specials import Memory, _MemoryPort
    ok_types = (MultiReg, Memory, _MemoryPort) if allow_memories else (MultiReg,)
    bad = [s for s in f.specials if not isinstance(s, ok_types)]
    if bad:
        raise Unsupported("specials: " + ", ".join(sorted({type(s).__name__ for s in bad})))
    cds = sorted(list_clock_domains(f))
    for cdn in cds:
        if cdn not in f.clock_domains:
            f.clock_domains.append(ClockDomain(cdn))
    sigs = set(list_signals(f))
    for cd in f.clock_domains:
        sigs.add(cd.clk)
        if cd.rst is not None:
            sigs.add(cd.rst)
    from migen.fhdl.tools import list_special_ios
    sigs |= list_special_ios(f, ins=True, outs=True, inouts=True)
    targets = list_targets(f) | list_special_ios(f, ins=False, outs=True, inouts=True)
    undriven = sorted(sigs - targets, key=lambda s: s.duid)
    pubset = {id(s) for s in pub}
    driven_pub = sorted([s for s in sigs & targets if id(s) in pubset], key=lambda s: s.duid)
    ios = undriven + driven_pub
    # explicit unique names: auto-derived names are degraded on py3.12 (and naming is C02's subject, not C01's)
    for k, s in enumerate(sorted(sigs, key=lambda s: s.duid)):
        if s.name_override is None:
            s.name_override = "n%d" % k
    return f, ios, [cd.name for cd in f.clock_domains]


# ----------------------------------------------------------------------------------------------------------
# Independent golden reading of the emitted Verilog (used by the failing-input search only).
# A second, deliberately simple implementation of IEEE 1364-2005 §5.4/§5.5 over the parser's token trees,
# written without reference to the Lean model: (1) size and type bottom-up, (2) evaluate top-down with the
# context size/type.  Values are Python ints in [0, 2^W).
# ----------------------------------------------------------------------------------------------------------

class VNode:
    __slots__ = ("k", "a", "w", "s")

    def __init__(self, k, a):
        self.k = k
        self.a = a
        self.w = None
        self.s = None


def build_vtree(toks, pos=0):
    """Token list (prefix notation) -> (VNode, next position)."""
    t = toks[pos]
    if t == "l":
        return VNode("lit", (int(toks[pos + 1]), toks[pos + 2] == "1", int(toks[pos + 3]))), pos + 4
    if t == "i":
        return VNode("id", (int(toks[pos + 1]), int(toks[pos + 2]), toks[pos + 3] == "1")), pos + 4
    if t == "u":
        a, p = build_vtree(toks, pos + 2)
        return VNode("un", (toks[pos + 1], a)), p
    if t == "b":
        a, p = build_vtree(toks, pos + 2)
        b, p = build_vtree(toks, p)
        return VNode("bin", (toks[pos + 1], a, b)), p
    if t == "t":
        c, p = build_vtree(toks, pos + 1)
        a, p = build_vtree(toks, p)
        b, p = build_vtree(toks, p)
        return VNode("cond", (c, a, b)), p
    if t == "p":
        a, p = build_vtree(toks, pos + 3)
        return VNode("psel", (int(toks[pos + 1]), int(toks[pos + 2]), a)), p
    if t == "q":
        a, p = build_vtree(toks, pos + 2)
        return VNode("psel", (int(toks[pos + 1]), int(toks[pos + 1]), a)), p
    if t == "k":
        n = int(toks[pos + 1])
        p = pos + 2
        l = []
        for _ in range(n):
            e, p = build_vtree(toks, p)
            l.append(e)
        return VNode("cat", l), p
    if t == "r":
        a, p = build_vtree(toks, pos + 2)
        return VNode("rep", (int(toks[pos + 1]), a)), p
    if t == "g":
        a, p = build_vtree(toks, pos + 1)
        return VNode("signed", a), p
    if t == "M":
        a, p = build_vtree(toks, pos + 3)
        return VNode("mem", (int(toks[pos + 1]), int(toks[pos + 2]), a)), p
    raise ParseError("bad token " + t)


_CMPS = {"lt": lambda x, y: x < y, "le": lambda x, y: x <= y, "eq": lambda x, y: x == y,
         "ne": lambda x, y: x != y, "gt": lambda x, y: x > y, "ge": lambda x, y: x >= y}


def v_size(n):
    """Annotate self-determined width and signedness."""
    k = n.k
    if k == "lit":
        n.w, n.s = n.a[0], n.a[1]
    elif k == "id":
        n.w, n.s = n.a[1], n.a[2]
    elif k == "un" and n.a[0] == "lnot":
        v_size(n.a[1])
        n.w, n.s = 1, False
    elif k == "un":
        v_size(n.a[1])
        n.w, n.s = n.a[1].w, n.a[1].s
    elif k == "bin":
        op, a, b = n.a
        v_size(a)
        v_size(b)
        if op in _CMPS:
            n.w, n.s = 1, False
        elif op in ("shl", "shr"):
            n.w, n.s = a.w, a.s
        else:
            n.w, n.s = max(a.w, b.w), a.s and b.s
    elif k == "cond":
        c, a, b = n.a
        v_size(c)
        v_size(a)
        v_size(b)
        n.w, n.s = max(a.w, b.w), a.s and b.s
    elif k == "psel":
        v_size(n.a[2])
        n.w, n.s = n.a[0] - n.a[1] + 1, False
    elif k == "cat":
        for e in n.a:
            v_size(e)
        n.w, n.s = sum(e.w for e in n.a), False
    elif k == "rep":
        v_size(n.a[1])
        n.w, n.s = n.a[0] * n.a[1].w, False
    elif k == "signed":
        v_size(n.a)
        n.w, n.s = n.a.w, True
    elif k == "mem":
        v_size(n.a[2])
        n.w, n.s = n.a[1], False
    return n


def _extend(v, w, W, signed_ctx):
    if signed_ctx and w > 0 and (v >> (w - 1)) & 1:
        v |= ((1 << W) - 1) & ~((1 << w) - 1)
    return v


def _as_signed(v, w):
    return v - (1 << w) if (v >> (w - 1)) & 1 else v


def v_eval(n, env, W, sg):
    """Evaluate in a context of W bits whose type is signed iff sg; env: id -> bits."""
    M = (1 << W) - 1
    k = n.k
    if k == "lit":
        return _extend(n.a[2] & ((1 << n.w) - 1), n.w, W, sg)
    if k == "id":
        return _extend(env[n.a[0]] & ((1 << n.w) - 1), n.w, W, sg)
    if k == "un" and n.a[0] == "lnot":
        a = n.a[1]
        return _extend(int(v_eval(a, env, a.w, a.s) == 0), 1, W, sg)
    if k == "mem":
        idx = v_eval(n.a[2], env, n.a[2].w, n.a[2].s)
        words = env[("mem", n.a[0])]
        return _extend(words[idx] if idx < len(words) else 0, n.w, W, sg)
    if k == "un":
        x = v_eval(n.a[1], env, W, sg)
        return (-x) & M if n.a[0] == "neg" else (~x) & M
    if k == "bin":
        op, a, b = n.a
        if op in _CMPS:
            w = max(a.w, b.w)
            s = a.s and b.s
            x = v_eval(a, env, w, s)
            y = v_eval(b, env, w, s)
            if s:
                x, y = _as_signed(x, w), _as_signed(y, w)
            return _extend(int(_CMPS[op](x, y)), 1, W, sg)
        if op in ("shl", "shr"):
            x = v_eval(a, env, W, sg)
            amt = v_eval(b, env, b.w, b.s)
            if op == "shl":
                return (x << amt) & M
            if sg:
                return (_as_signed(x, W) >> amt) & M
            return x >> amt
        x = v_eval(a, env, W, sg)
        y = v_eval(b, env, W, sg)
        if op == "add":
            return (x + y) & M
        if op == "sub":
            return (x - y) & M
        if op == "mul":
            return (x * y) & M
        if op == "and":
            return x & y
        if op == "or":
            return x | y
        if op == "xor":
            return x ^ y
        raise ParseError(op)
    if k == "cond":
        c, a, b = n.a
        return v_eval(a, env, W, sg) if v_eval(c, env, c.w, c.s) != 0 else v_eval(b, env, W, sg)
    if k == "psel":
        hi, lo, a = n.a
        x = v_eval(a, env, a.w, a.s)
        return _extend((x >> lo) & ((1 << n.w) - 1), n.w, W, sg)
    if k == "cat":
        v = 0
        for e in n.a:
            v = (v << e.w) | v_eval(e, env, e.w, e.s)
        return _extend(v, n.w, W, sg)
    if k == "rep":
        cnt, a = n.a
        x = v_eval(a, env, a.w, a.s)
        v = 0
        for _ in range(cnt):
            v = (v << a.w) | x
        return _extend(v, n.w, W, sg)
    if k == "signed":
        return _extend(v_eval(n.a, env, n.a.w, n.a.s), n.w, W, sg)
    raise ParseError(k)


def v_assign_value(tree, env, lw):
    """Bits stored by `target <= expr` for an lw-bit target."""
    W = max(lw, tree.w)
    return v_eval(tree, env, W, tree.s) & ((1 << lw) - 1)


def array_key_fixed():
    """True once the finding C01-array-key-unmasked is listed `fixed` in known_findings.json (or with
    C01_ARRAY_KEY_FIXED=1, to try the repaired simulator before it is listed): the generators then also index Arrays
    with negative / signed keys (`Evaluator._array_index` selects like the lowered Case)."""
    import os, json
    if os.environ.get("C01_ARRAY_KEY_FIXED") == "1":
        return True
    try:
        k = json.load(open(os.path.join(os.path.dirname(os.path.dirname(os.path.abspath(__file__))), "known_findings.json")))
        ks = k if isinstance(k, list) else k.get("findings", [])
        return any(e.get("id") == "C01-array-key-unmasked" and e.get("status") == "fixed" for e in ks)
    except Exception:
        return False


class SafeGen:
    """Expressions on which Migen's unbounded and Verilog's context-width arithmetic provably coincide (no
    overflow-capable operator below a self-determined boundary, every operand exact in its width, signed
    operands only as direct operands of comparisons / top-level operators): the domain of the independent
    oracle.  A mismatch between the real Evaluator and the golden reading of the real text on such an
    expression is a genuine failing input.
    Since the repairs of the C01 printer/simulator findings the domain includes: signed constants (also the most
    negative value of a width), comparisons with signed operands anywhere a 0/1 value may stand, slices of signed
    signals (1-bit ones too) as unsigned atoms, `~b` as a Mux condition, and slices that cover a signed signal /
    `~x` / `a - b` exactly."""

    def __init__(self, rng, usigs, ssigs, complex_slices=False):
        self.rng = rng
        self.u = usigs
        self.s = ssigs
        self.cs = complex_slices

    def cslice(self, d):
        r = self.rng
        k = r.random()
        full = False
        if k < 0.4:
            base = Cat(*[self.word(d - 1) for _ in range(r.randint(2, 3))])
        elif k < 0.6:
            base = Replicate(self.word(d - 1), r.randint(2, 3))
        elif k < 0.75:
            base = self.word(d - 1)
        else:
            # nodes whose unbounded value can be negative: the slice (an unsigned view) must survive the lowering
            full = r.random() < 0.6
            k2 = r.random()
            if k2 < 0.4 and self.s:
                base = r.choice(self.s)
            elif k2 < 0.7:
                base = _Operator("~", [self.word(d - 1)])
            else:
                base = _Operator("-", [self.atom(), self.atom()])
        n = len(base)
        if n == 0 or n > 40:
            return self.atom()
        lo = 0 if full else r.randrange(0, n)
        hi = n if full else r.randint(lo + 1, n)
        if not full and isinstance(base, (Cat, Replicate)) and r.random() < 0.5:
            lo, hi = boundary_slice(r, base)
        e = _Slice(base, lo, hi)
        if r.random() < 0.3:
            n = len(e)
            lo = r.randrange(0, n)
            e = _Slice(e, lo, r.randint(lo + 1, n))
        return e

    def atom(self):
        r = self.rng
        k = r.random()
        s = r.choice(self.u)
        if k < 0.55:
            return s
        if k < 0.8 and s.nbits > 1:
            lo = r.randrange(0, s.nbits)
            return _Slice(s, lo, r.randint(lo + 1, s.nbits))
        if max(x.nbits for x in self.u) > 32 and r.random() < 0.4:
            return Constant(r.randrange(1 << 32, 1 << 66))          # literal beyond 32 / 64 bits
        return Constant(r.randrange(0, 1 << r.randint(1, 4)))

    def array_key(self):
        """Key of an Array with 2-5 choices: an unsigned slice of 1-3 bits (may exceed the array length: both sides
        then take the last element) or - since the fix of C01-array-key-unmasked - a key whose simulator value is
        negative: `~x` of a 3-bit slice, a signed signal of >= 4 bits (at least as wide as the lowered Case items, so
        that the text compares the same bit pattern the simulator reduces the key to)."""
        r = self.rng
        s = r.choice(self.u)
        if array_key_fixed() and r.random() < 0.4:
            wide = [x for x in self.u if x.nbits >= 3]
            sg = [x for x in self.s if x.nbits >= 4]
            if sg and r.random() < 0.5:
                return r.choice(sg)
            if wide:
                x = r.choice(wide)
                lo = r.randrange(0, x.nbits - 2)
                return _Operator("~", [_Slice(x, lo, lo + 3)])
        return _Slice(s, 0, r.randint(1, min(s.nbits, 3)))

    def sconst(self):
        """Signed constant, in range of its width (the most negative value included)."""
        r = self.rng
        w = r.randint(1, 5)
        lo, hi = -(1 << (w - 1)), (1 << (w - 1)) - 1
        return Constant(r.choice([lo, hi, -1, r.randint(lo, hi)]) if w > 1 else r.choice([-1, 0]), (w, True))

    def sslice(self):
        """Slice of a signed signal (also of a 1-bit one, also covering it exactly): an unsigned atom."""
        r = self.rng
        s = r.choice(self.s)
        if r.random() < 0.4:
            return _Slice(s, 0, s.nbits)
        lo = r.randrange(0, s.nbits)
        return _Slice(s, lo, r.randint(lo + 1, s.nbits))

    def negword(self, d):
        """An operand whose value in the SIMULATOR can be a negative Python int while its Migen width equals the
        self-determined width of its text (so both sides agree on its bit pattern): `~word`, a signed signal, a
        negative signed constant, `-s` / `~s` of a signed signal.  Used in every self-determined operand position the
        Evaluator implements (Cat element, Replicate operand, Mux / If condition, shift operand): the Evaluator has to
        reduce such a value to the operand's width itself."""
        r = self.rng
        k = r.random()
        if self.s and k < 0.3:
            return r.choice(self.s)
        if self.s and k < 0.45:
            return _Operator(r.choice(["~", "-"]), [r.choice(self.s)])
        if k < 0.55:
            w = r.randint(1, 5)
            return Constant(r.randint(-(1 << (w - 1)), -1), (w, True))
        return _Operator("~", [self.word(d - 1)])

    def selfdet(self, d):
        """Operand of a self-determined position: an unsigned word or (40 %) a negative-valued operand."""
        return self.negword(d) if self.rng.random() < 0.4 else self.word(d - 1)

    def anyatom(self):
        k = self.rng.random()
        if self.s and k < 0.35:
            return self.rng.choice(self.s)
        if self.s and k < 0.45:
            return self.sslice()
        if k < 0.55:
            return self.sconst()
        return self.atom()

    def boolean(self, d, signed_ok=True):
        """0/1-valued.  Comparisons with signed operands may stand anywhere (the printer reports them unsigned,
        as Verilog types them, since the fix of C01-comparison-reported-signed)."""
        r = self.rng
        k = r.random()
        if d <= 0 or k < 0.45:
            at = self.anyatom if signed_ok else self.atom
            return _Operator(r.choice(CMP), [at(), at()])
        if k < 0.6:
            s = r.choice(self.u)
            return _Slice(s, 0, 1) if s.nbits > 1 else s
        return _Operator(r.choice(BITW), [self.boolean(d - 1, signed_ok), self.boolean(d - 1, signed_ok)])

    def word(self, d):
        r = self.rng
        k = r.random()
        if d <= 0 or k < 0.3:
            return self.atom()
        if self.cs and r.random() < 0.15:
            return self.cslice(d)
        if self.cs and r.random() < 0.08:
            # Array read (module context only: lowered by lower_basics to a Case on a new signal)
            from migen.fhdl.structure import Array
            return Array([self.word(d - 1) for _ in range(r.randint(2, 5))])[self.array_key()]
        if k < 0.5:
            return _Operator(r.choice(BITW), [self.word(d - 1), self.word(d - 1)])
        if k < 0.62:
            c = self.boolean(d - 1, True)
            k2 = r.random()
            if k2 < 0.3:
                c = _Operator("~", [c])       # unbounded value -1/-2: the simulator masks it to 1 bit
            elif k2 < 0.5:
                c = self.negword(d)           # wide condition with a negative simulator value: true iff non-zero bits
            return Mux(c, self.word(d - 1), self.word(d - 1))
        if self.s and k < 0.66:
            return self.sslice()
        if k < 0.78:
            return Cat(*[self.selfdet(d) for _ in range(r.randint(1, 3))])
        if k < 0.84:
            return Replicate(self.selfdet(d), r.randint(1, 3))
        if k < 0.92:
            return _Operator(">>>", [self.atom(), Constant(r.randint(0, 3))])
        return self.boolean(d - 1)

    def top(self, d):
        r = self.rng
        k = r.random()
        if k < 0.25:
            return _Operator(r.choice(ARITH), [self.word(d - 1), self.word(d - 1)])
        if k < 0.4 and self.s:
            other = r.choice([self.anyatom, self.anyatom, self.sconst, lambda: self.boolean(d - 1), self.sslice])()
            ops = [r.choice(self.s), other]
            if r.random() < 0.5:
                ops.reverse()
            return _Operator(r.choice(ARITH + BITW), ops)
        if k < 0.5 and self.s:
            br = [r.choice(self.s), self.anyatom()]
            if r.random() < 0.5:
                br.reverse()
            m = Mux(self.boolean(d - 1, True), *br)
            if r.random() < 0.6:
                # mixed-sign Mux as operand of a wider expression: its sign (s2 or s3) decides the promotion of
                # the neighbour
                ops = [m, r.choice([self.atom, self.atom, self.anyatom, self.sconst])()]
                if r.random() < 0.5:
                    ops.reverse()
                return _Operator(r.choice(ARITH + BITW), ops)
            return m
        if k < 0.58:
            return _Operator("<<<", [self.word(d - 1), Constant(r.randint(0, 3))])
        if k < 0.65:
            return _Operator("~", [self.word(d - 1)])
        if k < 0.72 and self.s:
            return _Operator("-", [r.choice(self.s)])
        if k < 0.76 and self.s:
            # arithmetic right shift of a (possibly negative) signed signal, at the top of a right-hand side
            return _Operator(">>>", [r.choice(self.s), Constant(r.randint(0, 3))])
        if k < 0.85:
            return self.boolean(d, True)
        return self.word(d)


class PyVSim:
    """Independent reading of a parsed module (ModuleText): non-blocking procedural semantics, comb re-evaluated
    to a fix-point, posedge blocks on request.  State: id -> bits."""

    def __init__(self, mt, name_ids, data_files=None):
        self.w = {}
        self.state = {}
        self._benv = None
        self._names = dict(name_ids)
        self.displayed = []      # ($display format, [(value bits, width, signed)...]) in execution order
        self.finished = False    # a $finish was executed
        for mname, md in mt.mems.items():
            words = [0] * md["depth"]
            if md["init_file"] is not None:
                content = (data_files or {})[md["init_file"]]
                for k, line in enumerate(content.split()):
                    words[k] = int(line, 16) & ((1 << md["w"]) - 1)
            self.state[("mem", md["id"])] = words
        for name, d in mt.decls.items():
            i = name_ids[name]
            self.w[i] = d["w"]
            self.state[i] = 0
            if d["init"] is not None:
                t, _ = build_vtree(d["init"])
                v_size(t)
                self.state[i] = v_assign_value(t, {}, d["w"])
        self.assigns, self.combs, self.syncs = [], [], []
        self.item_targets = []   # per module item: (kind, set of signal ids it assigns, has a concatenation target)
        self.kinds = {name_ids[n_]: d_["kind"] for n_, d_ in mt.decls.items()}
        driven = {}          # wire id -> mask of the bits some continuous assignment drives
        for it in mt.items:
            if it[0] == "assign":
                l, p = build_vtree(it, 1)
                r, p = build_vtree(it, p)
                self.assigns.append((v_size(l), v_size(r)))
                self.item_targets.append(("assign",) + self._lhs_ids([("a", l, r)]))
                parts = []
                try:
                    self.lhs_parts(l, 0, parts)
                except ParseError:
                    parts = []
                for i, lo, ln, _ in parts:
                    if not isinstance(i, tuple):
                        driven[i] = driven.get(i, 0) | (((1 << ln) - 1) << lo)
            elif it[0] == "comb":
                body, p = self.stmts(it, 2, int(it[1]))
                self.combs.append(body)
                self.item_targets.append(("comb",) + self._lhs_ids(body))
            else:
                body, p = self.stmts(it, 3, int(it[2]))
                self.syncs.append((int(it[1]), body))
                self.item_targets.append(("sync",) + self._lhs_ids(body))

        # a `wire` (internal or output port) some of whose bits no continuous assignment drives is Z/X in Verilog,
        # whatever the simulator holds there (its reset value): name -> (width, mask of undriven bits)
        self.undriven = {}
        for name, d in mt.decls.items():
            if d["kind"] in ("w", "ow"):
                i = name_ids[name]
                miss = ((1 << d["w"]) - 1) & ~driven.get(i, 0)
                if miss:
                    self.undriven[name] = (d["w"], miss)

    def _lhs_ids(self, body):
        """(signal ids assigned anywhere in the statements, True if some target is a concatenation of several signals)."""
        out, cat = set(), [False]

        def lhs(l):
            if l.k == "id":
                return {l.a[0]}
            if l.k == "psel":
                return lhs(l.a[2])
            if l.k == "cat":
                r = set()
                for e in l.a:
                    r |= lhs(e)
                if len(r) > 1:
                    cat[0] = True
                return r
            return set()        # memory word

        def walk(ss):
            for s in ss:
                if s[0] in ("a", "e"):
                    out.update(lhs(s[1]))
                elif s[0] == "f":
                    walk(s[2])
                    walk(s[3])
                elif s[0] == "w":
                    for _, b in s[2]:
                        walk(b)
                    if s[3] is not None:
                        walk(s[3])
        walk(body)
        return out, cat[0]

    def driver_report(self):
        """Structural reading of the text, independent of any value: a signal assigned from more than one module
        item (several processes / continuous assignments race on it: the settled value is not determined by IEEE
        1364), or a continuous assignment to a signal declared reg (illegal Verilog).  Returns (report or None,
        in_cat_region): in_cat_region = every offending signal is (also) driven through a concatenation target
        spanning several signals - the region of the open finding C01-sim-backend-cat-target."""
        drivers = {}
        via_cat = set()
        for k, (kind, tg, cat) in enumerate(self.item_targets):
            for t in tg:
                drivers.setdefault(t, []).append((k, kind))
                if cat:
                    via_cat.add(t)
        names = {i: n_ for n_, i in self._names.items()} if hasattr(self, "_names") else {}
        multi = {t: l for t, l in drivers.items() if len(l) > 1}
        reg_assign = {t for t, l in drivers.items() if self.kinds.get(t) in ("r", "or") and any(kd == "assign" for _, kd in l)}
        bad = set(multi) | reg_assign
        if not bad:
            return None, False
        rep = {"multiply_driven": {str(names.get(t, t)): [kd for _, kd in l] for t, l in sorted(multi.items())},
               "continuous_assignment_to_reg": sorted(str(names.get(t, t)) for t in reg_assign),
               "what": "the text drives a signal from several module items (processes race: the value is not determined "
                       "by the Verilog semantics) or continuously assigns a reg (illegal Verilog); the simulated design "
                       "has one driver semantics (last assignment wins)"}
        return rep, bad <= via_cat

    def undriven_report(self):
        """Failing-input fragment for a text with partly undriven wires, or None."""
        if not self.undriven:
            return None
        return {"undriven_wire_bits": {n: "%d'b%s" % (w, "".join("x" if (m >> k) & 1 else "-" for k in reversed(range(w))))
                                       for n, (w, m) in self.undriven.items()},
                "what": "the text declares a wire some bits of which no continuous assignment drives (Z/X in Verilog, "
                        "different from any value); the simulator holds the signal's reset value there"}

    def stmts(self, t, p, n):
        out = []
        for _ in range(n):
            s, p = self.stmt(t, p)
            out.append(s)
        return out, p

    def stmt(self, t, p):
        k = t[p]
        if k == "a" or k == "e":
            l, p = build_vtree(t, p + 1)
            r, p = build_vtree(t, p)
            return (k, v_size(l), v_size(r)), p
        if k == "f":
            c, p = build_vtree(t, p + 1)
            tt, p = self.stmts(t, p + 1, int(t[p]))
            p += 1  # hasElse flag
            ff, p = self.stmts(t, p + 1, int(t[p]))
            return ("f", v_size(c), tt, ff), p
        if k == "w":
            test, p = build_vtree(t, p + 1)
            n = int(t[p])
            p += 1
            items = []
            for _ in range(n):
                key, p = build_vtree(t, p)
                body, p = self.stmts(t, p + 1, int(t[p]))
                items.append((v_size(key), body))
            dflt = None
            if t[p] == "1":
                dflt, p = self.stmts(t, p + 2, int(t[p + 1]))
            else:
                p += 1
            return ("w", v_size(test), items, dflt), p
        if k == "y":
            fmt = bytes.fromhex(t[p + 1][1:]).decode()
            n = int(t[p + 2])
            p += 3
            args = []
            for _ in range(n):
                a, p = build_vtree(t, p)
                args.append(v_size(a))
            return ("y", fmt, args), p
        if k == "z":
            return ("z",), p + 1
        raise ParseError("stmt " + k)

    def lhs_parts(self, l, v, out):
        """Split the value over the target(s): list of (id, lo, len, bits)."""
        env = self._benv if self._benv is not None else self.state
        if l.k == "mem":
            idx = v_eval(l.a[2], env, l.a[2].w, l.a[2].s)
            out.append((("mem", l.a[0], idx), 0, l.w, v & ((1 << l.w) - 1)))
        elif l.k == "psel" and l.a[2].k == "mem":
            m = l.a[2]
            idx = v_eval(m.a[2], env, m.a[2].w, m.a[2].s)
            out.append((("mem", m.a[0], idx), l.a[1], l.w, v & ((1 << l.w) - 1)))
        elif l.k == "id":
            out.append((l.a[0], 0, l.w, v & ((1 << l.w) - 1)))
        elif l.k == "psel" and l.a[2].k == "id":
            out.append((l.a[2].a[0], l.a[1], l.w, v & ((1 << l.w) - 1)))
        elif l.k == "cat":
            off = 0
            for e in reversed(l.a):
                self.lhs_parts(e, v >> off, out)
                off += e.w
        else:
            raise ParseError("target")

    def run_block(self, body, upd):
        """One always block: blocking assignments are visible to the following statements of the block."""
        self._benv = None
        try:
            self.run(body, upd)
        finally:
            self._benv = None

    def run(self, body, upd):
        for s in body:
            env = self._benv if self._benv is not None else self.state
            if s[0] == "a":
                self.lhs_parts(s[1], v_assign_value(s[2], env, s[1].w), upd)
            elif s[0] == "e":
                parts = []
                self.lhs_parts(s[1], v_assign_value(s[2], env, s[1].w), parts)
                if self._benv is None:
                    self._benv = dict(self.state)
                for i, lo, ln, bits in parts:
                    if isinstance(i, tuple):
                        raise ParseError("blocking assignment to a memory word")
                    mask = ((1 << ln) - 1) << lo
                    self._benv[i] = ((self._benv[i] & ~mask) | ((bits << lo) & mask)) & ((1 << self.w[i]) - 1)
                upd += parts
            elif s[0] == "f":
                self.run(s[2] if v_eval(s[1], env, s[1].w, s[1].s) != 0 else s[3], upd)
            elif s[0] == "y":
                self.displayed.append((s[1], [(v_eval(a, env, a.w, a.s), a.w, a.s) for a in s[2]]))
            elif s[0] == "z":
                self.finished = True
            else:
                test, items, dflt = s[1], s[2], s[3]
                W = max([test.w] + [k.w for k, _ in items])
                sg = test.s and all(k.s for k, _ in items)
                tv = v_eval(test, env, W, sg)
                for k, body2 in items:
                    if v_eval(k, env, W, sg) == tv:
                        self.run(body2, upd)
                        break
                else:
                    if dflt is not None:
                        self.run(dflt, upd)

    def apply(self, upd):
        changed = False
        for i, lo, ln, bits in upd:
            mask = ((1 << ln) - 1) << lo
            if isinstance(i, tuple):
                words = self.state[("mem", i[1])]
                if i[2] < len(words):
                    cur = words[i[2]]
                    new = (cur & ~mask) | ((bits << lo) & mask)
                    if new != cur:
                        words[i[2]] = new
                        changed = True
                continue
            cur = self.state[i]
            new = ((cur & ~mask) | ((bits << lo) & mask)) & ((1 << self.w[i]) - 1)
            if new != cur:
                self.state[i] = new
                changed = True
        return changed

    def settle(self, fuel=64):
        for _ in range(fuel):
            upd = []
            for l, r in self.assigns:
                self.lhs_parts(l, v_assign_value(r, self.state, l.w), upd)
            for body in self.combs:
                self.run_block(body, upd)
            # all right-hand sides were evaluated on the old state: apply on a copy-free basis is fine because
            # `upd` holds values, not expressions
            if not self.apply(upd):
                return

    def tick(self, clk_ids):
        upd = []
        for clk, body in self.syncs:
            if clk in clk_ids:
                self.run_block(body, upd)
        self.apply(upd)
        self.settle()
