"""AXI-Lite / AXI4 fabric instances, letters, protocol-legal environments and property monitors
(C08; the C09/C11 builders may reuse this file read-only).

Contents
  * `FastNetlist`   compiled evaluator for a lowered FHDL netlist (same interface as `netlist.Netlist`), about 50x
                    faster than driving `litex.gen.sim.core.Evaluator`; `crosscheck()` ties it to the Evaluator.
  * channel tables  `LITE` / `FULL`: the five channels, their pass-through payload fields and how they are packed
                    into one number per channel (`*.pay`).
  * `AxiFabric`     instance protocol of `explore.py` for an n-master x m-slave fabric (arbiter, decoder, shared
                    interconnect, crossbar, point-to-point; AXI-Lite or AXI4).
  * letters         `m_part / s_part`, `product_letters`, alphabets for exhaustive exploration.
  * `AxiEnv`        feedback generator of AXI-legal masters and slaves (valid held with stable payload until ready,
                    several outstanding requests, random back-pressure, data before/with/after address).
  * `AxiMonitor`    model-independent property oracle: per-port protocol checker + routing scoreboard.

A *fabric* sits between `n` master ports and `m` slave ports.  The harness plays all masters and all slaves.

Letter (= per-cycle input, flat tuple; same order as `lean/LitexModel/Axi/LiteInterconnectNum.lean`):
    for each master i: aw.valid aw.addr aw.pay  w.valid w.pay  b.ready  ar.valid ar.addr ar.pay  r.ready      (M_IN, 10)
    for each slave  j: aw.ready  w.ready  b.valid b.pay  ar.ready  r.valid r.last r.pay                        (S_IN, 8)
Outputs (flat list):
    for each slave  j: the 10 master-to-slave numbers it sees
    for each master i: the 8 slave-to-master numbers it sees
`*.pay` packs the channel's pass-through payload (LSB first):
    AXI-Lite  aw/ar.pay = prot            w.pay = data, strb              b.pay = resp      r.pay = resp, data
    AXI4      aw/ar.pay = burst,len,size,lock,prot,cache,qos,region,id    w.pay = data,strb,last   b.pay = resp,id
              r.pay = resp,data,id
Comparison qualifiers: a payload (addr/pay) is compared only while its channel's valid is 1 on the observing side.
"""
import itertools
import envshim  # noqa: F401
from netlist import Netlist
from migen.fhdl.structure import (Signal, Constant, Cat, Replicate, If, Case, _Operator, _Slice, _ArrayProxy,
                                  _Assign)
from migen.fhdl.bitcontainer import value_bits_sign
import collections.abc

M_IN = ("aw.valid", "aw.addr", "aw.pay", "w.valid", "w.pay", "b.ready", "ar.valid", "ar.addr", "ar.pay", "r.ready")
S_IN = ("aw.ready", "w.ready", "b.valid", "b.pay", "ar.ready", "r.valid", "r.last", "r.pay")
NM, NS = len(M_IN), len(S_IN)
# indexes inside a master part / slave part
AWV, AWA, AWP, WV, WP, BR, ARV, ARA, ARP, RR = range(10)
AWR, WR, BV, BP, ARR, RV, RL, RP = range(8)


# ---------------------------------------------------------------------------------------------------------
# compiled evaluator

class Unsupported(Exception):
    pass


class _Compiler:
    """Translates lowered FHDL statements into Python source over a value list `v` (one slot per signal).
    Expression semantics are copied operator by operator from `litex.gen.sim.core.Evaluator.eval/assign/execute`
    (unbounded Python integers, truncation only on assignment)."""

    def __init__(self):
        self.idx = {}
        self.sigs = []

    def slot(self, sig):
        k = self.idx.get(sig)
        if k is None:
            k = len(self.sigs)
            self.idx[sig] = k
            self.sigs.append(sig)
        return k

    # -- expressions ------------------------------------------------------------------------------
    def E(self, node, reads):
        if isinstance(node, Constant):
            return repr(int(node.value))
        if isinstance(node, Signal):
            reads.add(node)
            return "v[%d]" % self.slot(node)
        if isinstance(node, _Operator):
            ops = [self.E(o, reads) for o in node.operands]
            op = node.op
            if op == "-" and len(ops) == 1:
                return "(-%s)" % ops[0]
            if op == "~":
                return "(~%s)" % ops[0]
            if op == "m":
                return "(%s if %s else %s)" % (ops[1], ops[0], ops[2])
            pyop = {">>>": ">>", "<<<": "<<"}.get(op, op)
            if pyop not in ("+", "-", "*", ">>", "<<", "&", "^", "|", "<", "<=", "==", "!=", ">", ">="):
                raise Unsupported(op)
            return "(%s %s %s)" % (ops[0], pyop, ops[1])
        if isinstance(node, _Slice):
            w = node.stop - node.start
            return "((%s >> %d) & %d)" % (self.E(node.value, reads), node.start, (1 << w) - 1)
        if isinstance(node, Cat):
            parts = []
            shift = 0
            for el in node.l:
                nb = len(el)
                parts.append("((%s & %d) << %d)" % (self.E(el, reads), (1 << nb) - 1, shift))
                shift += nb
            return "(" + " | ".join(parts) + ")" if parts else "0"
        if isinstance(node, Replicate):
            nb = len(node.v)
            k = sum(1 << (i * nb) for i in range(node.n))
            return "((%s & %d) * %d)" % (self.E(node.v, reads), (1 << nb) - 1, k)
        if isinstance(node, _ArrayProxy):
            ch = [self.E(c, reads) for c in node.choices]
            return "(%s,)[min(%d, %s)]" % (", ".join(ch), len(ch) - 1, self.E(node.key, reads))
        raise Unsupported(type(node).__name__)

    # -- statements -------------------------------------------------------------------------------
    def assign(self, node, src, out, ind, targets):
        pad = "    " * ind
        if isinstance(node, Signal):
            k = self.slot(node)
            targets.add(node)
            if node.signed:
                out.append("%sp%d = _ts(%s, %d)" % (pad, k, src, node.nbits))
            else:
                out.append("%sp%d = (%s) & %d" % (pad, k, src, (1 << node.nbits) - 1))
        elif isinstance(node, _Slice) and isinstance(node.value, Signal):
            sig = node.value
            k = self.slot(sig)
            targets.add(sig)
            clear = ((1 << node.stop) - 1) - ((1 << node.start) - 1)
            w = node.stop - node.start
            full = "((p%d & ~%d) | (((%s) & %d) << %d))" % (k, clear, src, (1 << w) - 1, node.start)
            self.assign(sig, full, out, ind, targets)
        elif isinstance(node, Cat):
            out.append("%s_c = %s" % (pad, src))
            for el in node.l:
                nb = len(el)
                self.assign(el, "_c & %d" % ((1 << nb) - 1), out, ind, targets)
                out.append("%s_c >>= %d" % (pad, nb))
        else:
            raise Unsupported("assign to " + type(node).__name__)

    def S(self, stmts, out, ind, reads, targets):
        pad = "    " * ind
        n0 = len(out)
        for s in stmts:
            if isinstance(s, _Assign):
                self.assign(s.l, self.E(s.r, reads), out, ind, targets)
            elif isinstance(s, If):
                out.append("%sif %s & %d:" % (pad, self.E(s.cond, reads), (1 << len(s.cond)) - 1))
                self.S(s.t, out, ind + 1, reads, targets)
                if s.f:
                    out.append("%selse:" % pad)
                    self.S(s.f, out, ind + 1, reads, targets)
            elif isinstance(s, Case):
                nbits, signed = value_bits_sign(s.test)
                t = self.E(s.test, reads)
                out.append("%s_t = %s" % (pad, ("_ts(%s, %d)" % (t, nbits)) if signed else "(%s) & %d" % (t, (1 << nbits) - 1)))
                first = True
                for k, body in s.cases.items():
                    if isinstance(k, Constant):
                        out.append("%s%s _t == %d:" % (pad, "if" if first else "elif", k.value))
                        first = False
                        self.S(body, out, ind + 1, reads, targets)
                if "default" in s.cases:
                    if first:
                        out.append("%sif True:" % pad)
                    else:
                        out.append("%selse:" % pad)
                    self.S(s.cases["default"], out, ind + 1, reads, targets)
            elif isinstance(s, collections.abc.Iterable):
                self.S(s, out, ind, reads, targets)
            else:
                raise Unsupported(type(s).__name__)
        if len(out) == n0:
            out.append("%spass" % pad)


def _ts(value, nbits):
    value &= (1 << nbits) - 1
    if value >> (nbits - 1):
        value -= 1 << nbits
    return value


class FastNetlist:
    """Same interface as `netlist.Netlist`, but the lowered fragment (produced by the repository's own
    `Simulator.__init__`, i.e. the real code and the real lowering passes) is compiled to two Python functions:

      settle : the comb statements grouped by target signal (original order inside a group, the simulator's
               reset-default first) and executed once in topological order of the groups.  For an acyclic
               combinational network this is the unique fix-point the Evaluator's delta-cycle iteration reaches.
      tick   : the sync statements of a clock domain, all reads taken before any write.

    A combinational loop, or a construct the compiler does not know, raises `Unsupported` (use `Netlist` then).
    `crosscheck()` runs this evaluator and the real `Evaluator` side by side."""

    def __init__(self, module, clocks=("sys",)):
        base = Netlist(module, clocks)
        self.base = base
        comp = _Compiler()
        self.comp = comp
        # ---- comb: group top-level statements by target (union-find over shared targets)
        from migen.fhdl.tools import list_targets
        stmts = list(base.comb)
        parent = list(range(len(stmts)))

        def find(k):
            while parent[k] != k:
                parent[k] = parent[parent[k]]
                k = parent[k]
            return k
        owner = {}
        for k, s in enumerate(stmts):
            for t in list_targets([s]):
                if t in owner:
                    ra, rb = find(owner[t]), find(k)
                    if ra != rb:
                        parent[max(ra, rb)] = min(ra, rb)
                else:
                    owner[t] = k
        members = {}
        for k in range(len(stmts)):
            members.setdefault(find(k), []).append(k)      # ascending = original order
        blocks = []          # [stmts, reads, targets, source lines]
        for root in sorted(members):
            out, reads, targets = [], set(), set()
            comp.S([stmts[k] for k in members[root]], out, 1, reads, targets)
            blocks.append([None, reads, targets, out])
        tgt_block = {}
        for k, b in enumerate(blocks):
            for t in b[2]:
                tgt_block[t] = k
        deps = []
        for k, b in enumerate(blocks):
            d = set()
            for r in b[1]:
                if r in tgt_block:
                    if tgt_block[r] == k:
                        raise Unsupported("combinational self-reference")
                    d.add(tgt_block[r])
            deps.append(d)
        order, state = [], {}

        def visit(k):
            stack = [(k, iter(sorted(deps[k])))]
            state[k] = 1
            while stack:
                node, it = stack[-1]
                for d in it:
                    if state.get(d) == 1:
                        raise Unsupported("combinational loop")
                    if d not in state:
                        state[d] = 1
                        stack.append((d, iter(sorted(deps[d]))))
                        break
                else:
                    state[node] = 2
                    order.append(node)
                    stack.pop()
        for k in range(len(blocks)):
            if k not in state:
                visit(k)
        src = ["def settle(v):"]
        for k in order:
            b = blocks[k]
            ts = sorted(comp.slot(t) for t in b[2])
            for t in ts:
                src.append("    p%d = v[%d]" % (t, t))
            src += b[3]
            for t in ts:
                src.append("    v[%d] = p%d" % (t, t))
        src.append("    return None")
        # ---- sync
        self._sync_targets = {}
        for cd, stmts in base.sync.items():
            out, reads, targets = [], set(), set()
            comp.S(stmts, out, 1, reads, targets)
            ts = sorted(comp.slot(t) for t in targets)
            src.append("def tick_%s(v):" % cd)
            for t in ts:
                src.append("    p%d = v[%d]" % (t, t))
            src += out
            src.append("    return (%s)" % "".join("p%d, " % t for t in ts))
            self._sync_targets[cd] = ts
        for s in base.regs:
            comp.slot(s)
        ns = {"_ts": _ts}
        self.source = "\n".join(src)
        exec(compile(self.source, "<fastnetlist>", "exec"), ns)
        self._settle = ns["settle"]
        self._tick = {cd: ns["tick_" + cd] for cd in base.sync}
        self.sigs = comp.sigs
        self.idx = comp.idx
        self.v = [s.reset.value for s in comp.sigs]
        self.regs = base.regs
        self._reg_slots = [comp.idx[s] for s in base.regs]
        self.comb_targets = base.comb_targets
        self._settle(self.v)

    def slot(self, sig):
        k = self.idx.get(sig)
        if k is None:
            k = self.comp.slot(sig)
            self.v.append(sig.reset.value)
        return k

    def set(self, sig, value):
        nbits = sig.nbits
        value &= (1 << nbits) - 1
        if sig.signed and value >> (nbits - 1):
            value -= 1 << nbits
        self.v[self.slot(sig)] = value

    def settle(self):
        self._settle(self.v)

    def get(self, sig):
        return self.v[self.slot(sig)]

    def getu(self, sig):
        return self.v[self.slot(sig)] & ((1 << len(sig)) - 1)

    def tick(self, cds=("sys",)):
        v = self.v
        res = [(cd, self._tick[cd](v)) for cd in cds if cd in self._tick]
        for cd, vals in res:
            for t, x in zip(self._sync_targets[cd], vals):
                v[t] = x
        self._settle(v)

    def snapshot(self):
        return list(self.v)

    def restore(self, snap):
        self.v = list(snap)

    def state_key(self):
        v = self.v
        return tuple(v[k] for k in self._reg_slots)

    def crosscheck(self, inputs, observed, rng, cycles=200, letters=None):
        """Drive this evaluator and the real `Evaluator` (`self.base`) with the same random inputs for `cycles`
        cycles from the current state of `self` = reset; compare `observed` signals before every edge and the
        registers after it.  Returns None or a description of the first difference."""
        base = self.base
        root_f, root_b = self.snapshot(), base.snapshot()
        bad = None
        for t in range(cycles):
            vals = letters(rng, t) if letters else [rng.getrandbits(len(s)) for s in inputs]
            for s, x in zip(inputs, vals):
                self.set(s, x)
                base.set(s, x)
            self.settle()
            base.settle()
            a = [self.getu(s) for s in observed]
            b = [base.getu(s) for s in observed]
            if a != b:
                bad = "cycle %d: compiled evaluator outputs %r, Evaluator %r (inputs %r)" % (t, a, b, vals)
                break
            self.tick()
            base.tick()
            if self.state_key() != base.state_key():
                bad = "cycle %d: registers differ after the edge: compiled %r, Evaluator %r" % (
                    t, self.state_key(), base.state_key())
                break
        self.restore(root_f)
        base.restore(root_b)
        return bad

    def tick_lazy(self, cds=("sys",)):
        """Clock edge without the combinational re-evaluation (the caller settles before reading anything)."""
        v = self.v
        res = [(cd, self._tick[cd](v)) for cd in cds if cd in self._tick]
        for cd, vals in res:
            for t, x in zip(self._sync_targets[cd], vals):
                v[t] = x


# ---------------------------------------------------------------------------------------------------------
# channel tables

CHANNELS = ("aw", "w", "b", "ar", "r")


def pay_fields(port, ch, full):
    """Pass-through payload signals of channel `ch` packed into `<ch>.pay`, LSB first: every payload/param field
    except `addr`, plus `w.last` for AXI4."""
    ep = getattr(port, ch)
    names = [n for n, _ in ep.description.payload_layout + ep.description.param_layout if n != "addr"]
    sigs = [getattr(ep, n) for n in names]
    if full and ch == "w":
        sigs.append(ep.last)
    return sigs


def pack(values_widths):
    out, sh = 0, 0
    for v, w in values_widths:
        out |= (v & ((1 << w) - 1)) << sh
        sh += w
    return out


class PortMap:
    """Signals behind the 10 master-to-slave and 8 slave-to-master numbers of one port."""

    def __init__(self, port, full):
        p = port
        one = lambda s: [s]
        self.ms = [one(p.aw.valid), one(p.aw.addr), pay_fields(p, "aw", full), one(p.w.valid), pay_fields(p, "w", full),
                   one(p.b.ready), one(p.ar.valid), one(p.ar.addr), pay_fields(p, "ar", full), one(p.r.ready)]
        self.sm = [one(p.aw.ready), one(p.w.ready), one(p.b.valid), pay_fields(p, "b", full), one(p.ar.ready),
                   one(p.r.valid), one(p.r.last), pay_fields(p, "r", full)]

    def field(self, ch, name, port, full):
        """(shift, width) of a named field inside `<ch>.pay`."""
        sh = 0
        for s in pay_fields(port, ch, full):
            if s is getattr(getattr(port, ch), name):
                return sh, len(s)
            sh += len(s)
        raise KeyError(name)


# ---------------------------------------------------------------------------------------------------------
# letter parts

def m_part(aw=None, w=None, b_ready=0, ar=None, r_ready=0, idle_aw=(0, 0), idle_w=0, idle_ar=(0, 0)):
    """Master part.  `aw`/`ar` = (addr, pay) or None (then valid = 0 and the lines carry `idle_*`); `w` = pay or None."""
    awv, (awa, awp) = (1, aw) if aw is not None else (0, idle_aw)
    wv, wp = (1, w) if w is not None else (0, idle_w)
    arv, (ara, arp) = (1, ar) if ar is not None else (0, idle_ar)
    return (awv, awa, awp, wv, wp, b_ready, arv, ara, arp, r_ready)


def s_part(aw_ready=0, w_ready=0, b=None, ar_ready=0, r=None, idle_b=0, idle_r=(0, 0)):
    """Slave part.  `b` = pay or None; `r` = (last, pay) or None."""
    bv, bp = (1, b) if b is not None else (0, idle_b)
    rv, (rl, rp) = (1, r) if r is not None else (0, idle_r)
    return (aw_ready, w_ready, bv, bp, ar_ready, rv, rl, rp)


def product_letters(master_sets, slave_sets):
    out = []
    for combo in itertools.product(*(list(master_sets) + list(slave_sets))):
        out.append(tuple(itertools.chain.from_iterable(combo)))
    return out


def split_letter(letter, n, m):
    ms = [tuple(letter[NM * i:NM * (i + 1)]) for i in range(n)]
    ss = [tuple(letter[NM * n + NS * j:NM * n + NS * (j + 1)]) for j in range(m)]
    return ms, ss


def split_outs(outs, n, m):
    to_s = [tuple(outs[NM * j:NM * (j + 1)]) for j in range(m)]
    to_m = [tuple(outs[NM * m + NS * i:NM * m + NS * (i + 1)]) for i in range(n)]
    return to_s, to_m


# ---------------------------------------------------------------------------------------------------------
# instances

class _EnvNetlist:
    """Netlist plus the outstanding-request limiter of mode A (part of the explored state).
    `cnt[d][j]` = requests accepted by slave j in direction d (0 write / 1 read) whose response has not left it."""

    def __init__(self, netlist, m):
        self.n = netlist
        self.m = m
        self.cnt = (0,) * (2 * m)
        self.pending = None

    def tick(self, cds=("sys",)):
        if self.pending is not None:
            self.cnt = self.pending
            self.pending = None
        if hasattr(self.n, "tick_lazy"):
            self.n.tick_lazy(cds)
        else:
            self.n.tick(cds)

    def snapshot(self):
        return (self.n.snapshot(), self.cnt)

    def restore(self, snap):
        self.n.restore(snap[0])
        self.cnt = snap[1]
        self.pending = None

    def state_key(self):
        return (self.n.state_key(), self.cnt)


class AxiFabric:
    """Instance protocol of explore.py for an n-master x m-slave AXI-Lite / AXI4 fabric.

    kind   : "shared" | "xbar" | "p2p" | "arb" | "dec"
    decs   : list of wblib.Dec* (one per slave; `match(word_address, bus)` is the specification of the address map)
    full   : AXI4 (`axi_full.py`) instead of AXI-Lite
    limit  : mode A only — a slave stops accepting addresses (`a*.ready` forced to 0 in the *effective* letter, which
             is also what the model is given) once it holds `limit` unanswered requests in that direction; bounds
             the 8-bit counters so that the reachable product is finite and small
    domain : the generator/monitor stay inside the hypotheses of `axl_route_partial` (SameSlaveWhileLocked,
             NoDataBeforeAddr); with domain=False the monitor checks only address-independent rules
    """

    def __init__(self, name, kind, module, masters, slaves, decs, lean_open, full=False, alphabet=None, env=None,
                 limit=None, domain=True, fast=True, env_kw=None):
        self.name, self.kind, self.module = name, kind, module
        self.masters, self.slaves, self.decs = masters, slaves, decs
        self.n, self.m = len(masters), len(slaves)
        self.full = full
        self.lean_open = lean_open
        self.bus = masters[0]
        self.data_width = self.bus.data_width
        self.addr_shift = (self.data_width // 8).bit_length() - 1
        self.limit = limit
        self.domain = domain
        try:
            nl = FastNetlist(module) if fast else Netlist(module)
        except Unsupported:
            nl = Netlist(module)
        self.raw = nl
        self.fast = isinstance(nl, FastNetlist)
        self.netlist = _EnvNetlist(nl, self.m)
        self.inputs = None
        self.outputs = None
        self.alphabet = alphabet or []
        self.env_factory = env
        self.env_kw = env_kw or {}
        self._env = None
        self.last = None
        self.mmaps = [PortMap(p, full) for p in masters]
        self.smaps = [PortMap(p, full) for p in slaves]
        # input / output plans: per number, list of (signal, shift, mask)
        def plan(groups):
            out = []
            for sigs in groups:
                sh = 0
                item = []
                for s in sigs:
                    item.append((s, sh, (1 << len(s)) - 1))
                    sh += len(s)
                out.append(item)
            return out
        self._in = []
        for pm in self.mmaps:
            self._in += plan(pm.ms)
        for pm in self.smaps:
            self._in += plan(pm.sm)
        self._out = []
        for pm in self.smaps:
            self._out += plan(pm.ms)
        for pm in self.mmaps:
            self._out += plan(pm.sm)
        if self.fast:
            self._in_slots = [[(nl.slot(s), sh, mk) for s, sh, mk in item] for item in self._in]
            self._out_slots = [[(nl.slot(s), sh, mk) for s, sh, mk in item] for item in self._out]
        q = []
        for j in range(self.m):
            b = NM * j
            q += [None, b + AWV, b + AWV, None, b + WV, None, None, b + ARV, b + ARV, None]
        for i in range(self.n):
            b = NM * self.m + NS * i
            q += [None, None, None, b + BV, None, None, b + RV, b + RV]
        self.qual = q
        self._letter = None

    # -- explore.impl_step hooks ------------------------------------------------------------------------
    def effective(self, letter):
        """Mode-A limiter: a slave holding `limit` unanswered requests does not accept another address."""
        if self.limit is None:
            return letter
        cnt = self.netlist.cnt
        l = None
        for j in range(self.m):
            base = NM * self.n + NS * j
            if cnt[j] >= self.limit and letter[base + AWR]:
                l = l or list(letter)
                l[base + AWR] = 0
            if cnt[self.m + j] >= self.limit and letter[base + ARR]:
                l = l or list(letter)
                l[base + ARR] = 0
        return tuple(l) if l is not None else letter

    def apply(self, letter):
        letter = self.effective(letter)
        nl = self.raw
        if self.fast:
            v = nl.v
            for x, item in zip(letter, self._in_slots):
                for slot, sh, mk in item:
                    v[slot] = (x >> sh) & mk
            nl._settle(v)
        else:
            for x, item in zip(letter, self._in):
                for s, sh, mk in item:
                    nl.set(s, (x >> sh) & mk)
            nl.settle()
        self._letter = letter

    def sample(self):
        nl = self.raw
        if self.fast:
            v = nl.v
            outs = []
            for item in self._out_slots:
                x = 0
                for slot, sh, mk in item:
                    x |= (v[slot] & mk) << sh
                outs.append(x)
        else:
            outs = []
            for item in self._out:
                x = 0
                for s, sh, mk in item:
                    x |= (nl.getu(s) & mk) << sh
                outs.append(x)
        letter = self._letter
        self.last = (letter, outs)
        if self.limit is not None:
            n, m = self.n, self.m
            cnt = list(self.netlist.cnt)
            for j in range(m):
                li, oi = NM * n + NS * j, NM * j
                rq = outs[oi + AWV] and letter[li + AWR]
                rs = letter[li + BV] and outs[oi + BR]
                cnt[j] = max(0, cnt[j] + (1 if rq else 0) - (1 if rs else 0))
                rq = outs[oi + ARV] and letter[li + ARR]
                rs = letter[li + RV] and outs[oi + RR] and (letter[li + RL] or not self.full)
                cnt[m + j] = max(0, cnt[m + j] + (1 if rq else 0) - (1 if rs else 0))
            self.netlist.pending = tuple(cnt)
        return outs

    def model_letter(self, letter):
        """The letter the model is given = what was actually driven (after the limiter)."""
        return self._letter

    def nontrivial(self, letter, outs):
        """Some handshake happens at a slave port or at a master port."""
        letter = self._letter if self._letter is not None else letter
        n, m = self.n, self.m
        for j in range(m):
            li, oi = NM * n + NS * j, NM * j
            if (outs[oi + AWV] and letter[li + AWR]) or (outs[oi + WV] and letter[li + WR]) or \
               (letter[li + BV] and outs[oi + BR]) or (outs[oi + ARV] and letter[li + ARR]) or \
               (letter[li + RV] and outs[oi + RR]):
                return True
        for i in range(n):
            li, oi = NM * i, NM * m + NS * i
            if (letter[li + AWV] and outs[oi + AWR]) or (letter[li + WV] and outs[oi + WR]) or \
               (outs[oi + BV] and letter[li + BR]) or (letter[li + ARV] and outs[oi + ARR]) or \
               (outs[oi + RV] and letter[li + RR]):
                return True
        return False

    def decode(self, j, byte_addr):
        """Specification of the address map: does slave j own this byte address?"""
        return bool(self.decs[j].match(byte_addr >> self.addr_shift, self.bus))

    def target(self, byte_addr):
        """The slaves whose region contains the address (a well-formed map gives at most one)."""
        return [j for j in range(self.m) if self.decode(j, byte_addr)]

    def peek(self, letter):
        """Outputs the current state would produce for `letter` (no clock edge).  Used by feedback generators."""
        self.apply(letter)
        keep = self.netlist.pending
        outs = self.sample()
        self.netlist.pending = keep
        return outs

    def gen(self, rng, t):
        if t == 0 or self._env is None:
            self._env = (self.env_factory or AxiEnv)(self, **self.env_kw)
            self.last = None
        return self._env.next_letter(rng, t, self.last)

    def monitor(self):
        return AxiMonitor(self)

    def crosscheck(self, rng, cycles=150):
        """Compiled evaluator against the repository's Evaluator on random letters (all input lines random)."""
        if not self.fast:
            return None
        ins = [s for item in self._in for s, _, _ in item]
        outs = [s for item in self._out for s, _, _ in item]
        return self.raw.crosscheck(ins, outs, rng, cycles)


def _word_addr_width(port):
    return port.address_width - ((port.data_width // 8).bit_length() - 1)


def _ifaces(k, data_width, address_width, full, id_width=1):
    if full:
        from litex.soc.interconnect.axi.axi_full import AXIInterface
        return [AXIInterface(data_width=data_width, address_width=address_width, id_width=id_width) for _ in range(k)]
    from litex.soc.interconnect.axi.axi_lite import AXILiteInterface
    return [AXILiteInterface(data_width=data_width, address_width=address_width) for _ in range(k)]


def _classes(full):
    if full:
        from litex.soc.interconnect.axi import axi_full as A
        return A.AXIArbiter, A.AXIDecoder, A.AXIInterconnectShared, A.AXICrossbar, A.AXIInterconnectPointToPoint
    from litex.soc.interconnect.axi import axi_lite as A
    return (A.AXILiteArbiter, A.AXILiteDecoder, A.AXILiteInterconnectShared, A.AXILiteCrossbar,
            A.AXILiteInterconnectPointToPoint)


def _tag(full):
    return "AXI" if full else "AXILite"


def make_shared(n, decs, full=False, data_width=8, address_width=2, **kw):
    m = len(decs)
    masters, slaves = _ifaces(n, data_width, address_width, full), _ifaces(m, data_width, address_width, full)
    bus = masters[0]
    cls = _classes(full)[2]
    mod = cls(masters, [(d.fn(bus), s) for d, s in zip(decs, slaves)], timeout_cycles=None)
    name = kw.pop("name", None) or "%sShared %dx%d/%db" % (_tag(full), n, m, data_width)
    lean_open = "shared %d %d %d %d %d %s" % (n, m, int(full), data_width, address_width, " ".join(d.word() for d in decs))
    return AxiFabric(name, "shared", mod, masters, slaves, decs, lean_open, full=full, **kw)


def make_xbar(n, decs, full=False, data_width=8, address_width=2, timeout_arg=None, **kw):
    m = len(decs)
    masters, slaves = _ifaces(n, data_width, address_width, full), _ifaces(m, data_width, address_width, full)
    bus = masters[0]
    cls = _classes(full)[3]
    args = {} if timeout_arg is None else {"timeout_cycles": timeout_arg}
    mod = cls(masters, [(d.fn(bus), s) for d, s in zip(decs, slaves)], **args)
    name = kw.pop("name", None) or "%sCrossbar %dx%d/%db" % (_tag(full), n, m, data_width)
    lean_open = "xbar %d %d %d %d %d %s" % (n, m, int(full), data_width, address_width, " ".join(d.word() for d in decs))
    return AxiFabric(name, "xbar", mod, masters, slaves, decs, lean_open, full=full, **kw)


def make_arb(n, full=False, data_width=8, address_width=2, **kw):
    """`AXI(Lite)Arbiter(masters, target)` alone; the target is slave port 0."""
    import wblib
    from migen import Module
    masters, slaves = _ifaces(n, data_width, address_width, full), _ifaces(1, data_width, address_width, full)
    mod = _classes(full)[0](masters, slaves[0])
    name = kw.pop("name", None) or "%sArbiter %d->1/%db" % (_tag(full), n, data_width)
    return AxiFabric(name, "arb", mod, masters, slaves, [wblib.DecAll()], "arb %d %d" % (n, int(full)), full=full, **kw)


def make_dec(decs, full=False, data_width=8, address_width=2, **kw):
    """`AXI(Lite)Decoder(master, slaves)` alone."""
    m = len(decs)
    masters, slaves = _ifaces(1, data_width, address_width, full), _ifaces(m, data_width, address_width, full)
    mod = _classes(full)[1](masters[0], [(d.fn(masters[0]), s) for d, s in zip(decs, slaves)])
    name = kw.pop("name", None) or "%sDecoder 1->%d/%db" % (_tag(full), m, data_width)
    lean_open = "dec %d %d %d %d %s" % (m, int(full), data_width, address_width, " ".join(d.word() for d in decs))
    return AxiFabric(name, "dec", mod, masters, slaves, decs, lean_open, full=full, **kw)


def make_p2p(full=False, data_width=8, address_width=2, **kw):
    import wblib
    masters, slaves = _ifaces(1, data_width, address_width, full), _ifaces(1, data_width, address_width, full)
    mod = _classes(full)[4](masters[0], slaves[0])
    name = kw.pop("name", None) or "%sPointToPoint/%db" % (_tag(full), data_width)
    return AxiFabric(name, "p2p", mod, masters, slaves, [wblib.DecAll()], "p2p", full=full, **kw)


# ---------------------------------------------------------------------------------------------------------
# alphabets for exhaustive exploration (8-bit data, 2-bit byte address, word address = byte address)

def small_parts(n, m, addrs=(0, 2), idle_addrs=None, direction="w", full=False, level=2):
    """Per-port letter parts for one direction (`"w"` write channels, `"r"` read channels; the other direction idle).

    Masters: address channel idle (valid = 0, the address lines carrying each of `idle_addrs`) or presenting each
    of `addrs`; write data idle/valid; response ready 0/1 — independent of each other.  Master i marks its payloads
    (`aw/ar.pay` = i+1, `w.pay` = data 1<<i, strb 1) so that the arbiter's muxes are observable.
    Slaves: address ready 0/1, data ready 0/1, response idle/valid — independent.  Slave j marks its responses
    (`b.pay` = resp j+1 ; `r.pay` = resp (j+1)&3, data 1<<j) so that the decoder's OR-muxes are observable; with
    `full`, read responses come with last = 0 and last = 1.
    level 2: every combination; level 1: protocol-shaped subset (response ready mostly 1, slaves mostly ready)."""
    idle_addrs = addrs if idle_addrs is None else idle_addrs
    msets, ssets = [], []
    for i in range(n):
        s = []
        a_opts = [(0, a) for a in idle_addrs] + [(1, a) for a in addrs]
        for (av, a) in a_opts:
            for dv in ((0, 1) if direction == "w" else (0,)):
                for rr in (0, 1):
                    if level == 1 and rr == 0 and (av or dv):
                        continue
                    if direction == "w":
                        s.append(m_part(aw=(a, i + 1) if av else None, idle_aw=(a, 0),
                                        w=((1 << i) | (1 << 8)) if dv else None, b_ready=rr))
                    else:
                        s.append(m_part(ar=(a, i + 1) if av else None, idle_ar=(a, 0), r_ready=rr))
        msets.append(s)
    for j in range(m):
        s = []
        for ar in (0, 1):
            for dr in ((0, 1) if direction == "w" else (0,)):
                if direction == "w":
                    resp = [None, j + 1]
                else:
                    pay = ((j + 1) & 3) | ((1 << j) << 2)
                    resp = [None, (1, pay)] + ([(0, pay)] if full else [])
                for r in resp:
                    if level == 1 and r is not None and not (ar and (dr or direction == "r")):
                        continue
                    if direction == "w":
                        s.append(s_part(aw_ready=ar, w_ready=dr, b=r))
                    else:
                        s.append(s_part(ar_ready=ar, r=r))
        ssets.append(s)
    return msets, ssets


def small_alphabet(n, m, **kw):
    msets, ssets = small_parts(n, m, **kw)
    return product_letters(msets, ssets)


def joint_sample(n, m, rng, count, addrs=(0, 2), full=False):
    """`count` random letters of the product of the write alphabet and the read alphabet (both directions active in
    the same cycle)."""
    mw, sw = small_parts(n, m, addrs=addrs, direction="w", full=full)
    mr, sr = small_parts(n, m, addrs=addrs, direction="r", full=full)
    out = []
    for _ in range(count):
        parts = []
        for i in range(n):
            a, b = rng.choice(mw[i]), rng.choice(mr[i])
            parts.append(a[:BR + 1] + b[ARV:])
        for j in range(m):
            a, b = rng.choice(sw[j]), rng.choice(sr[j])
            parts.append(a[:BP + 1] + b[ARR:])
        out.append(tuple(itertools.chain.from_iterable(parts)))
    return out
