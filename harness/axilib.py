"""AXI-Lite / AXI4 fabric instances, letters, protocol-legal environments and property monitors
(C08; the C09/C11 builders may reuse this file read-only).

Contents
  * `FastNetlist`   compiled evaluator for a lowered FHDL netlist (same interface as `netlist.Netlist`), about 50x
                    faster than driving `litex.gen.sim.core.Evaluator`; `crosscheck()` ties it to the Evaluator.
  * channel tables  `LITE` / `FULL`: the five channels, their pass-through payload fields and how they are packed
                    into one number per channel (`*.pay`).
  * `AxiFabric`     instance protocol of `explore.py` for an n-master x m-slave fabric (arbiter, decoder, shared
                    interconnect, crossbar, point-to-point; AXI-Lite or AXI4).
  * letters         `m_part / s_part`, `product_letters`, alphabets for exhaustive exploration.
  * `AxiEnv`        feedback generator of AXI-legal masters and slaves (valid held with stable payload until ready,
                    several outstanding requests, random back-pressure, data before/with/after address).
  * `AxiMonitor`    model-independent property oracle: per-port protocol checker + routing scoreboard.

A *fabric* sits between `n` master ports and `m` slave ports.  The harness plays all masters and all slaves.

Letter (= per-cycle input, flat tuple; same order as `lean/LitexModel/Axi/LiteInterconnectNum.lean`):
    for each master i: aw.valid aw.addr aw.pay  w.valid w.pay  b.ready  ar.valid ar.addr ar.pay  r.ready      (M_IN, 10)
    for each slave  j: aw.ready  w.ready  b.valid b.pay  ar.ready  r.valid r.last r.pay                        (S_IN, 8)
Outputs (flat list):
    for each slave  j: the 10 master-to-slave numbers it sees
    for each master i: the 8 slave-to-master numbers it sees
`*.pay` packs the channel's pass-through payload (LSB first; then the channel's `first` and — except r — `last` line):
    AXI-Lite  aw/ar.pay = prot            w.pay = data, strb              b.pay = resp      r.pay = resp, data
    AXI4      aw/ar.pay = burst,len,size,lock,prot,cache,qos,region,id    w.pay = data,strb,last   b.pay = resp,id
              r.pay = resp,data,id
Comparison qualifiers: a payload (addr/pay) is compared only while its channel's valid is 1 on the observing side.
"""
import itertools
import envshim  # noqa: F401
from netlist import Netlist
from migen.fhdl.structure import (Signal, Constant, Cat, Replicate, If, Case, _Operator, _Slice, _ArrayProxy,
                                  _Assign)
from migen.fhdl.bitcontainer import value_bits_sign
import collections.abc

M_IN = ("aw.valid", "aw.addr", "aw.pay", "w.valid", "w.pay", "b.ready", "ar.valid", "ar.addr", "ar.pay", "r.ready")
S_IN = ("aw.ready", "w.ready", "b.valid", "b.pay", "ar.ready", "r.valid", "r.last", "r.pay")
NM, NS = len(M_IN), len(S_IN)
# indexes inside a master part / slave part
AWV, AWA, AWP, WV, WP, BR, ARV, ARA, ARP, RR = range(10)
AWR, WR, BV, BP, ARR, RV, RL, RP = range(8)


# ---------------------------------------------------------------------------------------------------------
# compiled evaluator

class Unsupported(Exception):
    pass


class _Compiler:
    """Translates lowered FHDL statements into Python source over a value list `v` (one slot per signal).
    Expression semantics are copied operator by operator from `litex.gen.sim.core.Evaluator.eval/assign/execute`
    (unbounded Python integers, truncation only on assignment)."""

    def __init__(self):
        self.idx = {}
        self.sigs = []

    def slot(self, sig):
        k = self.idx.get(sig)
        if k is None:
            k = len(self.sigs)
            self.idx[sig] = k
            self.sigs.append(sig)
        return k

    # -- expressions ------------------------------------------------------------------------------
    def E(self, node, reads):
        if isinstance(node, Constant):
            return repr(int(node.value))
        if isinstance(node, Signal):
            reads.add(node)
            return "v[%d]" % self.slot(node)
        if isinstance(node, _Operator):
            ops = [self.E(o, reads) for o in node.operands]
            op = node.op
            if op == "-" and len(ops) == 1:
                return "(-%s)" % ops[0]
            if op == "~":
                return "(~%s)" % ops[0]
            if op == "m":
                return "(%s if %s else %s)" % (ops[1], ops[0], ops[2])
            pyop = {">>>": ">>", "<<<": "<<"}.get(op, op)
            if pyop not in ("+", "-", "*", ">>", "<<", "&", "^", "|", "<", "<=", "==", "!=", ">", ">="):
                raise Unsupported(op)
            return "(%s %s %s)" % (ops[0], pyop, ops[1])
        if isinstance(node, _Slice):
            w = node.stop - node.start
            return "((%s >> %d) & %d)" % (self.E(node.value, reads), node.start, (1 << w) - 1)
        if isinstance(node, Cat):
            parts = []
            shift = 0
            for el in node.l:
                nb = len(el)
                parts.append("((%s & %d) << %d)" % (self.E(el, reads), (1 << nb) - 1, shift))
                shift += nb
            return "(" + " | ".join(parts) + ")" if parts else "0"
        if isinstance(node, Replicate):
            nb = len(node.v)
            k = sum(1 << (i * nb) for i in range(node.n))
            return "((%s & %d) * %d)" % (self.E(node.v, reads), (1 << nb) - 1, k)
        if isinstance(node, _ArrayProxy):
            ch = [self.E(c, reads) for c in node.choices]
            return "(%s,)[min(%d, %s)]" % (", ".join(ch), len(ch) - 1, self.E(node.key, reads))
        raise Unsupported(type(node).__name__)

    # -- statements -------------------------------------------------------------------------------
    def assign(self, node, src, out, ind, targets):
        pad = "    " * ind
        if isinstance(node, Signal):
            k = self.slot(node)
            targets.add(node)
            if node.signed:
                out.append("%sp%d = _ts(%s, %d)" % (pad, k, src, node.nbits))
            else:
                out.append("%sp%d = (%s) & %d" % (pad, k, src, (1 << node.nbits) - 1))
        elif isinstance(node, _Slice) and isinstance(node.value, Signal):
            sig = node.value
            k = self.slot(sig)
            targets.add(sig)
            clear = ((1 << node.stop) - 1) - ((1 << node.start) - 1)
            w = node.stop - node.start
            full = "((p%d & ~%d) | (((%s) & %d) << %d))" % (k, clear, src, (1 << w) - 1, node.start)
            self.assign(sig, full, out, ind, targets)
        elif isinstance(node, Cat):
            out.append("%s_c = %s" % (pad, src))
            for el in node.l:
                nb = len(el)
                self.assign(el, "_c & %d" % ((1 << nb) - 1), out, ind, targets)
                out.append("%s_c >>= %d" % (pad, nb))
        else:
            raise Unsupported("assign to " + type(node).__name__)

    def S(self, stmts, out, ind, reads, targets):
        pad = "    " * ind
        n0 = len(out)
        for s in stmts:
            if isinstance(s, _Assign):
                self.assign(s.l, self.E(s.r, reads), out, ind, targets)
            elif isinstance(s, If):
                out.append("%sif %s & %d:" % (pad, self.E(s.cond, reads), (1 << len(s.cond)) - 1))
                self.S(s.t, out, ind + 1, reads, targets)
                if s.f:
                    out.append("%selse:" % pad)
                    self.S(s.f, out, ind + 1, reads, targets)
            elif isinstance(s, Case):
                nbits, signed = value_bits_sign(s.test)
                t = self.E(s.test, reads)
                out.append("%s_t = %s" % (pad, ("_ts(%s, %d)" % (t, nbits)) if signed else "(%s) & %d" % (t, (1 << nbits) - 1)))
                first = True
                for k, body in s.cases.items():
                    if isinstance(k, Constant):
                        out.append("%s%s _t == %d:" % (pad, "if" if first else "elif", k.value))
                        first = False
                        self.S(body, out, ind + 1, reads, targets)
                if "default" in s.cases:
                    if first:
                        out.append("%sif True:" % pad)
                    else:
                        out.append("%selse:" % pad)
                    self.S(s.cases["default"], out, ind + 1, reads, targets)
            elif isinstance(s, collections.abc.Iterable):
                self.S(s, out, ind, reads, targets)
            else:
                raise Unsupported(type(s).__name__)
        if len(out) == n0:
            out.append("%spass" % pad)


def _ts(value, nbits):
    value &= (1 << nbits) - 1
    if value >> (nbits - 1):
        value -= 1 << nbits
    return value


class FastNetlist:
    """Same interface as `netlist.Netlist`, but the lowered fragment (produced by the repository's own
    `Simulator.__init__`, i.e. the real code and the real lowering passes) is compiled to two Python functions:

      settle : the comb statements grouped by target signal (original order inside a group, the simulator's
               reset-default first) and executed once in topological order of the groups.  For an acyclic
               combinational network this is the unique fix-point the Evaluator's delta-cycle iteration reaches.
      tick   : the sync statements of a clock domain, all reads taken before any write.

    A combinational loop, or a construct the compiler does not know, raises `Unsupported` (use `Netlist` then).
    `crosscheck()` runs this evaluator and the real `Evaluator` side by side."""

    def __init__(self, module, clocks=("sys",), base=None):
        base = base if base is not None else Netlist(module, clocks)
        self.base = base
        comp = _Compiler()
        self.comp = comp
        # ---- comb: group top-level statements by target (union-find over shared targets)
        from migen.fhdl.tools import list_targets
        stmts = list(base.comb)
        parent = list(range(len(stmts)))

        def find(k):
            while parent[k] != k:
                parent[k] = parent[parent[k]]
                k = parent[k]
            return k
        owner = {}
        for k, s in enumerate(stmts):
            for t in list_targets([s]):
                if t in owner:
                    ra, rb = find(owner[t]), find(k)
                    if ra != rb:
                        parent[max(ra, rb)] = min(ra, rb)
                else:
                    owner[t] = k
        members = {}
        for k in range(len(stmts)):
            members.setdefault(find(k), []).append(k)      # ascending = original order
        blocks = []          # [stmts, reads, targets, source lines]
        for root in sorted(members):
            out, reads, targets = [], set(), set()
            comp.S([stmts[k] for k in members[root]], out, 1, reads, targets)
            blocks.append([[stmts[k] for k in members[root]], reads, targets, out])
        tgt_block = {}
        for k, b in enumerate(blocks):
            for t in b[2]:
                tgt_block[t] = k
        deps = []
        selfref = set()
        for k, b in enumerate(blocks):
            d = set()
            for r in b[1]:
                if r in tgt_block:
                    if tgt_block[r] == k:
                        selfref.add(k)          # reads a signal it drives: settled by local iteration (below)
                    else:
                        d.add(tgt_block[r])
            deps.append(d)
        # strongly connected components (Kosaraju, iterative), emitted dependencies first
        nb = len(blocks)
        rdeps = [set() for _ in range(nb)]
        for k in range(nb):
            for d in deps[k]:
                rdeps[d].add(k)
        seen, post = set(), []
        for root in range(nb):
            if root in seen:
                continue
            seen.add(root)
            stack = [(root, iter(sorted(deps[root])))]
            while stack:
                node, it = stack[-1]
                for d in it:
                    if d not in seen:
                        seen.add(d)
                        stack.append((d, iter(sorted(deps[d]))))
                        break
                else:
                    post.append(node)
                    stack.pop()
        comp_of, sccs = {}, []
        for root in reversed(post):
            if root in comp_of:
                continue
            cur, stack = [], [root]
            comp_of[root] = len(sccs)
            while stack:
                node = stack.pop()
                cur.append(node)
                for d in rdeps[node]:
                    if d not in comp_of:
                        comp_of[d] = len(sccs)
                        stack.append(d)
            sccs.append(sorted(cur))
        # `post` is a post-order of the dependency graph: a component is complete once its last member is emitted and
        # all its dependencies precede it; emit components in order of the first post-order position of any member's
        # completion, i.e. topologically (dependencies first)
        pos = {k: i for i, k in enumerate(post)}
        order = sorted(range(len(sccs)), key=lambda c: max(pos[k] for k in sccs[c]))
        src = ["def settle(v):"]
        self.loops = 0
        for c in order:
            members = sccs[c]
            if len(members) == 1 and members[0] not in selfref:
                bl = blocks[members[0]]
                ts = sorted(comp.slot(t) for t in bl[2])
                for t in ts:
                    src.append("    p%d = v[%d]" % (t, t))
                src += bl[3]
                for t in ts:
                    src.append("    v[%d] = p%d" % (t, t))
            else:
                # a combinational cycle among statement groups (e.g. an FSM `act` block that reads a signal it drives):
                # the Evaluator's delta-cycle iteration, restricted to the cycle, until nothing changes
                self.loops += 1
                src.append("    for _it in range(64):")
                src.append("        _ch = False")
                for k in members:
                    bl = blocks[k]
                    out2, r2, t2 = [], set(), set()
                    comp.S(bl[0], out2, 2, r2, t2)
                    ts = sorted(comp.slot(t) for t in bl[2])
                    for t in ts:
                        src.append("        p%d = v[%d]" % (t, t))
                    src += out2
                    for t in ts:
                        src.append("        if v[%d] != p%d:" % (t, t))
                        src.append("            v[%d] = p%d" % (t, t))
                        src.append("            _ch = True")
                src.append("        if not _ch:")
                src.append("            break")
                src.append("    else:")
                src.append("        raise RuntimeError('combinational loop does not settle')")
        src.append("    return None")
        # ---- sync
        self._sync_targets = {}
        for cd, stmts in base.sync.items():
            out, reads, targets = [], set(), set()
            comp.S(stmts, out, 1, reads, targets)
            ts = sorted(comp.slot(t) for t in targets)
            src.append("def tick_%s(v):" % cd)
            for t in ts:
                src.append("    p%d = v[%d]" % (t, t))
            src += out
            src.append("    return (%s)" % "".join("p%d, " % t for t in ts))
            self._sync_targets[cd] = ts
        for s in base.regs:
            comp.slot(s)
        ns = {"_ts": _ts}
        self.source = "\n".join(src)
        exec(compile(self.source, "<fastnetlist>", "exec"), ns)
        self._settle = ns["settle"]
        self._tick = {cd: ns["tick_" + cd] for cd in base.sync}
        self.sigs = comp.sigs
        self.idx = comp.idx
        self.v = [s.reset.value for s in comp.sigs]
        self.regs = base.regs
        self._reg_slots = [comp.idx[s] for s in base.regs]
        self.comb_targets = base.comb_targets
        self._settle(self.v)

    def slot(self, sig):
        k = self.idx.get(sig)
        if k is None:
            k = self.comp.slot(sig)
            self.v.append(sig.reset.value)
        return k

    def set(self, sig, value):
        nbits = sig.nbits
        value &= (1 << nbits) - 1
        if sig.signed and value >> (nbits - 1):
            value -= 1 << nbits
        self.v[self.slot(sig)] = value

    def settle(self):
        self._settle(self.v)

    def get(self, sig):
        return self.v[self.slot(sig)]

    def getu(self, sig):
        return self.v[self.slot(sig)] & ((1 << len(sig)) - 1)

    def tick(self, cds=("sys",)):
        v = self.v
        res = [(cd, self._tick[cd](v)) for cd in cds if cd in self._tick]
        for cd, vals in res:
            for t, x in zip(self._sync_targets[cd], vals):
                v[t] = x
        self._settle(v)

    def snapshot(self):
        return list(self.v)

    def restore(self, snap):
        self.v = list(snap)

    def state_key(self):
        v = self.v
        return tuple(v[k] for k in self._reg_slots)

    def crosscheck(self, inputs, observed, rng, cycles=200, letters=None):
        """Drive this evaluator and the real `Evaluator` (`self.base`) with the same random inputs for `cycles`
        cycles from the current state of `self` = reset; compare `observed` signals before every edge and the
        registers after it.  Returns None or a description of the first difference."""
        base = self.base
        root_f, root_b = self.snapshot(), base.snapshot()
        bad = None
        for t in range(cycles):
            vals = letters(rng, t) if letters else [rng.getrandbits(len(s)) for s in inputs]
            for s, x in zip(inputs, vals):
                self.set(s, x)
                base.set(s, x)
            self.settle()
            base.settle()
            a = [self.getu(s) for s in observed]
            b = [base.getu(s) for s in observed]
            if a != b:
                bad = "cycle %d: compiled evaluator outputs %r, Evaluator %r (inputs %r)" % (t, a, b, vals)
                break
            self.tick()
            base.tick()
            if self.state_key() != base.state_key():
                bad = "cycle %d: registers differ after the edge: compiled %r, Evaluator %r" % (
                    t, self.state_key(), base.state_key())
                break
        self.restore(root_f)
        base.restore(root_b)
        return bad

    def tick_lazy(self, cds=("sys",)):
        """Clock edge without the combinational re-evaluation (the caller settles before reading anything)."""
        v = self.v
        res = [(cd, self._tick[cd](v)) for cd in cds if cd in self._tick]
        for cd, vals in res:
            for t, x in zip(self._sync_targets[cd], vals):
                v[t] = x


# ---------------------------------------------------------------------------------------------------------
# channel tables

CHANNELS = ("aw", "w", "b", "ar", "r")


def pay_fields(port, ch, full):
    """Pass-through payload signals of channel `ch` packed into `<ch>.pay`, LSB first: every payload/param field
    except `addr`, plus `w.last` for AXI4."""
    ep = getattr(port, ch)
    names = [n for n, _ in ep.description.payload_layout + ep.description.param_layout if n != "addr"]
    sigs = [getattr(ep, n) for n in names]
    # the stream `first` / `last` lines of every channel travel through the same statements as the payload (muxed by the
    # grant / copied / OR-masked): they are part of `<ch>.pay`, `last` on top (`r.last` keeps its own number)
    sigs.append(ep.first)
    if ch != "r":
        sigs.append(ep.last)
    return sigs


def pack(values_widths):
    out, sh = 0, 0
    for v, w in values_widths:
        out |= (v & ((1 << w) - 1)) << sh
        sh += w
    return out


def spec_layout(full, data_width, address_width, id_width=1):
    """Channel layouts as AXI4-Lite / AXI4 and the constructor arguments fix them (NOT read from the implementation):
    channel -> [(field, width)] in the order of the real layouts, `addr` included.  LiteX conventions: `dest`/`user`
    place-holders of width 1, `id` at least 1 bit, no WID on AXI4."""
    dw, aw, sw = data_width, address_width, data_width // 8
    if not full:
        return {"aw": [("addr", aw), ("prot", 3)], "w": [("data", dw), ("strb", sw)], "b": [("resp", 2)],
                "ar": [("addr", aw), ("prot", 3)], "r": [("resp", 2), ("data", dw)]}
    idw = max(1, id_width)
    ax = [("addr", aw), ("burst", 2), ("len", 8), ("size", 3), ("lock", 1), ("prot", 3), ("cache", 4), ("qos", 4),
          ("region", 4), ("id", idw), ("dest", 1), ("user", 1)]
    return {"aw": ax, "w": [("data", dw), ("strb", sw), ("id", 1), ("dest", 1), ("user", 1)],
            "b": [("resp", 2), ("id", idw), ("dest", 1), ("user", 1)], "ar": list(ax),
            "r": [("resp", 2), ("data", dw), ("id", idw), ("dest", 1), ("user", 1)]}


class WidthMismatch(Exception):
    pass


def check_port_layout(port, full, data_width, address_width, id_width=1, what="port"):
    """The port the real code hands out must have exactly the channels/fields/widths the constructor arguments ask
    for: otherwise a mis-sized signal would truncate the stimulus on the implementation side only in ways the
    generators (which size their values from the ARGUMENTS) may never exercise — reported, not adapted to."""
    spec = spec_layout(full, data_width, address_width, id_width)
    for ch in CHANNELS:
        ep = getattr(port, ch)
        got = [(n, len(getattr(ep, n))) for n, _ in ep.description.payload_layout + ep.description.param_layout]
        if got != spec[ch]:
            raise WidthMismatch("%s channel %s has layout %r, the constructor arguments (data_width=%d, address_width=%d) "
                                "call for %r" % (what, ch, got, data_width, address_width, spec[ch]))
        for n in ("valid", "ready", "first", "last"):
            if len(getattr(ep, n)) != 1:
                raise WidthMismatch("%s %s.%s is %d bits wide" % (what, ch, n, len(getattr(ep, n))))


def pay_width(full, ch, data_width, address_width, id_width=1):
    """Width of `<ch>.pay` from the constructor arguments."""
    w = sum(wd for n, wd in spec_layout(full, data_width, address_width, id_width)[ch] if n != "addr")
    return w + (1 if ch == "r" else 2)          # + first [+ last]


def pay_field(full, ch, name, data_width, address_width, id_width=1):
    """(shift, width) of a named field inside `<ch>.pay`, from the constructor arguments."""
    sh = 0
    for n, wd in spec_layout(full, data_width, address_width, id_width)[ch]:
        if n == "addr":
            continue
        if n == name:
            return sh, wd
        sh += wd
    raise KeyError(name)


class PortMap:
    """Signals behind the 10 master-to-slave and 8 slave-to-master numbers of one port."""

    def __init__(self, port, full):
        p = port
        one = lambda s: [s]
        self.ms = [one(p.aw.valid), one(p.aw.addr), pay_fields(p, "aw", full), one(p.w.valid), pay_fields(p, "w", full),
                   one(p.b.ready), one(p.ar.valid), one(p.ar.addr), pay_fields(p, "ar", full), one(p.r.ready)]
        self.sm = [one(p.aw.ready), one(p.w.ready), one(p.b.valid), pay_fields(p, "b", full), one(p.ar.ready),
                   one(p.r.valid), one(p.r.last), pay_fields(p, "r", full)]

    def field(self, ch, name, port, full):
        """(shift, width) of a named field inside `<ch>.pay`."""
        sh = 0
        for s in pay_fields(port, ch, full):
            if s is getattr(getattr(port, ch), name):
                return sh, len(s)
            sh += len(s)
        raise KeyError(name)


# ---------------------------------------------------------------------------------------------------------
# letter parts

def m_part(aw=None, w=None, b_ready=0, ar=None, r_ready=0, idle_aw=(0, 0), idle_w=0, idle_ar=(0, 0)):
    """Master part.  `aw`/`ar` = (addr, pay) or None (then valid = 0 and the lines carry `idle_*`); `w` = pay or None."""
    awv, (awa, awp) = (1, aw) if aw is not None else (0, idle_aw)
    wv, wp = (1, w) if w is not None else (0, idle_w)
    arv, (ara, arp) = (1, ar) if ar is not None else (0, idle_ar)
    return (awv, awa, awp, wv, wp, b_ready, arv, ara, arp, r_ready)


def s_part(aw_ready=0, w_ready=0, b=None, ar_ready=0, r=None, idle_b=0, idle_r=(0, 0)):
    """Slave part.  `b` = pay or None; `r` = (last, pay) or None."""
    bv, bp = (1, b) if b is not None else (0, idle_b)
    rv, (rl, rp) = (1, r) if r is not None else (0, idle_r)
    return (aw_ready, w_ready, bv, bp, ar_ready, rv, rl, rp)


def product_letters(master_sets, slave_sets):
    out = []
    for combo in itertools.product(*(list(master_sets) + list(slave_sets))):
        out.append(tuple(itertools.chain.from_iterable(combo)))
    return out


def split_letter(letter, n, m):
    ms = [tuple(letter[NM * i:NM * (i + 1)]) for i in range(n)]
    ss = [tuple(letter[NM * n + NS * j:NM * n + NS * (j + 1)]) for j in range(m)]
    return ms, ss


def split_outs(outs, n, m):
    to_s = [tuple(outs[NM * j:NM * (j + 1)]) for j in range(m)]
    to_m = [tuple(outs[NM * m + NS * i:NM * m + NS * (i + 1)]) for i in range(n)]
    return to_s, to_m


# ---------------------------------------------------------------------------------------------------------
# instances

class _EnvNetlist:
    """Netlist plus the outstanding-request limiter of mode A (part of the explored state).
    `cnt[d][j]` = requests accepted by slave j in direction d (0 write / 1 read) whose response has not left it."""

    def __init__(self, netlist, m):
        self.n = netlist
        self.m = m
        self.cnt = (0,) * (2 * m)
        self.pending = None

    def tick(self, cds=("sys",)):
        if self.pending is not None:
            self.cnt = self.pending
            self.pending = None
        if hasattr(self.n, "tick_lazy"):
            self.n.tick_lazy(cds)
        else:
            self.n.tick(cds)

    def snapshot(self):
        return (self.n.snapshot(), self.cnt)

    def restore(self, snap):
        self.n.restore(snap[0])
        self.cnt = snap[1]
        self.pending = None

    def state_key(self):
        return (self.n.state_key(), self.cnt)


class AxiFabric:
    """Instance protocol of explore.py for an n-master x m-slave AXI-Lite / AXI4 fabric.

    kind   : "shared" | "xbar" | "p2p" | "arb" | "dec"
    decs   : list of wblib.Dec* (one per slave; `match(word_address, bus)` is the specification of the address map)
    full   : AXI4 (`axi_full.py`) instead of AXI-Lite
    limit  : mode A only — a slave stops accepting addresses (`a*.ready` forced to 0 in the *effective* letter, which
             is also what the model is given) once it holds `limit` unanswered requests in that direction; bounds
             the 8-bit counters so that the reachable product is finite and small
    domain : the generator/monitor stay inside the hypotheses of `axl_route_partial` (SameSlaveWhileLocked,
             NoDataBeforeAddr); with domain=False the monitor checks only address-independent rules
    """

    def __init__(self, name, kind, module, masters, slaves, decs, lean_open, full=False, alphabet=None, env=None,
                 limit=None, domain=True, fast=True, env_kw=None, monitored=True, data_width=8, address_width=2,
                 m_address_widths=None, id_width=1, bus=None):
        self.name, self.kind, self.module = name, kind, module
        self.masters, self.slaves, self.decs = masters, slaves, decs
        self.n, self.m = len(masters), len(slaves)
        self.full = full
        self.lean_open = lean_open
        # widths come from the constructor ARGUMENTS (never from len(signal)); the ports are checked against them
        self.data_width = data_width
        self.address_width = address_width
        self.id_width = id_width
        self.m_address_widths = list(m_address_widths) if m_address_widths else [address_width] * len(masters)
        for i, p in enumerate(masters):
            check_port_layout(p, full, data_width, self.m_address_widths[i], id_width, "master port %d" % i)
        for j, p in enumerate(slaves):
            check_port_layout(p, full, data_width, address_width, id_width, "slave port %d" % j)
        self.bus = bus if bus is not None else _SpecBus(data_width, address_width)
        self.addr_shift = (self.data_width // 8).bit_length() - 1
        self.limit = limit
        self.domain = domain
        self.monitored = monitored      # False: ill-formed configuration (overlapping address map): no property to check
        # data handed over before its address is even presented is inside the monitored domain only where the code
        # handles it: ONE slave whose decoder accepts every address (otherwise the decoder steers the lone data beat by
        # the idle address lines — to another slave or to none: known finding C08-decoder-w-before-aw)
        d0 = decs[0] if decs else None
        self.early_ok = len(slaves) == 1 and d0 is not None and (
            d0.word() == "all" or (d0.word().startswith("region:0:") and
                                   (1 << (int(d0.word().split(":")[2]) - 1).bit_length()) >= (1 << address_width)))
        base = Netlist(module)          # the repository's own lowering + Evaluator (a module can be lowered only once)
        nl = base
        if fast:
            try:
                nl = FastNetlist(module, base=base)
            except Unsupported:
                nl = base
        self.raw = nl
        self.fast = isinstance(nl, FastNetlist)
        self.netlist = _EnvNetlist(nl, self.m)
        self.inputs = None
        self.outputs = None
        self.alphabet = alphabet or []
        self.env_factory = env
        self.env_kw = env_kw or {}
        self._env = None
        self.last = None
        self.mmaps = [PortMap(p, full) for p in masters]
        self.smaps = [PortMap(p, full) for p in slaves]
        # input / output plans: per number, list of (signal, shift, mask)
        def plan(groups):
            out = []
            for sigs in groups:
                sh = 0
                item = []
                for s in sigs:
                    item.append((s, sh, (1 << len(s)) - 1))
                    sh += len(s)
                out.append(item)
            return out
        self._in = []
        for pm in self.mmaps:
            self._in += plan(pm.ms)
        for pm in self.smaps:
            self._in += plan(pm.sm)
        self._out = []
        for pm in self.smaps:
            self._out += plan(pm.ms)
        for pm in self.mmaps:
            self._out += plan(pm.sm)
        if self.fast:
            self._in_slots = [[(nl.slot(s), sh, mk) for s, sh, mk in item] for item in self._in]
            self._out_slots = [[(nl.slot(s), sh, mk) for s, sh, mk in item] for item in self._out]
        q = []
        for j in range(self.m):
            b = NM * j
            q += [None, b + AWV, b + AWV, None, b + WV, None, None, b + ARV, b + ARV, None]
        for i in range(self.n):
            b = NM * self.m + NS * i
            q += [None, None, None, b + BV, None, None, b + RV, b + RV]
        self.qual = q
        self._letter = None

    # -- explore.impl_step hooks ------------------------------------------------------------------------
    def effective(self, letter):
        """Mode-A limiter: a slave holding `limit` unanswered requests does not accept another address."""
        if self.limit is None:
            return letter
        cnt = self.netlist.cnt
        l = None
        for j in range(self.m):
            base = NM * self.n + NS * j
            if cnt[j] >= self.limit and letter[base + AWR]:
                l = l or list(letter)
                l[base + AWR] = 0
            if cnt[self.m + j] >= self.limit and letter[base + ARR]:
                l = l or list(letter)
                l[base + ARR] = 0
        return tuple(l) if l is not None else letter

    def apply(self, letter):
        letter = self.effective(letter)
        nl = self.raw
        if self.fast:
            v = nl.v
            for x, item in zip(letter, self._in_slots):
                for slot, sh, mk in item:
                    v[slot] = (x >> sh) & mk
            nl._settle(v)
        else:
            for x, item in zip(letter, self._in):
                for s, sh, mk in item:
                    nl.set(s, (x >> sh) & mk)
            nl.settle()
        self._letter = letter

    def sample(self):
        nl = self.raw
        if self.fast:
            v = nl.v
            outs = []
            for item in self._out_slots:
                x = 0
                for slot, sh, mk in item:
                    x |= (v[slot] & mk) << sh
                outs.append(x)
        else:
            outs = []
            for item in self._out:
                x = 0
                for s, sh, mk in item:
                    x |= (nl.getu(s) & mk) << sh
                outs.append(x)
        letter = self._letter
        self.last = (letter, outs)
        if self.limit is not None:
            n, m = self.n, self.m
            cnt = list(self.netlist.cnt)
            for j in range(m):
                li, oi = NM * n + NS * j, NM * j
                rq = outs[oi + AWV] and letter[li + AWR]
                rs = letter[li + BV] and outs[oi + BR]
                cnt[j] = max(0, cnt[j] + (1 if rq else 0) - (1 if rs else 0))
                rq = outs[oi + ARV] and letter[li + ARR]
                rs = letter[li + RV] and outs[oi + RR] and (letter[li + RL] or not self.full)
                cnt[m + j] = max(0, cnt[m + j] + (1 if rq else 0) - (1 if rs else 0))
            self.netlist.pending = tuple(cnt)
        return outs

    def model_letter(self, letter):
        """The letter the model is given = what was actually driven (after the mode-A limiter; `explore.coexplore`
        asks right after the step, `explore.cosim` — no limiter there — after the whole run)."""
        return letter if self.limit is None else self._letter

    def nontrivial(self, letter, outs):
        """Some handshake happens at a slave port or at a master port."""
        letter = self._letter if self._letter is not None else letter
        n, m = self.n, self.m
        for j in range(m):
            li, oi = NM * n + NS * j, NM * j
            if (outs[oi + AWV] and letter[li + AWR]) or (outs[oi + WV] and letter[li + WR]) or \
               (letter[li + BV] and outs[oi + BR]) or (outs[oi + ARV] and letter[li + ARR]) or \
               (letter[li + RV] and outs[oi + RR]):
                return True
        for i in range(n):
            li, oi = NM * i, NM * m + NS * i
            if (letter[li + AWV] and outs[oi + AWR]) or (letter[li + WV] and outs[oi + WR]) or \
               (outs[oi + BV] and letter[li + BR]) or (letter[li + ARV] and outs[oi + ARR]) or \
               (outs[oi + RV] and letter[li + RR]):
                return True
        return False

    def decode(self, j, byte_addr):
        """Specification of the address map: does slave j own this byte address?"""
        return bool(self.decs[j].match(byte_addr >> self.addr_shift, self.bus))

    def target(self, byte_addr):
        """The slaves whose region contains the address (a well-formed map gives at most one)."""
        return [j for j in range(self.m) if self.decode(j, byte_addr)]

    def peek(self, letter):
        """Outputs the current state would produce for `letter` (no clock edge).  Used by feedback generators."""
        self.apply(letter)
        keep = self.netlist.pending
        outs = self.sample()
        self.netlist.pending = keep
        return outs

    def gen(self, rng, t):
        if t == 0 or self._env is None:
            self._env = (self.env_factory or AxiEnv)(self, **self.env_kw)
            self.last = None
        return self._env.next_letter(rng, t, self.last)

    def monitor(self):
        return AxiMonitor(self) if self.monitored else NullMonitor()

    def crosscheck(self, rng, cycles=150):
        """Compiled evaluator against the repository's Evaluator on random letters (all input lines random)."""
        if not self.fast:
            return None
        ins = [s for item in self._in for s, _, _ in item]
        outs = [s for item in self._out for s, _, _ in item]
        return self.raw.crosscheck(ins, outs, rng, cycles)


class _SpecBus:
    """Stand-in for a bus object where only the constructor arguments matter (`DecRegion.match`, `.fn`)."""
    def __init__(self, data_width, address_width):
        self.data_width, self.address_width = data_width, address_width
        self.addressing = "byte"


def _word_addr_width(port):
    return port.address_width - ((port.data_width // 8).bit_length() - 1)


def _ifaces(k, data_width, address_width, full, id_width=1):
    if full:
        from litex.soc.interconnect.axi.axi_full import AXIInterface
        return [AXIInterface(data_width=data_width, address_width=address_width, id_width=id_width) for _ in range(k)]
    from litex.soc.interconnect.axi.axi_lite import AXILiteInterface
    return [AXILiteInterface(data_width=data_width, address_width=address_width) for _ in range(k)]


def _classes(full):
    if full:
        from litex.soc.interconnect.axi import axi_full as A
        return A.AXIArbiter, A.AXIDecoder, A.AXIInterconnectShared, A.AXICrossbar, A.AXIInterconnectPointToPoint
    from litex.soc.interconnect.axi import axi_lite as A
    return (A.AXILiteArbiter, A.AXILiteDecoder, A.AXILiteInterconnectShared, A.AXILiteCrossbar,
            A.AXILiteInterconnectPointToPoint)


def _tag(full):
    return "AXI" if full else "AXILite"


def _build_ports(n, m, data_width, address_width, full, m_address_widths=None, id_width=1):
    maw = list(m_address_widths) if m_address_widths else [address_width] * n
    masters = [_ifaces(1, data_width, w, full, id_width)[0] for w in maw]
    slaves = _ifaces(m, data_width, address_width, full, id_width)
    return masters, slaves, maw


def make_shared(n, decs, full=False, data_width=8, address_width=2, register=False, timeout="none",
                m_address_widths=None, id_width=1, **kw):
    """`AXI(Lite)InterconnectShared`.  timeout: "none" (timeout_cycles=None), "default" (argument not passed: the
    class default 1e6 with its `AXI(Lite)Timeout`, which must stay invisible in runs shorter than that) or a number.
    m_address_widths: per-master address widths (the shared bus takes the maximum)."""
    m = len(decs)
    masters, slaves, maw = _build_ports(n, m, data_width, address_width, full, m_address_widths, id_width)
    bus = _SpecBus(data_width, address_width)
    cls = _classes(full)[2]
    args = {} if timeout == "default" else {"timeout_cycles": None if timeout == "none" else timeout}
    if register:
        args["register"] = True
    mod = cls(masters, [(d.fn(bus), s) for d, s in zip(decs, slaves)], **args)
    name = kw.pop("name", None) or "%sShared %dx%d/%db" % (_tag(full), n, m, data_width)
    lean_open = "shared %d %d %d %d %d %s" % (n, m, int(full), data_width, address_width, " ".join(d.word() for d in decs))
    if isinstance(timeout, int) and not isinstance(timeout, bool):
        # finite timeout: the model is the shared interconnect composed with the AXI(Lite)Timeout FSM (`SharedT`)
        lean_open = "sharedt %d %d %d %d %d %d %s" % (n, m, int(full), data_width, address_width, timeout,
                                                     " ".join(d.word() for d in decs))
    inst = AxiFabric(name, "shared", mod, masters, slaves, decs, lean_open, full=full, data_width=data_width,
                     address_width=address_width, m_address_widths=maw, id_width=id_width, bus=bus, **kw)
    inst.timeout = timeout
    return inst


def make_xbar(n, decs, full=False, data_width=8, address_width=2, timeout_arg=None, register=False,
              m_address_widths=None, id_width=1, **kw):
    m = len(decs)
    masters, slaves, maw = _build_ports(n, m, data_width, address_width, full, m_address_widths, id_width)
    bus = _SpecBus(data_width, address_width)
    cls = _classes(full)[3]
    args = {} if timeout_arg is None else {"timeout_cycles": timeout_arg}
    if register:
        args["register"] = True
    mod = cls(masters, [(d.fn(bus), s) for d, s in zip(decs, slaves)], **args)
    name = kw.pop("name", None) or "%sCrossbar %dx%d/%db" % (_tag(full), n, m, data_width)
    lean_open = "xbar %d %d %d %d %d %s" % (n, m, int(full), data_width, address_width, " ".join(d.word() for d in decs))
    return AxiFabric(name, "xbar", mod, masters, slaves, decs, lean_open, full=full, data_width=data_width,
                     address_width=address_width, m_address_widths=maw, id_width=id_width, bus=bus, **kw)


def make_soc_bus(n, regions, interconnect="shared", full=False, data_width=32, address_width=32, **kw):
    """The fabric the way users get it: `soc.SoCBusHandler(standard, …)` + `add_master` / `add_slave(region=SoCRegion)` +
    `finalize()` — class selection, `SoCRegion.decoder`, `interconnect_register=True`, `timeout=1e6` as `SoC` passes
    them.  `regions` = [(origin, size)] (cached regions, so no io_regions are needed); 1 master + 1 slave at origin 0
    gives the point-to-point class."""
    import wblib
    from litex.soc.integration.soc import SoCBusHandler, SoCRegion
    m = len(regions)
    masters, slaves, maw = _build_ports(n, m, data_width, address_width, full)
    h = SoCBusHandler(standard="axi" if full else "axi-lite", data_width=data_width, address_width=address_width,
                      timeout=1e6, interconnect=interconnect, interconnect_register=True)
    for i, p in enumerate(masters):
        h.add_master("m%d" % i, p)
    for j, (p, (o, sz)) in enumerate(zip(slaves, regions)):
        h.add_slave("s%d" % j, p, region=SoCRegion(origin=o, size=sz))
    h.finalize()
    got_m, got_s = list(h.masters.values()), list(h.slaves.values())
    if any(a is not b for a, b in zip(masters + slaves, got_m + got_s)):
        raise WidthMismatch("SoCBusHandler inserted adapters between equal-standard, equal-width ports")
    decs = [wblib.DecRegion(o, sz) for (o, sz) in regions]
    p2p = n == 1 and m == 1 and regions[0][0] == 0
    kind = "p2p" if p2p else ("shared" if interconnect == "shared" else "xbar")
    expect_cls = _classes(full)[4 if p2p else (2 if interconnect == "shared" else 3)]
    if type(h._interconnect) is not expect_cls:
        raise WidthMismatch("SoCBusHandler built %s, expected %s" % (type(h._interconnect).__name__, expect_cls.__name__))
    name = kw.pop("name", None) or "SoCBusHandler %s %s %dx%d/%db" % (_tag(full), interconnect, n, m, data_width)
    lean_open = "p2p" if p2p else "%s %d %d %d %d %d %s" % ("shared" if kind == "shared" else "xbar", n, m, int(full), data_width,
                                                           address_width, " ".join(d.word() for d in decs))
    if p2p:
        decs = [wblib.DecAll()]
    return AxiFabric(name, kind, h, masters, slaves, decs, lean_open, full=full, data_width=data_width,
                     address_width=address_width, bus=_SpecBus(data_width, address_width), **kw)


def make_arb(n, full=False, data_width=8, address_width=2, **kw):
    """`AXI(Lite)Arbiter(masters, target)` alone; the target is slave port 0."""
    import wblib
    from migen import Module
    masters, slaves = _ifaces(n, data_width, address_width, full), _ifaces(1, data_width, address_width, full)
    mod = _classes(full)[0](masters, slaves[0])
    name = kw.pop("name", None) or "%sArbiter %d->1/%db" % (_tag(full), n, data_width)
    return AxiFabric(name, "arb", mod, masters, slaves, [wblib.DecAll()], "arb %d %d" % (n, int(full)), full=full,
                     data_width=data_width, address_width=address_width, **kw)


def make_dec(decs, full=False, data_width=8, address_width=2, **kw):
    """`AXI(Lite)Decoder(master, slaves)` alone."""
    m = len(decs)
    masters, slaves = _ifaces(1, data_width, address_width, full), _ifaces(m, data_width, address_width, full)
    mod = _classes(full)[1](masters[0], [(d.fn(_SpecBus(data_width, address_width)), s) for d, s in zip(decs, slaves)])
    name = kw.pop("name", None) or "%sDecoder 1->%d/%db" % (_tag(full), m, data_width)
    lean_open = "dec %d %d %d %d %s" % (m, int(full), data_width, address_width, " ".join(d.word() for d in decs))
    return AxiFabric(name, "dec", mod, masters, slaves, decs, lean_open, full=full, data_width=data_width,
                     address_width=address_width, **kw)


def make_p2p(full=False, data_width=8, address_width=2, **kw):
    import wblib
    masters, slaves = _ifaces(1, data_width, address_width, full), _ifaces(1, data_width, address_width, full)
    mod = _classes(full)[4](masters[0], slaves[0])
    name = kw.pop("name", None) or "%sPointToPoint/%db" % (_tag(full), data_width)
    return AxiFabric(name, "p2p", mod, masters, slaves, [wblib.DecAll()], "p2p", full=full, data_width=data_width,
                     address_width=address_width, **kw)


# ---------------------------------------------------------------------------------------------------------
# alphabets for exhaustive exploration (8-bit data, 2-bit byte address, word address = byte address)

def small_parts(n, m, addrs=(0, 2), idle_addrs=None, direction="w", full=False, level=2):
    """Per-port letter parts for one direction (`"w"` write channels, `"r"` read channels; the other direction idle).

    Masters: address channel idle (valid = 0, the address lines carrying each of `idle_addrs`) or presenting each
    of `addrs`; write data idle/valid; response ready 0/1 — independent of each other.  Master i marks its payloads
    (`aw/ar.pay` = i+1, `w.pay` = data 1<<i, strb 1) so that the arbiter's muxes are observable.
    Slaves: address ready 0/1, data ready 0/1, response idle/valid — independent.  Slave j marks its responses
    (`b.pay` = resp j+1 ; `r.pay` = resp (j+1)&3, data 1<<j) so that the decoder's OR-muxes are observable; with
    `full`, read responses come with last = 0 and last = 1.
    level 2: every combination; level 1: protocol-shaped subset (response ready mostly 1, slaves mostly ready)."""
    idle_addrs = addrs if idle_addrs is None else idle_addrs
    msets, ssets = [], []
    for i in range(n):
        s = []
        a_opts = [(0, a) for a in idle_addrs] + [(1, a) for a in addrs]
        for (av, a) in a_opts:
            for dv in ((0, 1) if direction == "w" else (0,)):
                for rr in (0, 1):
                    if level == 1 and rr == 0 and (av or dv):
                        continue
                    if direction == "w":
                        s.append(m_part(aw=(a, i + 1) if av else None, idle_aw=(a, 0),
                                        w=((1 << i) | (1 << 8)) if dv else None, b_ready=rr))
                    else:
                        s.append(m_part(ar=(a, i + 1) if av else None, idle_ar=(a, 0), r_ready=rr))
        msets.append(s)
    for j in range(m):
        s = []
        for ar in (0, 1):
            for dr in ((0, 1) if direction == "w" else (0,)):
                if direction == "w":
                    resp = [None, j + 1]
                else:
                    pay = ((j + 1) & 3) | ((1 << j) << 2)
                    resp = [None, (1, pay)] + ([(0, pay)] if full else [])
                for r in resp:
                    if level == 1 and r is not None and not (ar and (dr or direction == "r")):
                        continue
                    if direction == "w":
                        s.append(s_part(aw_ready=ar, w_ready=dr, b=r))
                    else:
                        s.append(s_part(ar_ready=ar, r=r))
        ssets.append(s)
    return msets, ssets


def small_alphabet(n, m, **kw):
    msets, ssets = small_parts(n, m, **kw)
    return product_letters(msets, ssets)


def joint_sample(n, m, rng, count, addrs=(0, 2), full=False):
    """`count` random letters of the product of the write alphabet and the read alphabet (both directions active in
    the same cycle)."""
    mw, sw = small_parts(n, m, addrs=addrs, direction="w", full=full)
    mr, sr = small_parts(n, m, addrs=addrs, direction="r", full=full)
    out = []
    for _ in range(count):
        parts = []
        for i in range(n):
            a, b = rng.choice(mw[i]), rng.choice(mr[i])
            parts.append(a[:BR + 1] + b[ARV:])
        for j in range(m):
            a, b = rng.choice(sw[j]), rng.choice(sr[j])
            parts.append(a[:BP + 1] + b[ARR:])
        out.append(tuple(itertools.chain.from_iterable(parts)))
    return out


# ---------------------------------------------------------------------------------------------------------
# AXI-legal environment (feedback generator for mode B and the failing-input search)

class AxiEnv:
    """Masters and slaves that follow AXI4(-Lite): a valid, once raised, is held with a stable payload until the
    ready; a slave raises B only after it accepted the address and the (last) data beat, R only after the address;
    responses are given in request order.  Masters keep up to `max_out` requests in flight per direction, present
    write data before, with or after the address acceptance and back-pressure responses; slaves accept addresses
    and data in any order with random stalls.  AXI4: bursts of 1..4 beats (`len` in `a*.pay`, `last` on the final
    beat).  Idle payload lines carry garbage.

    domain=True keeps the run inside the hypotheses of `axl_route_partial`:
      SameSlaveWhileLocked — while a master has responses outstanding in a direction, a new address of that
                             direction goes to the slave of the outstanding ones;
      NoDataBeforeAddr     — a write data burst is presented only once its address is accepted or being presented.
    domain=False leaves both (and adds unmapped addresses that are withdrawn after a while); such runs are used
    for the model correspondence only.
    Stall/issue probabilities change every 128 cycles (0/10/50/90/100 % sweeps)."""

    def __init__(self, inst, max_out=8, domain=None, garbage=True, max_stall=None):
        self.inst = inst
        # healthy-bus mode: at least every (max_stall + 1)-th cycle ALL slaves are ready on aw, w and ar, so that no
        # cycle-by-cycle "something is stalled" condition (what AXI(Lite)Timeout counts: it accumulates over channels
        # and over successive transfers) lasts longer than `max_stall` cycles; used with a finite bus timeout
        # t > max_stall + 1, which then must never fire
        self.max_stall = max_stall
        self.since_all_ready = 0
        self.n, self.m = inst.n, inst.m
        self.full = inst.full
        self.max_out = max_out
        self.domain = inst.domain if domain is None else domain
        self.garbage = garbage
        n, m = self.n, self.m
        pm = inst.mmaps[0]
        port = inst.masters[0]
        pw = lambda ch: pay_width(inst.full, ch, inst.data_width, inst.address_width, inst.id_width)
        self.aw_w, self.w_w, self.b_w, self.ar_w, self.r_w = pw("aw"), pw("w"), pw("b"), pw("ar"), pw("r")
        self.addr_w = inst.address_width            # from the constructor argument, not from the signal
        if self.full:
            self.awlen = pay_field(True, "aw", "len", inst.data_width, inst.address_width, inst.id_width)
            self.arlen = pay_field(True, "ar", "len", inst.data_width, inst.address_width, inst.id_width)
            self.wlast_bit = self.w_w - 1
        # masters, per direction d (0 write, 1 read)
        self.a_cur = [[None, None] for _ in range(n)]       # address being presented: (addr, pay)
        self.a_acc = [[0, 0] for _ in range(n)]
        self.resp = [[0, 0] for _ in range(n)]
        self.lock = [[None, None] for _ in range(n)]        # slave of the latest issued address
        self.a_age = [[0, 0] for _ in range(n)]
        self.wbeats = [[] for _ in range(n)]                # pays of write beats still to present (in order)
        self.w_cur = [None] * n
        self.early = [0] * n                                # beats handed over ahead of their address
        self.w_is_early = [False] * n                       # the beat in w_cur is such a beat
        self.owe = [False] * n                              # early beat accepted: the address must be raised now
        self.sticky = None                                  # masters that keep b.ready / r.ready high also while idle
        # slaves
        self.s_aw = [0] * m
        self.s_wl = [0] * m
        self.s_b = [0] * m
        self.b_cur = [None] * m
        self.rq = [[] for _ in range(m)]                    # beats remaining per accepted read burst
        self.r_cur = [None] * m
        self.pools = None

    # -- helpers --------------------------------------------------------------------------------
    def _pools(self, rng):
        inst = self.inst
        if self.pools is None:
            sh = inst.addr_shift
            mask = (1 << self.addr_w) - 1
            self.pools = []
            for j in range(self.m):
                ex = []
                for _ in range(12):
                    try:
                        wa = inst.decs[j].example(rng, inst.bus)
                    except AttributeError:          # DecAll.example looks for a Wishbone `adr`
                        wa = rng.getrandbits(self.addr_w)
                    a = ((wa << sh) | rng.getrandbits(sh)) & mask
                    if inst.target(a) == [j]:
                        ex.append(a)
                self.pools.append(ex)
            un = [a for a in (rng.getrandbits(self.addr_w) for _ in range(64)) if not inst.target(a)]
            self.unmapped = un[:8]
        return self.pools

    def _new_addr(self, rng, i, d):
        lim = 1 << self.inst.m_address_widths[i]            # a narrower master reaches only what its address width spans
        pools = [[a for a in pl if a < lim] for pl in self._pools(rng)]
        out = self.a_acc[i][d] - self.resp[i][d]
        busy = out > 0 or (d == 0 and (self.wbeats[i] or self.w_cur[i] is not None))
        cand = [j for j in range(self.m) if pools[j]]
        if not cand:
            return None
        if self.domain:
            if busy and self.lock[i][d] is not None:
                j = self.lock[i][d]
                if not pools[j]:
                    return None
            else:
                j = rng.choice(cand)
            return rng.choice(pools[j]), j
        r = rng.random()
        if r < 0.04 and self.unmapped:
            return rng.choice(self.unmapped), None
        j = rng.choice(cand)
        return rng.choice(pools[j]), j

    def _handshakes(self, last):
        """Update all counters from the previous cycle's letter and outputs."""
        letter, outs = last
        n, m = self.n, self.m
        ms, ss = split_letter(letter, n, m)
        to_s, to_m = split_outs(outs, n, m)
        for i in range(n):
            x, o = ms[i], to_m[i]
            if x[AWV] and o[AWR]:
                self.a_cur[i][0] = None
                self.a_acc[i][0] += 1
            if x[WV] and o[WR]:
                self.w_cur[i] = None
                if self.w_is_early[i]:
                    self.w_is_early[i] = False
                    if self.early[i] and self.a_cur[i][0] is None and not (x[AWV] and o[AWR]):
                        self.owe[i] = True
            if o[BV] and x[BR]:
                self.resp[i][0] += 1
            if x[ARV] and o[ARR]:
                self.a_cur[i][1] = None
                self.a_acc[i][1] += 1
            if o[RV] and x[RR] and (o[RL] or not self.full):
                self.resp[i][1] += 1
        for j in range(m):
            x, o = ss[j], to_s[j]
            if o[AWV] and x[AWR]:
                self.s_aw[j] += 1
            if o[WV] and x[WR] and ((o[WP] >> self.wlast_bit) & 1 if self.full else 1):
                self.s_wl[j] += 1
            if x[BV] and o[BR]:
                self.s_b[j] += 1
                self.b_cur[j] = None
            if o[ARV] and x[ARR]:
                beats = (((o[ARP] >> self.arlen[0]) & ((1 << self.arlen[1]) - 1)) + 1) if self.full else 1
                self.rq[j].append(beats)
            if x[RV] and o[RR]:
                self.r_cur[j] = None
                if self.rq[j]:
                    self.rq[j][0] -= 1
                    if self.rq[j][0] <= 0:
                        self.rq[j].pop(0)

    def next_letter(self, rng, t, last):
        n, m = self.n, self.m
        if last is not None:
            self._handshakes(last)
        regime = (t // 128) % 8
        p_start = (0.5, 1.0, 0.1, 0.9, 0.6, 0.3, 1.0, 0.5)[regime]
        p_mready = (0.5, 1.0, 0.9, 0.1, 1.0, 0.5, 0.0 if (t % 128) < 64 else 1.0, 0.9)[regime]
        p_sready = (0.5, 1.0, 0.9, 0.5, 0.1, 1.0, 0.9, 0.0 if (t % 128) < 32 else 0.7)[regime]
        p_resp = (0.5, 1.0, 0.3, 0.9, 0.5, 0.1, 0.9, 0.6)[regime]
        p_data = (0.5, 1.0, 0.9, 0.5, 0.2, 0.7, 1.0, 0.4)[regime]
        g = (lambda w: rng.getrandbits(w)) if self.garbage else (lambda w: 0)
        parts = []
        for i in range(n):
            for d in (0, 1):
                if self.a_cur[i][d] is not None:
                    self.a_age[i][d] += 1
                    if not self.domain and self.a_cur[i][d][2] is None and self.a_age[i][d] > 6 and rng.random() < 0.3:
                        # an unmapped address is never accepted: withdraw it (outside AXI, outside the domain)
                        if d == 0:
                            drop = self.a_cur[i][0][3]
                            if drop:
                                del self.wbeats[i][len(self.wbeats[i]) - drop:]
                        self.a_cur[i][d] = None
                    continue
                out = self.a_acc[i][d] - self.resp[i][d]
                force = d == 0 and self.owe[i]      # early data accepted in the previous cycle: raise the address now
                if force or (out < self.max_out and rng.random() < p_start):
                    na = self._new_addr(rng, i, d)
                    if na is None:
                        continue
                    addr, j = na
                    wpay = self.aw_w if d == 0 else self.ar_w
                    pay = rng.getrandbits(wpay)
                    beats = 1
                    if self.full:
                        sh, wd = self.awlen if d == 0 else self.arlen
                        beats = 1 if (d == 0 and self.early[i] and self.domain) else rng.choice((1, 1, 2, 3, 4))
                        pay = (pay & ~(((1 << wd) - 1) << sh)) | ((beats - 1) << sh)
                    nb = 0
                    if d == 0:
                        nb = beats
                        if self.early[i]:
                            nb = 0 if self.early[i] >= beats else beats - self.early[i]
                            self.early[i] = 0
                        for k in range(beats - nb, beats):
                            wp = rng.getrandbits(self.w_w)
                            if self.full:
                                wp = (wp & ~(1 << self.wlast_bit)) | ((1 if k == beats - 1 else 0) << self.wlast_bit)
                            self.wbeats[i].append(wp)
                    self.a_cur[i][d] = (addr, pay, j, nb)
                    self.a_age[i][d] = 0
                    if d == 0:
                        self.owe[i] = False
                    if j is not None:
                        self.lock[i][d] = j
            # write data
            if self.w_cur[i] is None:
                if self.wbeats[i] and rng.random() < p_data:
                    self.w_cur[i] = self.wbeats[i].pop(0)
                elif (not self.domain) and not self.wbeats[i] and self.a_cur[i][0] is None and self.early[i] == 0 \
                        and not self.full and rng.random() < 0.05:
                    # data ahead of its address (outside NoDataBeforeAddr)
                    self.w_cur[i] = rng.getrandbits(self.w_w)
                    self.early[i] = 1
                elif self.domain and self.inst.early_ok and not self.wbeats[i] and self.a_cur[i][0] is None \
                        and self.early[i] == 0 and not self.owe[i] \
                        and self.a_acc[i][0] - self.resp[i][0] < self.max_out and rng.random() < 0.2 * p_start:
                    # one-slave fabric: a single data beat ahead of its address; the address is raised while the beat
                    # waits or, at the latest, in the cycle after its handshake (the region where the code is correct)
                    wp = rng.getrandbits(self.w_w)
                    if self.full:
                        wp |= 1 << self.wlast_bit
                    self.w_cur[i] = wp
                    self.early[i] = 1
                    self.w_is_early[i] = True
            aw, ar = self.a_cur[i]
            if self.sticky is None:
                self.sticky = [rng.random() < 0.4 for _ in range(n)]
            maw = self.inst.m_address_widths[i]
            parts.append(m_part(aw=(aw[0], aw[1]) if aw else None, idle_aw=(g(maw), g(self.aw_w)),
                                w=self.w_cur[i], idle_w=g(self.w_w),
                                b_ready=1 if self.sticky[i] else int(rng.random() < p_mready),
                                ar=(ar[0], ar[1]) if ar else None, idle_ar=(g(maw), g(self.ar_w)),
                                r_ready=1 if self.sticky[i] else int(rng.random() < p_mready)))
        force_ready = self.max_stall is not None and self.since_all_ready >= self.max_stall
        all_ready = True
        for j in range(m):
            if self.b_cur[j] is None and self.s_b[j] < min(self.s_aw[j], self.s_wl[j]) and rng.random() < p_resp:
                self.b_cur[j] = rng.getrandbits(self.b_w)
            if self.r_cur[j] is None and self.rq[j] and rng.random() < p_resp:
                lastbit = int(self.rq[j][0] == 1) if self.full else rng.getrandbits(1)
                self.r_cur[j] = (lastbit, rng.getrandbits(self.r_w))
            rdy = [1, 1, 1] if force_ready else [int(rng.random() < p_sready) for _ in range(3)]
            all_ready = all_ready and rdy == [1, 1, 1]
            parts.append(s_part(aw_ready=rdy[0], w_ready=rdy[1],
                                b=self.b_cur[j], idle_b=g(self.b_w), ar_ready=rdy[2],
                                r=self.r_cur[j], idle_r=(g(1), g(self.r_w))))
        self.since_all_ready = 0 if all_ready else self.since_all_ready + 1
        return tuple(itertools.chain.from_iterable(parts))


class NullMonitor:
    def observe(self, letter, outs):
        return None


class WalkEnv:
    """Uniformly random letters of the instance's mode-A alphabet (arbitrary, not protocol-following)."""
    def __init__(self, inst, **kw):
        self.inst = inst

    def next_letter(self, rng, t, last):
        return rng.choice(self.inst.alphabet)


# ---------------------------------------------------------------------------------------------------------
# property oracle (independent of the Lean model)

class AxiMonitor:
    """Checks C08 on a trace of (letter, outs) of the real code.  It knows only the topology (`kind`), the number of
    ports, AXI-Lite vs AXI4 (where `last` sits) and the address map as a Python predicate (`inst.target`).

    Per cycle, per direction (write: AW/W/B, read: AR/R):
      P  (protocol)   what the fabric drives is AXI-legal: a valid it raised at a slave port (AW/W/AR) or at a master
                      port (B/R) stays up with an unchanged payload until the ready.        [domain runs only]
      A  (address)    every address handshake at a master is, in the same cycle, an address handshake with the same
                      payload at exactly one slave — the one whose region contains the address — and every address
                      handshake at a slave is matched by exactly one master.
      D  (data)       every write-data handshake at a master is a handshake with the same payload at exactly one
                      slave: the slave of that master's oldest address still waiting for data, or — data ahead of
                      the address acceptance — the slave of the address it is presenting; the address later goes
                      to the same slave.
      R  (response)   every response handshake at slave j is delivered in the same cycle, with the same payload, to
                      exactly one master: the issuer of slave j's oldest unanswered request (scoreboard: one FIFO of
                      issuers per slave); every response handshake at a master is matched by exactly one slave, and
                      it answers that master's oldest unanswered request (one FIFO of slaves per master).
      L  (lock)       the unanswered requests of a shared bus (crossbar: of one slave) all belong to one master.
      W  (wait)       while a master keeps presenting an address for the bus (crossbar: for slave j), at most n-1
                      lock periods of other masters start.
      W2 (served)     an address presented in a cycle in which the bus (crossbar: its slave) holds no unanswered request,
                      no response is offered and no other master requests is seen by its slave — the one whose region
                      contains the byte address — in the next cycle at the latest (no starvation by an idle owner).
      R2 (resp path)  a response a slave offers for its oldest unanswered request is shown, with its payload, to the
                      issuer in the same cycle (also while the issuer stalls), and the issuer's ready reaches the slave.
      D2 (data path)  write data a master presents for an address a slave has accepted is shown, full width, to that
                      slave in the same cycle (also while the slave stalls).
      E  (early data) on fabrics with one slave that owns the whole address space data may be handed over before its address is presented (the address follows
                      no later than the cycle after the data handshake): until that address is accepted nobody else gets
                      a write address or write data through to that slave.
    With inst.domain = False (runs outside SameSlaveWhileLocked / NoDataBeforeAddr, or with non-AXI environments)
    only the address-independent part is checked: A/D/R as payload-equal pairings in the same cycle."""

    def __init__(self, inst, hyp=True):
        self.inst = inst
        self.n, self.m = inst.n, inst.m
        self.kind = inst.kind
        self.full = inst.full
        self.domain = inst.domain
        self.hyp = hyp          # False: judge the property without the two hypotheses (used by the finding probes)
        self.void = None        # set when the *environment* left AXI / the hypotheses: nothing is checked afterwards
        n, m = self.n, self.m
        self.prev = None
        self.fifo = [[[] for _ in range(m)] for _ in (0, 1)]       # issuers per slave
        self.mq = [[[] for _ in range(n)] for _ in (0, 1)]         # slaves per master (issue order)
        self.wq = [[] for _ in range(n)]                           # slaves of accepted addresses awaiting data
        self.early = [None] * n                                    # (slave, burst complete) of data sent ahead
        # data handed over before its address is even presented is judged only on fabrics with `inst.early_ok`
        self.early_ok = inst.early_ok
        self.free = [[None] * n for _ in (0, 1)]                   # W2: (slave, addr, pay) presented in a free cycle
        nres = m if self.kind == "xbar" else 1
        self.nres = nres
        self.owner = [[None] * nres for _ in (0, 1)]               # last master seen handshaking on the resource
        self.waitchg = [[[0] * n for _ in range(nres)] for _ in (0, 1)]
        if self.full:
            self.wlast_bit = pay_width(True, "w", inst.data_width, inst.address_width, inst.id_width) - 1

    def _wlast(self, pay):
        return ((pay >> self.wlast_bit) & 1) if self.full else 1

    def _res(self, j):
        return j if self.kind == "xbar" else 0

    def _early_clash(self, i, j, what):
        """E: while the data of master i2 sits at a slave ahead of its address, nobody else may get a write address or
        write data through to that slave (shared: to the bus) — the slave would pair i2's data with a foreign address."""
        for i2 in range(self.n):
            e = self.early[i2]
            if i2 != i and e is not None and self._res(e[0]) == self._res(j):
                return ("E: write %s of master %d is accepted by slave %d while the data master %d handed over ahead of "
                        "its address is still waiting there for that address (the grant moved in between: address/data "
                        "pairs of two masters are mixed)" % (what, i, j, i2))
        return None

    @staticmethod
    def _take(lst, pred):
        for k, x in enumerate(lst):
            if pred(x):
                return lst.pop(k)
        return None

    def observe(self, letter, outs):
        inst, n, m = self.inst, self.n, self.m
        if self.void is not None:
            return None
        letter = inst._letter if getattr(inst, "limit", None) is not None and inst._letter is not None else letter
        ms, ss = split_letter(letter, n, m)
        to_s, to_m = split_outs(outs, n, m)
        dom = self.domain
        # ---- P: stability of what the fabric drives ------------------------------------------------------
        if dom and self.prev is not None:
            pms, pss, pts, ptm = self.prev
            for j in range(m):
                for (v, r, pl, nm) in ((AWV, AWR, (AWA, AWP), "aw"), (WV, WR, (WP,), "w"), (ARV, ARR, (ARA, ARP), "ar")):
                    if pts[j][v] and not pss[j][r]:
                        if not to_s[j][v]:
                            return "P: slave %d: %s.valid dropped before %s.ready" % (j, nm, nm)
                        if any(pts[j][k] != to_s[j][k] for k in pl):
                            return "P: slave %d: %s payload changed while waiting for ready" % (j, nm)
            for i in range(n):
                for (v, r, pl, nm) in ((BV, BR, (BP,), "b"), (RV, RR, (RL, RP), "r")):
                    if ptm[i][v] and not pms[i][r]:
                        if not to_m[i][v]:
                            return "P: master %d: %s.valid dropped before %s.ready" % (i, nm, nm)
                        if any(ptm[i][k] != to_m[i][k] for k in pl):
                            return "P: master %d: %s payload changed while waiting for ready" % (i, nm)
        self.prev = (ms, ss, to_s, to_m)
        self.fifo_before = [[list(q) for q in self.fifo[d]] for d in (0, 1)]
        # ---- D2: write data of an accepted address is shown to that address's slave, full width, also while stalled
        if dom:
            for i in range(n):
                if ms[i][WV] and self.wq[i]:
                    j = self.wq[i][0]
                    if not (to_s[j][WV] and to_s[j][WP] == ms[i][WP]):
                        return ("D2: master %d presents write data %#x for its address accepted by slave %d, slave %d sees "
                                "w.valid=%d data %#x" % (i, ms[i][WP], j, j, to_s[j][WV], to_s[j][WP]))
        for d in (0, 1):
            AV, AA, AP, AR_ = (AWV, AWA, AWP, AWR) if d == 0 else (ARV, ARA, ARP, ARR)
            XV, XP, XR = (BV, BP, BR) if d == 0 else (RV, RP, RR)
            dn = "write" if d == 0 else "read"
            # ---- R: responses (older than anything accepted in this cycle) -------------------------------
            SB = [(j, ss[j][XP], ss[j][RL] if d else 0) for j in range(m) if ss[j][XV] and to_s[j][BR if d == 0 else RR]]
            MB = [(i, to_m[i][XP], to_m[i][RL] if d else 0) for i in range(n) if to_m[i][XV] and ms[i][BR if d == 0 else RR]]
            for (j, pay, lst) in SB:
                final = (not d) or (not self.full) or lst
                if dom:
                    if not self.fifo[d][j]:
                        self.void = "slave %d gives a %s response although it holds no unanswered request" % (j, dn)
                        return None
                    i = self.fifo[d][j][0]
                    got = self._take(MB, lambda x: x[0] == i and x[1] == pay and x[2] == lst)
                    if got is None:
                        return "R: %s response of slave %d (payload %#x) is not delivered to master %d, the issuer of its oldest unanswered request; masters receiving a response: %r" % (dn, j, pay, i, MB)
                    if not self.mq[d][i] or self.mq[d][i][0] != j:
                        return "R: master %d receives a %s response from slave %d but its oldest unanswered request went to %r" % (
                            i, dn, j, self.mq[d][i][:1])
                    if final:
                        self.fifo[d][j].pop(0)
                        self.mq[d][i].pop(0)
                else:
                    got = self._take(MB, lambda x: x[1] == pay and x[2] == lst)
                    if got is None:
                        return "R: %s response of slave %d (payload %#x) reaches no master in this cycle" % (dn, j, pay)
            if MB:
                return "R: master %d receives a %s response that no slave hands over in this cycle" % (MB[0][0], dn)
            # ---- R2: a response offered to a ready issuer gets through in the same cycle (no stalled response path)
            if dom:
                for j in range(m):
                    if ss[j][XV] and self.fifo_before[d][j]:
                        i = self.fifo_before[d][j][0]
                        if ms[i][BR if d == 0 else RR] and not to_s[j][BR if d == 0 else RR]:
                            return ("R2: slave %d offers a %s response, master %d (issuer of its oldest unanswered request) is "
                                    "ready, but the ready does not reach the slave" % (j, dn, i))
                        if not (to_m[i][XV] and to_m[i][XP] == ss[j][XP]):
                            return ("R2: slave %d offers %s response %#x but master %d (issuer of its oldest unanswered "
                                    "request) does not see it (sees valid=%d payload %#x)" % (j, dn, ss[j][XP], i, to_m[i][XV], to_m[i][XP]))
            # ---- A: addresses --------------------------------------------------------------------------
            MA = [(i, ms[i][AA], ms[i][AP]) for i in range(n) if ms[i][AV] and to_m[i][AR_]]
            SA = [(j, to_s[j][AA], to_s[j][AP]) for j in range(m) if to_s[j][AV] and ss[j][AR_]]
            acc = []      # (master, slave) pairs accepted in this cycle
            for (i, addr, pay) in MA:
                tg = inst.target(addr)
                if dom and len(tg) == 1:
                    got = self._take(SA, lambda x: x[0] == tg[0] and x[1] == addr and x[2] == pay)
                    if got is None:
                        return "A: %s address %#x of master %d is accepted but slave %d (its region) sees no such handshake; slaves accepting: %r" % (dn, addr, i, tg[0], SA)
                elif dom and not tg:
                    return "A: %s address %#x of master %d maps to no slave but is accepted" % (dn, addr, i)
                else:
                    got = self._take(SA, lambda x: x[1] == addr and x[2] == pay)
                    if got is None:
                        return "A: %s address %#x of master %d is accepted but no slave sees the handshake" % (dn, addr, i)
                acc.append((i, got[0]))
            if SA:
                return "A: slave %d accepts a %s address that no master hands over in this cycle" % (SA[0][0], dn)
            for (i, j) in acc:
                if d == 0 and dom:
                    r = self._early_clash(i, j, "address")
                    if r:
                        return r
                self.fifo[d][j].append(i)
                self.mq[d][i].append(j)
                if d == 0:
                    e = self.early[i]
                    if e is not None:
                        if dom and e[0] != j:
                            return "D: master %d's write data went to slave %d ahead of its address, the address then went to slave %d" % (i, e[0], j)
                        if not e[1]:
                            self.wq[i].append(j)
                        self.early[i] = None
                    else:
                        self.wq[i].append(j)
            # ---- D: write data -------------------------------------------------------------------------
            if d == 0:
                MW = [(i, ms[i][WP]) for i in range(n) if ms[i][WV] and to_m[i][WR]]
                SW = [(j, to_s[j][WP]) for j in range(m) if to_s[j][WV] and ss[j][WR]]
                for (i, pay) in MW:
                    exp = None
                    if dom:
                        if self.wq[i]:
                            exp = self.wq[i][0]
                            if self._wlast(pay):
                                self.wq[i].pop(0)
                        elif self.early[i] is not None and not self.early[i][1]:
                            exp = self.early[i][0]
                            self.early[i] = (exp, bool(self._wlast(pay)))
                        elif ms[i][AWV]:
                            tg = inst.target(ms[i][AWA])
                            if len(tg) == 1:
                                exp = tg[0]
                                self.early[i] = (exp, bool(self._wlast(pay)))
                        elif self.hyp and not self.early_ok:
                            self.void = "master %d hands over write data before presenting its address (outside NoDataBeforeAddr)" % i
                            return None
                        else:
                            got = self._take(SW, lambda x: x[1] == pay)
                            if got is None:
                                return "D: write data %#x of master %d is accepted but no slave sees the handshake" % (pay, i)
                            self.early[i] = (got[0], bool(self._wlast(pay)))
                            r = self._early_clash(i, got[0], "data")
                            if r:
                                return r
                            continue
                    if exp is not None:
                        got = self._take(SW, lambda x: x[0] == exp and x[1] == pay)
                        if got is None:
                            return "D: write data %#x of master %d is accepted but slave %d (where its address went / goes) sees no such handshake; slaves accepting data: %r" % (pay, i, exp, SW)
                        r = self._early_clash(i, exp, "data")
                        if r:
                            return r
                    else:
                        got = self._take(SW, lambda x: x[1] == pay)
                        if got is None:
                            return "D: write data %#x of master %d is accepted but no slave sees the handshake" % (pay, i)
                if SW:
                    return "D: slave %d accepts write data that no master hands over in this cycle" % SW[0][0]
            # ---- W2: an address presented while the bus / its slave is free is shown to the slave in the next cycle
            if dom:
                nowfree = [None] * n
                quiet_resp = [not ss[j][XV] for j in range(m)]
                for i in range(n):
                    prevf = self.free[d][i]
                    if prevf is not None and ms[i][AV] and (ms[i][AA], ms[i][AP]) == prevf[1:]:
                        r_s = prevf[0]
                        if not (to_s[r_s][AV] and to_s[r_s][AA] == ms[i][AA] and to_s[r_s][AP] == ms[i][AP]):
                            return ("W2: master %d presents %s address %#x (slave %d) for the second cycle with nothing "
                                    "outstanding and nobody else requesting, and slave %d still does not see it "
                                    "(the grant is not handed over / the address is not routed to its slave)"
                                    % (i, dn, ms[i][AA], r_s, r_s))
                    if not ms[i][AV] or to_m[i][AR_]:
                        continue
                    tg = inst.target(ms[i][AA])
                    if len(tg) != 1:
                        continue
                    r_s = tg[0]
                    others_idle = all(i2 == i or (not ms[i2][AV] and (d == 1 or not ms[i2][WV])) for i2 in range(n))
                    res_js = [r_s] if self.kind == "xbar" else range(m)
                    empty = all(not self.fifo[d][j] and quiet_resp[j] for j in res_js) and \
                        not any(self._res(j2) == self._res(r_s) for (_, j2) in acc)
                    noearly = d == 1 or all(i2 == i or self.early[i2] is None for i2 in range(n))
                    if others_idle and empty and noearly:
                        nowfree[i] = (r_s, ms[i][AA], ms[i][AP])
                self.free[d] = nowfree
            # ---- L: one owner per resource ---------------------------------------------------------------
            if dom:
                if self.kind == "xbar":
                    for j in range(m):
                        if len(set(self.fifo[d][j])) > 1:
                            return "L: slave %d holds unanswered %s requests of several masters %r" % (j, dn, self.fifo[d][j])
                else:
                    owners = {i for j in range(m) for i in self.fifo[d][j]}
                    if len(owners) > 1:
                        return "L: the shared bus holds unanswered %s requests of several masters %r" % (dn, sorted(owners))
                # ---- W: bounded waiting -----------------------------------------------------------------
                for r in range(self.nres):
                    hs = [i for (i, j) in acc if self._res(j) == r]
                    for i in range(n):
                        want = ms[i][AV] and (self.kind != "xbar" or inst.target(ms[i][AA]) == [r])
                        if not want or i in hs:
                            self.waitchg[d][r][i] = 0
                    for i2 in hs:
                        if self.owner[d][r] is not None and self.owner[d][r] != i2:
                            for i in range(n):
                                want = ms[i][AV] and (self.kind != "xbar" or inst.target(ms[i][AA]) == [r])
                                if want and i != i2:
                                    self.waitchg[d][r][i] += 1
                                    if self.waitchg[d][r][i] > max(n - 1, 0):
                                        return "W: master %d kept presenting a %s address while %d lock periods of other masters started (bound %d)" % (
                                            i, dn, self.waitchg[d][r][i], n - 1)
                        self.owner[d][r] = i2
        return None
