"""C13 — real-code runners, history generators and model-independent oracles for SoC resource allocation.

Everything here runs the unchanged code of /repo (`litex.soc.integration.soc`, `litex.build.generic_platform`)
on call histories and renders the observable result in the same canonical text the Lean driver
(`lean/Driver/C13.lean`) prints, so that correspondence is a string comparison.

Conventions
  * names are small integers; the real objects get the strings "r<k>" / "l<k>" / "io<k>" / "s<k>".
  * a rejected request (SoCError) aborts a real build; to keep exercising the code after a rejection the runner
    restores the handler's dictionaries to their value before the call (the Lean model is transactional too).
  * oracles (`*_oracle`) state the property on the real objects and never look at the model.
"""
import sys, random, contextlib
import envshim

envshim.install()
from litex.soc.integration import soc as S                      # noqa: E402
from litex.soc.interconnect import wishbone as WB               # noqa: E402
from litex.soc.interconnect import axi as AXI                   # noqa: E402
from litex.soc.integration.soc_core import SoCCore              # noqa: E402
from litex.build import generic_platform as GP                  # noqa: E402
from migen import Signal                                        # noqa: E402
from litex.gen.sim.core import Evaluator                        # noqa: E402

SoCError = S.SoCError


def _fast_signal_names():
    """Signal creation walks the whole Python stack through the (dis-based, 3.12) tracer shim to derive a name:
    ~10 ms per Signal, which would dominate every history that requests an IO or creates an interface.  C13
    never emits Verilog and never looks at a signal name, so inside the C13 harness process the backtrace is
    replaced by the explicit name.  Affects third-party Migen naming only, nothing in /repo."""
    import migen.fhdl.tracer as T
    T.trace_back = lambda varname=None: [(varname or "sig", 0)]


_fast_signal_names()
MAX_ALLOC_ITERS = 12000      # histories whose first-fit loop would run longer are not generated


class HistoryTimeout(Exception):
    pass


@contextlib.contextmanager
def time_limit(seconds):
    """A request that does not return (e.g. a request loop that no longer exhausts the table) is reported as a
    crash of that operation instead of hanging the check."""
    import signal

    def handler(signum, frame):
        raise HistoryTimeout("no answer within %ss" % seconds)

    # CPU time of this process (ITIMER_PROF), not wall time: the machine is shared and a loaded scheduler must
    # not turn a legitimate 0.5 s first-fit search into a time-out
    try:
        old = signal.signal(signal.SIGPROF, handler)
    except ValueError:          # not in the main thread: run unprotected
        yield
        return
    outer = signal.setitimer(signal.ITIMER_PROF, seconds)      # remaining time of an enclosing limit, if any
    try:
        yield
    finally:
        signal.setitimer(signal.ITIMER_PROF, 0)
        signal.signal(signal.SIGPROF, old)
        if outer[0] > 0:
            signal.setitimer(signal.ITIMER_PROF, outer[0])


OP_TIME_LIMIT = 8.0     # CPU seconds per operation (legitimate operations need < 0.5 s)


def win(size):
    """Smallest power of two >= size (>= 1): the decoded window of a region, computed independently of migen."""
    p = 1
    while p < size:
        p <<= 1
    return p


def b(x):
    return "1" if x else "0"


def nm(n):
    """Name id -> the string given to the real code: 1000+k is "master<k>", 2000+k is "slave<k>" (the shapes the
    handler generates itself), anything else "r<n>"; None stays None (automatic name)."""
    if n is None:
        return None
    if 1000 <= n < 2000:
        return "master%d" % (n - 1000)
    if 2000 <= n < 3000:
        return "slave%d" % (n - 2000)
    return "r%d" % n


def nid(name):
    if name.startswith("master") and name[6:].isdigit():
        return 1000 + int(name[6:])
    if name.startswith("slave") and name[5:].isdigit():
        return 2000 + int(name[5:])
    return int(name[1:])


def onone(x):
    return "N" if x is None else str(x)


# ------------------------------------------------------------------------------------------------------------
# interfaces are expensive to create under the py3.12 tracer shim (60 ms each): keep a pool, keyed by widths
_IFACES = {}


def iface(dw, adr_width, key, std="wishbone"):
    k = (dw, adr_width, key, std)
    if k not in _IFACES:
        if std == "wishbone":
            _IFACES[k] = WB.Interface(data_width=dw, adr_width=adr_width)
        else:       # AXI-Lite: byte addressed, same class/width as the bus -> add_adapter returns it unchanged
            _IFACES[k] = AXI.AXILiteInterface(data_width=dw, address_width=adr_width + (dw // 8).bit_length() - 1)
    return _IFACES[k]


_PLATFORM = []


def soc_platform():
    if not _PLATFORM:
        _PLATFORM.append(GP.GenericPlatform("dev", [("clk", 0, GP.Pins("A1"))], name="c13"))
    return _PLATFORM[0]


_ASIG = {}


def asig(width):
    if width not in _ASIG:
        _ASIG[width] = Signal(max(width, 1), name="a")
    return _ASIG[width]


class _StubInterconnect:
    """Stands in for the interconnect *hardware* during bulk runs: `do_finalize` (the real method) still takes
    every decision and calls every `SoCRegion.decoder`; only the Migen netlist construction is skipped."""

    def __init__(self, masters=None, slaves=None, register=None, timeout_cycles=None, master=None, slave=None):
        self.masters, self.slaves, self.master, self.slave = masters, slaves, master, slave
        self.p2p = master is not None


# the point-to-point classes are NOT stubbed: they are cheap (`master.connect(slave)`) and the selection oracle
# samples the slave's request lines on the real netlist (see `p2p_select_bits`)
_STUBBED = [(WB, "InterconnectShared"), (WB, "Crossbar"),
            (AXI, "AXILiteInterconnectShared"), (AXI, "AXILiteCrossbar"),
            (AXI, "AXIInterconnectShared"), (AXI, "AXICrossbar")]
P2P_CLASSES = (WB.InterconnectPointToPoint, AXI.AXILiteInterconnectPointToPoint, AXI.AXIInterconnectPointToPoint)


@contextlib.contextmanager
def stub_interconnects():
    saved = [getattr(m, a) for m, a in _STUBBED]
    for m, a in _STUBBED:
        setattr(m, a, _StubInterconnect)
    try:
        yield
    finally:
        for (m, a), v in zip(_STUBBED, saved):
            setattr(m, a, v)


# ------------------------------------------------------------------------------------------------------------
# bus handler
DEFAULT_CFG = {"ic": "shared", "std": "wishbone", "soc": 0, "reserved": []}
RESERVED_INT_SIZE = 0x1000000       # `SoCRegion(origin=region, size=0x1000000)` for an integer reserved region


class BusRun:
    """One real SoCBusHandler driven by a history.  `aw` may be a toy width: the constructor only accepts 32/64,
    every later use reads `self.address_width`, which is overridden after construction."""

    def __init__(self, aw, dw, cfg=None, raw=False):
        cfg = dict(DEFAULT_CFG, **(cfg or {}))
        self.cfg = cfg
        self.raw = raw          # raw: a SoCError is caught and the handler is used on AS THE CODE LEFT IT (no roll-back)
        self.stale = []         # names of regions / IO regions present after a refused call that were not there before
        self.aw, self.dw = aw, dw
        self.wb = dw // 8
        self.sh = self.wb.bit_length() - 1
        self.std = cfg["std"]
        self.soc = None
        self.verdicts = []
        aw_ctor = aw if aw in (32, 64) else 32
        # reserved_regions of the constructor: {name: origin (int -> 16 MiB region) | SoCRegion}
        reserved = {}
        for n, o, sz in cfg["reserved"]:
            reserved[nm(n)] = o if sz is None else S.SoCRegion(origin=o, size=sz)
        try:
            with time_limit(OP_TIME_LIMIT):
                if cfg["soc"]:
                    # through the SoC constructor, the way designs get their handlers
                    self.soc = S.SoC(soc_platform(), 1e6, bus_standard=self.std, bus_data_width=dw,
                                     bus_address_width=aw_ctor, bus_interconnect=cfg["ic"],
                                     bus_reserved_regions=reserved)
                    self.bus = self.soc.bus
                else:
                    self.bus = S.SoCBusHandler(standard=self.std, data_width=dw, address_width=aw_ctor,
                                               interconnect=cfg["ic"], reserved_regions=reserved)
            self.verdicts += ["ok"] * len(reserved)
        except Exception as e:
            envshim.quiet_stderr()
            self.verdicts.append("ctor-rej" if isinstance(e, SoCError) else "crash:" + type(e).__name__)
            self.soc = None
            self.bus = S.SoCBusHandler(standard=self.std, data_width=dw, address_width=aw_ctor, interconnect=cfg["ic"])
        self.bus.address_width = aw
        self.fin = None
        self.decoders = None     # [(slave name, callable)] handed to the interconnect by do_finalize
        self.p2p = False

    # -- helpers --------------------------------------------------------------------------------------------
    def _snapshot(self):
        bus = self.bus
        return (dict(bus.regions), dict(bus.io_regions), dict(bus.masters), dict(bus.slaves), bus.io_regions_check)

    def _restore(self, snap):
        bus = self.bus
        bus.regions, bus.io_regions, bus.masters, bus.slaves, bus.io_regions_check = (
            dict(snap[0]), dict(snap[1]), dict(snap[2]), dict(snap[3]), snap[4])

    @staticmethod
    def _region(io, origin, size, cached, linker, decode):
        cls = S.SoCIORegion if io else S.SoCRegion
        return cls(origin=origin, size=size, cached=bool(cached), linker=bool(linker), decode=bool(decode))

    def apply(self, op):
        """Execute one operation on the real handler; returns 'ok' | 'rej' | 'crash:<exc>'."""
        bus = self.bus
        snap = self._snapshot()
        try:
            with time_limit(OP_TIME_LIMIT):
                k = op[0]
                idx = len(self.verdicts)        # a distinct interface object for every call of the history
                adr_w = max(self.aw - self.sh, 1)
                if k == "R":
                    _, n, io, o, sz, c, l, d = op
                    if self.soc is not None and not io and d:
                        # SoC-level helper (SoCCore.add_memory_region builds the SoCRegion from a type string)
                        SoCCore.add_memory_region(self.soc, nm(n), o, sz,
                                                  type=("cached" if c else "io") + ("+linker" if l else ""))
                    else:
                        bus.add_region(nm(n), self._region(io, o, sz, c, l, d))
                elif k == "S":
                    n = op[1]
                    reg = None
                    if len(op) > 2:
                        _, n, o, sz, c, l, d = op
                        reg = self._region(False, o, sz, c, l, d)
                    if (self.soc is not None and reg is not None and n is not None and o is not None and c and not l
                            and d and 2 * self.wb <= sz <= 0x4000 and sz % self.wb == 0 and o % self.wb == 0):
                        self.soc.add_ram(nm(n), o, sz)       # SoC.add_ram: SRAM + add_slave(name, ram.bus, region)
                    else:
                        bus.add_slave(nm(n), iface(self.dw, adr_w, ("s", idx), self.std), reg)
                elif k == "M":
                    bus.add_master(nm(op[1]), iface(self.dw, adr_w, ("m", idx), self.std))
                elif k == "C":
                    bus.io_regions_check = bool(op[1])
                else:
                    raise ValueError(op)
            v = "ok"
        except SoCError:
            envshim.quiet_stderr()
            if self.raw:
                self.stale += [n for n in list(bus.regions) + list(bus.io_regions) if n not in snap[0] and n not in snap[1]]
            else:
                self._restore(snap)
            v = "rej"
        except Exception as e:      # anything else is outside the modelled behaviour: reported as an alarm
            envshim.quiet_stderr()
            self._restore(snap)
            v = "crash:" + type(e).__name__
        self.verdicts.append(v)
        return v

    def finalize(self, real_hw=False):
        """Run the real `do_finalize` (with stubbed interconnect hardware unless `real_hw`)."""
        bus = self.bus
        try:
            if real_hw:
                bus.do_finalize()
            else:
                with stub_interconnects(), time_limit(OP_TIME_LIMIT):
                    bus.do_finalize()
            self.fin = "ok"
            ic = bus._interconnect
            if ic is not None:
                self.p2p = isinstance(ic, P2P_CLASSES)
                if not self.p2p and not real_hw:
                    self.decoders = [(n, fn) for n, (fn, _) in zip(bus.slaves.keys(), ic.slaves)]
        except SoCError:
            envshim.quiet_stderr()
            self.fin = "rej"
        except Exception as e:
            envshim.quiet_stderr()
            self.fin = "crash:" + type(e).__name__
        return self.fin

    @staticmethod
    def _rs(name, r):
        return "%d:%d:%d:%s:%s:%s" % (nid(name), r.origin, r.size, b(r.cached), b(r.linker), b(r.decode))

    def state_str(self):
        bus = self.bus
        return " # ".join([
            " ".join(self._rs(n, r) for n, r in bus.regions.items()),
            " ".join(self._rs(n, r) for n, r in bus.io_regions.items()),
            " ".join(str(nid(n)) for n in bus.masters), " ".join(str(nid(n)) for n in bus.slaves),
            b(bus.io_regions_check)])

    def result_str(self):
        fin = "p2p" if (self.fin == "ok" and self.p2p) else (self.fin or "-")     # which interconnect class was built
        return " # ".join([" ".join(self.verdicts), fin, self.state_str()] +
                          ([" ".join(str(nid(n)) for n in self.stale)] if self.raw else []))


def bus_line(aw, dw, ops, cfg=None):
    parts = ["bus %d %d" % (aw, dw)]
    for n, o, sz in (cfg or {}).get("reserved", []):
        parts.append("R %d 0 %d %d 1 0 1" % (n, o, RESERVED_INT_SIZE if sz is None else sz))
    for op in ops:
        if op[0] == "R":
            _, n, io, o, sz, c, l, d = op
            parts.append("R %d %s %s %d %s %s %s" % (n, b(io), onone(o), sz, b(c), b(l), b(d)))
        elif op[0] == "S" and len(op) > 2:
            _, n, o, sz, c, l, d = op
            parts.append("S %s %s %d %s %s %s" % (onone(n), onone(o), sz, b(c), b(l), b(d)))
        elif op[0] in ("S", "M"):
            parts.append("%s %s" % (op[0], onone(op[1])))
        elif op[0] == "C":
            parts.append("C %s" % b(op[1]))
    return " ; ".join(parts)


def strip_errs(model_answer):
    """The model names the reason of a rejection (`rej:overlap`); the real code only raises SoCError."""
    return " ".join(w.split(":")[0] if w.startswith("rej:") else w for w in model_answer.split(" "))


# -- oracles on the real bus handler ------------------------------------------------------------------------
def regions_oracle(bus):
    """Pairwise disjointness of the decoded windows of non-linker regions, unique names, slaves have regions."""
    for what, d in (("regions", bus.regions), ("io_regions", bus.io_regions)):
        items = list(d.items())
        for i in range(len(items)):
            n0, r0 = items[i]
            for j in range(i + 1, len(items)):
                n1, r1 = items[j]
                if r0.linker or r1.linker:
                    continue
                if r0.origin < r1.origin + win(r1.size) and r1.origin < r0.origin + win(r0.size):
                    return "%s %s [0x%x,+0x%x) and %s [0x%x,+0x%x) overlap on their decoded windows" % (
                        what, n0, r0.origin, win(r0.size), n1, r1.origin, win(r1.size))
    dup = set(bus.regions) & set(bus.io_regions)
    if dup:
        return "name %s is both a region and an IO region" % sorted(dup)
    for n in bus.slaves:
        if n not in bus.regions:
            return "slave %s has no region" % n
    return None


def clients_oracle(bus, op, masters0, slaves0):
    """No master/slave is lost or replaced: after an accepted call every earlier (name, interface object) pair
    is still registered at its place, and exactly one client was added by add_master / add_slave."""
    for what, before, now, adds in (("master", masters0, list(bus.masters.items()), op[0] == "M"),
                                    ("slave", slaves0, list(bus.slaves.items()), op[0] == "S")):
        if len(now) != len(before) + (1 if adds else 0):
            return "%d %ss registered before the accepted call, %d after it" % (len(before), what, len(now))
        for (n0, o0), (n1, o1) in zip(before, now):
            if n0 != n1 or o0 is not o1:
                return "%s %s registered earlier has been replaced or moved (%s)" % (what, n0, n1)
    return None


def alloc_oracle(bus, aw, name, size, cached, known=()):
    """Soundness of one automatic allocation (`add_region` with origin=None just returned)."""
    r = bus.regions.get(name)
    if r is None:
        return "allocation of %s reported success but no region was recorded" % name
    P = win(size)
    if r.size != size or bool(r.cached) != bool(cached) or r.origin is None:
        return "allocated region %s differs from the request" % name
    if r.origin < 0 or r.origin % P:
        return "allocated region %s origin 0x%x is not aligned on its decoded size 0x%x" % (name, r.origin, P)
    if cached:
        if r.origin + P > 2 ** aw:
            return "allocated region %s [0x%x,+0x%x) leaves the %d-bit address space" % (name, r.origin, P, aw)
    else:
        ios = list(bus.io_regions.values())
        if not any(io.origin <= r.origin and r.origin + size <= io.origin + win(io.size) for io in ios):
            return "uncached region %s [0x%x,+0x%x) allocated outside every IO region window" % (name, r.origin, size)
        # inside the *declared* IO size: demanded when the IO sizes are powers of two (else: known finding
        # C13-alloc-io-nonpow2, theorem alloc_in_io_partial)
        if all(win(io.size) == io.size for io in ios) or "C13-alloc-io-nonpow2" not in known:
            if not any(io.origin <= r.origin and r.origin + size <= io.origin + io.size for io in ios):
                return "uncached region %s [0x%x,+0x%x) allocated beyond the declared size of every IO region" % (
                    name, r.origin, size)
    return None


def dec_addresses(run, regions, rng=None, exhaustive_limit=4096):
    """Word addresses on which decoders are evaluated: all of them for toy widths, region boundaries +-1 else."""
    nwords = 2 ** max(run.aw - run.sh, 0)
    if nwords <= exhaustive_limit:
        return list(range(nwords)), True
    A = {0, 1, nwords - 1, nwords - 2}
    for r in regions:
        for x in (r.origin, r.origin + r.size, r.origin + win(r.size)):
            w = x // run.wb
            A.update((w - 1, w, w + 1))
    if rng is not None:
        A.update(rng.randrange(nwords) for _ in range(4))
    return sorted(a for a in A if 0 <= a < nwords), False


def eval_decoder(fn, width, addrs):
    """Evaluate the predicate built by SoCRegion.decoder on the real Migen expression, address by address."""
    a = asig(width)
    e = fn(a)
    if isinstance(e, (bool, int)):
        return [int(bool(e))] * len(addrs)
    ev = Evaluator({}, {})
    out = []
    for x in addrs:
        ev.signal_values[a] = x
        out.append(int(bool(ev.eval(e))))
    return out


def p2p_select_bits(run, addrs):
    """The point-to-point interconnect built by the real do_finalize, on the real netlist: drive the master's
    request with every word address of `addrs` and sample whether the request reaches the slave (and with which
    address).  Returns ({slave: [bit]}, alarm | None)."""
    from netlist import Netlist
    bus = run.bus
    ic = bus._interconnect
    (mn, m), = list(bus.masters.items())[:1]
    (sn, s), = list(bus.slaves.items())[:1]
    nl = Netlist(ic)
    out, alarm = [], None
    wish = hasattr(m, "cyc")
    if wish:
        nl.set(m.cyc, 1)
        nl.set(m.stb, 1)
    else:
        nl.set(m.ar.valid, 1)
    for a in addrs:
        if wish:
            nl.set(m.adr, a)
            nl.settle()
            hit, seen = int(bool(nl.getu(s.cyc)) and bool(nl.getu(s.stb))), nl.getu(s.adr)
            want = a & (2 ** len(s.adr) - 1)
        else:
            nl.set(m.ar.addr, a * run.wb)
            nl.settle()
            hit, seen = int(bool(nl.getu(s.ar.valid))), nl.getu(s.ar.addr)
            want = (a * run.wb) & (2 ** len(s.ar.addr) - 1)
        out.append(hit)
        if hit and seen != want and alarm is None:
            alarm = "point-to-point: master address 0x%x reaches slave %s as 0x%x" % (a, sn, seen)
    return {sn: out}, alarm


P2P_FINDING = "C06-p2p-partial-region-origin0"      # open finding of C06 (the shortcut ignores the region SIZE)


def decoders_oracle(run, bits, addrs, known=(), p2p=False):
    """`bits[name]` = accept bit per address in `addrs` for every slave (after a successful do_finalize):
    exactness w.r.t. the power-of-two window and at most one non-linker slave per address.  Regions smaller than
    one bus word are excluded when the finding C13-decoder-subword is listed.  `p2p`: the bits were sampled on
    a point-to-point interconnect (no decoder exists); a slave region at origin 0 smaller than the address space
    is excluded while C06's finding C06-p2p-partial-region-origin0 is listed open."""
    bus = run.bus
    wb = run.wb
    names = list(bits.keys())
    sub_ok = "C13-decoder-subword" in known
    if p2p:
        for n in names:
            r = bus.regions.get(n)
            if r is None:
                return "point-to-point slave %s has no region" % n
            if r.origin == 0 and win(r.size) < 2 ** run.aw and P2P_FINDING in known:
                return None
            if not r.decode or not (win(r.size) >= wb or not sub_ok):
                continue
            for a, v in zip(addrs, bits[n]):
                want = int(r.origin <= a * wb < r.origin + win(r.size))
                if v != want:
                    return ("slave %s [0x%x,+0x%x) is wired point-to-point (no address decoder was built): word address "
                            "0x%x %s the slave, its window says %s" % (
                                n, r.origin, win(r.size), a, "reaches" if v else "does not reach",
                                "inside" if want else "outside"))
        return None

    def demanded(r):
        return not r.linker and (win(r.size) >= wb or not sub_ok)

    for n in names:
        r = bus.regions[n]
        if r.origin % win(r.size):
            return "slave %s: decoder built for origin 0x%x not aligned on 0x%x" % (n, r.origin, win(r.size))
        if not r.decode or not (win(r.size) >= wb or not sub_ok):
            continue
        for a, v in zip(addrs, bits[n]):
            want = int(r.origin <= a * wb < r.origin + win(r.size))
            if v != want:
                return "slave %s [0x%x,+0x%x): decoder(0x%x) = %d, window says %d" % (
                    n, r.origin, win(r.size), a, v, want)
    for k, a in enumerate(addrs):
        sel = [n for n in names if bits[n][k] and demanded(bus.regions[n])]
        if len(sel) > 1:
            return "word address 0x%x selects %d slaves: %s" % (a, len(sel), sel)
    return None


def est_alloc_iters(bus, size, cached, aw):
    """Upper estimate of the iterations of alloc_region's loop (origin advances by `size` through every
    allocated window it meets), used only to keep the generator away from astronomically long searches."""
    if size <= 0:
        return 1 << 62
    if cached:
        spans = [(0, 2 ** aw)]
    else:
        spans = [(io.origin, io.origin + win(io.size)) for io in bus.io_regions.values()]
    total = 2
    for lo, hi in spans:
        total += 2
        for r in bus.regions.values():
            if r.linker:
                continue
            a, e = max(lo, r.origin - win(size)), min(hi, r.origin + win(r.size))
            if e > a:
                total += 2 * ((e - a) // size + 2)
    return total


# -- history generation ---------------------------------------------------------------------------------------
def size_pool(aw):
    if aw >= 32:
        S0 = [1, 3, 0x800, 0x1000, 0x1800, 0x1000, 0x2000, 0x3000, 0x10000, 2 ** 31, 2 ** 32]
        for k in (2, 5, 11, 12, 13, 16, 20, 28, 31, 32):
            S0 += [2 ** k - 1, 2 ** k + 1]
        if aw == 64:
            S0 += [2 ** 33, 2 ** 40, 2 ** 63, 2 ** 64, 2 ** 63 + 1]
        return S0
    top = 2 ** aw
    S0 = [1, 3, 4, 8, 0x10, 0x18, 0x30, 0x40, 0x100, 0x180, top // 4 - 1, top // 4, top // 4 + 1, top // 2, top - 1, top]
    return S0


def gen_bus_cfg(rng, aw, hw=False):
    """Less-used constructor options and the SoC-level glue: crossbar, AXI-Lite bus, handlers created by the SoC
    constructor (regions through add_memory_region / add_ram), reserved_regions of the constructor."""
    cfg = dict(DEFAULT_CFG)
    cfg["ic"] = "crossbar" if rng.random() < 0.3 else "shared"
    if hw:
        return cfg
    cfg["std"] = "axi-lite" if rng.random() < 0.2 else "wishbone"
    cfg["soc"] = int(rng.random() < 0.25)
    if rng.random() < 0.15:
        if aw >= 32 and rng.random() < 0.6:
            base = rng.choice([0x10000000, 0x40000000, 0x0, 0x82000000])
            res = [[8, base, None]]
            if rng.random() < 0.5:
                res.append([9, base + 4 * RESERVED_INT_SIZE, rng.choice([None, 0x1800, 0x1000])])
        else:
            top = 2 ** aw
            sz = rng.choice([0x10, 0x18, 0x100]) if aw < 32 else rng.choice([0x1000, 0x1800])
            res = [[8, top // 4, sz]]
            if rng.random() < 0.5:
                res.append([9, top // 4 + 4 * win(sz), sz])
        cfg["reserved"] = res
    return cfg


def gen_bus_history(rng, nops=None, cfg=None, hw=False, raw=False):
    """Generate a history adaptively against the real handler; returns (aw, dw, ops, BusRun after the history).
    Oracles are NOT evaluated here (see run_bus_history)."""
    if cfg is None:
        aw = rng.choice([32, 32, 32, 64, 12, 12, 16])
        dw = rng.choice([32, 32, 32, 64, 64, 128, 128, 256, 512])
    else:
        aw, dw = cfg
    run = BusRun(aw, dw, dict(gen_bus_cfg(rng, aw, hw), reserved=[]) if raw else gen_bus_cfg(rng, aw, hw), raw=raw)
    nops = nops or rng.randint(1, 12)
    sizes = size_pool(aw)
    top = 2 ** aw
    # a "focus" window in which most fixed origins fall, so that requests interact
    if aw >= 32:
        gran = rng.choice([0x800, 0x1000, 0x1000, 0x10000, 0x100])
        focus = rng.choice([0, 0, 0x10000000, 0x40000000, 0x80000000, 0xf0000000, top - 16 * gran, top // 2])
        io_base = rng.choice([0x80000000, 0x80000000, 0xf0000000, focus, top // 2])
    else:
        gran = rng.choice([4, 0x10, 0x40, 0x100])
        focus = max(0, rng.choice([0, 0, top // 2, top - 8 * gran, top // 4]))     # origins are never negative
        io_base = rng.choice([top // 2, focus, top - top // 4])
    names = list(range(1, 10))
    ops = []
    if rng.random() < 0.05:
        # master naming: automatic names around explicit ones of the same shape, e.g.
        # add_master(); add_master("master2"); add_master()  (the third call generates the taken name master2)
        for _ in range(rng.randint(2, 6)):
            op = ("M", rng.choice([None, None, None, 1001, 1002, 1002, 1003, 1000, 3]))
            ops.append(op)
            run.apply(op)
        if rng.random() < 0.3:
            op = ("S", None) if rng.random() < 0.3 else ("S", None, None, max(gran, 1), 1, 0, 1)
            ops.append(op)
            run.apply(op)
        nops = rng.randint(0, 4)
    elif rng.random() < 0.08:
        # point-to-point shapes: one master, one slave; do_finalize looks at the SLAVE's region origin, not at the
        # first region of the dict (a slave-less / linker region at 0 declared first must not short-cut decoding)
        sz = rng.choice([gran, 2 * gran, 3 * gran, gran + 1]) or 1
        at0 = ("R", 1, 0, 0, sz, 1, int(rng.random() < 0.4), 1)
        off = win(sz) * rng.randint(1, 4) + (rng.choice([0, 0, gran // 2, 1]) if rng.random() < 0.5 else 0)
        slave_far = ("S", 2, off, sz, 1, 0, 1)
        shape = rng.randrange(4)
        if shape == 0:
            pre = [("C", 0), at0, slave_far, ("M", 1)]            # region at 0 first, slave elsewhere
        elif shape == 1:
            pre = [("C", 0), ("R", 2, 0, off, sz, 1, 0, 1), ("S", 1, 0, sz, 1, 0, 1), ("M", 1)]   # slave at 0, declared second
        elif shape == 2:
            pre = [("C", 0), at0, ("M", 1), ("S", 1)]              # the region at 0 is the slave's
        else:
            pre = [("C", 0), slave_far, at0, ("M", 1)]             # slave elsewhere first, region at 0 later
        for op in pre:
            ops.append(op)
            run.apply(op)
        if rng.random() < 0.6:
            return aw, dw, ops, run
        nops = rng.randint(1, 3)
    for t in range(nops):
        u = rng.random()
        name = rng.choice(names[:4]) if rng.random() < 0.12 else rng.choice(names)
        if rng.random() < 0.8:      # prefer a fresh name
            fresh = [n for n in names if nm(n) not in run.bus.regions and nm(n) not in run.bus.io_regions]
            if fresh:
                name = rng.choice(fresh)

        def pick_size(small=False):
            s = rng.choice(sizes)
            if small and s > 64 * gran and rng.random() < 0.8:
                s = rng.choice([gran, gran // 2 or 1, 3 * gran // 2 or 1, gran + 1, 2 * gran - 1, 1, 3])
            return s

        def fixed_region():
            sz = pick_size(small=rng.random() < 0.7)
            if rng.random() < 0.75:
                o = focus + gran * rng.randrange(0, 16)
            else:
                o = rng.choice([0, 1, top - sz if top >= sz else 0, top, top // 2, io_base + rng.choice([0, gran, 0x3000]),
                                rng.randrange(0, top), focus + rng.randrange(0, 16 * gran)])
            if rng.random() < 0.5 and win(sz) > 1:
                o -= o % win(sz)      # aligned on the decoded size half of the time
            o = max(o, 0)
            probe = S.SoCRegion(origin=o, size=sz)
            try:
                in_io = run.bus.check_region_is_io(probe)
            except Exception:
                in_io = False
            cached = (not in_io) if rng.random() < 0.85 else rng.random() < 0.5
            return o, sz, cached, rng.random() < 0.08, rng.random() > 0.04

        if u < 0.13 or (t == 0 and u < 0.5):
            # IO region
            sz = rng.choice([0x3000, 0x1000, 0x2000, 0x10000, 0x80000000, 0x1800, 0x4000] if aw >= 32 else
                            [0x300, 0x100, 0x200, 0x400, top // 4, top // 2, 0x180])
            o = io_base + rng.choice([0, 0, sz, 2 * sz, 0x700 if aw >= 32 else 0x70, gran])
            op = ("R", name, 1, o, sz, rng.random() < 0.2, rng.random() < 0.05, 1)
        elif u < 0.50:
            o, sz, c, l, d = fixed_region()
            op = ("R", name, 0, o, sz, c, l, d)
        elif u < 0.72:
            # automatic allocation
            cached = rng.random() < (0.5 if run.bus.io_regions else 0.85)
            sz = pick_size(small=True)
            if sz == 0 or est_alloc_iters(run.bus, sz, cached, aw) > MAX_ALLOC_ITERS:
                sz = max(gran, 1) * rng.choice([1, 2, 3])
                if est_alloc_iters(run.bus, sz, cached, aw) > MAX_ALLOC_ITERS:
                    continue
            op = ("R", name, 0, None, sz, cached, rng.random() < 0.05, rng.random() > 0.03)
        elif u < 0.84:
            # slave: existing region, new fixed region or new allocated region
            v = rng.random()
            if v < 0.4 and run.bus.regions:
                n = nid(rng.choice(list(run.bus.regions)))
                op = ("S", n)
            elif v < 0.5:
                op = ("S", name)
            elif v < 0.85:
                o, sz, c, l, d = fixed_region()
                sname = name if rng.random() < 0.7 else rng.choice([None, None, 2000, 2001, 2002])
                op = ("S", sname, o, sz, c, l, d)
            else:
                sz = max(gran, 1) * rng.choice([1, 2, 3])
                cached = rng.random() < 0.6
                if est_alloc_iters(run.bus, sz, cached, aw) > MAX_ALLOC_ITERS:
                    continue
                op = ("S", name, None, sz, cached, 0, 1)
        elif u < 0.93:
            # explicit names of the very shape the handler generates (master<k>) mixed with automatic names
            op = ("M", rng.choice([None, None, None, 1000, 1001, 1002, 1002, 1003, 1, 2]))
        else:
            op = ("C", rng.random() < 0.4)
        op = tuple(int(x) if isinstance(x, bool) else x for x in op)
        ops.append(op)
        run.apply(op)
    # half of the histories end as a buildable system: at least one master, and slaves on existing regions
    if rng.random() < 0.5:
        extra = []
        if not run.bus.masters:
            extra.append(("M", rng.choice([1, None])))
        free = [n for n in run.bus.regions if n not in run.bus.slaves]
        rng.shuffle(free)
        for n in free[:rng.randint(1, 3)]:
            extra.append(("S", nid(n)))
        for op in extra:
            ops.append(op)
            run.apply(op)
    return aw, dw, ops, run


def op_request(op):
    """(name, io, origin, size, cached) of the region request carried by an operation, or None."""
    if op[0] == "R":
        return op[1], op[2], op[3], op[4], op[5]
    if op[0] == "S" and len(op) > 2:
        return op[1], 0, op[2], op[3], op[4]
    return None


def registered_oracle(bus, name, io, o, sz, c, l, d):
    """The region registered under `name` is the one that was requested (nothing re-sized, moved or re-flagged
    on the way through the helpers)."""
    r = (bus.io_regions if io else bus.regions).get(name)
    if r is None:
        return "accepted region %s is not registered" % name
    if o is not None and r.origin != o:
        return "region %s requested at 0x%x is registered at %r" % (name, o, r.origin)
    if r.size != sz or bool(r.cached) != bool(c) or bool(r.linker) != bool(l) or bool(r.decode) != bool(d):
        return "region %s registered as size 0x%x cached=%s linker=%s decode=%s, requested 0x%x %s %s %s" % (
            name, r.size, r.cached, r.linker, r.decode, sz, bool(c), bool(l), bool(d))
    if isinstance(r, S.SoCIORegion) != bool(io):
        return "region %s registered with the wrong kind" % name
    return None


def io_consistency_oracle(bus, name, check_was_on, ios_before):
    """A fixed-origin bus region accepted while `io_regions_check` is on is uncached iff it lies inside the
    declared extent of an IO region (recomputed from origins/sizes, not by the handler's helpers)."""
    r = bus.regions.get(name)
    if r is None or not check_was_on or r.origin is None:
        return None
    inside = any(io.origin <= r.origin and r.origin + r.size <= io.origin + io.size for io in ios_before)
    if inside and r.cached:
        return "cached region %s [0x%x,+0x%x) was accepted inside an IO region" % (name, r.origin, r.size)
    if not inside and not r.cached:
        return "uncached region %s [0x%x,+0x%x) was accepted outside every IO region" % (name, r.origin, r.size)
    return None


def run_bus_history(aw, dw, ops, known=(), rng=None, with_oracles=True, cfg=None):
    """Replay `ops` on a fresh real handler with all oracles armed.
    Returns dict(result=<canonical text>, alarm=<oracle message or None>, dec=[(line, real bits)], nontrivial=int)."""
    run = BusRun(aw, dw, cfg)
    alarm = None
    nontrivial = 0
    if any(v != "ok" for v in run.verdicts):
        alarm = "constructor with reserved_regions %r: %s" % (run.cfg["reserved"], run.verdicts[-1])
    elif with_oracles:
        msg = regions_oracle(run.bus)
        for n, o, sz in run.cfg["reserved"]:
            msg = msg or registered_oracle(run.bus, nm(n), 0, o, RESERVED_INT_SIZE if sz is None else sz, 1, 0, 1)
        if msg:
            alarm = "after the constructor: " + msg
    for k, op in enumerate(ops):
        rq = op_request(op)
        bus = run.bus
        # the name this call will use (explicit, or generated by the handler from the current counts)
        if op[0] == "M":
            name = nm(op[1]) if op[1] is not None else "master%d" % len(bus.masters)
        elif op[0] in ("S", "R"):
            name = nm(op[1]) if op[1] is not None else "slave%d" % len(bus.slaves)
        else:
            name = None
        taken = rq is not None and (name in bus.regions or name in bus.io_regions)
        taken_ms = (op[0] == "M" and name in bus.masters) or (op[0] == "S" and name in bus.slaves)
        masters0, slaves0 = list(bus.masters.items()), list(bus.slaves.items())
        check0, ios0 = bool(bus.io_regions_check), list(bus.io_regions.values())
        v = run.apply(tuple(op))
        if v == "ok":
            nontrivial += 1
        if v.startswith("crash") and alarm is None:
            alarm = "op %d %r raised %s" % (k, list(op), v)
        if with_oracles and alarm is None and v == "ok":
            msg = regions_oracle(bus)
            if msg is None and (taken or taken_ms):
                msg = "name %s was already granted and has been granted again" % name
            if msg is None:
                msg = clients_oracle(bus, op, masters0, slaves0)
            if msg is None and rq is not None and not rq[1] and rq[2] is None:
                msg = alloc_oracle(bus, aw, name, rq[3], rq[4], known)
            if msg is None and rq is not None and rq[2] is not None:
                full = op[2:] if op[0] == "R" else (0,) + tuple(op[2:])
                msg = registered_oracle(bus, name, *full)
                if msg is None and not rq[1]:
                    msg = io_consistency_oracle(bus, name, check0, ios0)
            if msg:
                alarm = "after op %d %r: %s" % (k, list(op), msg)
    fin = run.finalize(real_hw=False)
    dec = []
    if fin.startswith("crash") and alarm is None:
        alarm = "do_finalize raised " + fin
    if fin == "ok" and run.decoders:
        regs = [run.bus.regions[n] for n, _ in run.decoders]
        addrs, exhaustive = dec_addresses(run, regs, rng)
        bits = {}
        for n, fn in run.decoders:
            bits[n] = eval_decoder(fn, max(aw - run.sh, 1), addrs)
            r = run.bus.regions[n]
            if exhaustive:
                line = "decall %d %d %d %d %s" % (aw, dw, r.origin, r.size, b(r.decode))
            else:
                line = "dec %d %d %d %d %s %s" % (aw, dw, r.origin, r.size, b(r.decode), " ".join(map(str, addrs)))
            dec.append((line, "".join(map(str, bits[n]))))
        if with_oracles and alarm is None:
            msg = decoders_oracle(run, bits, addrs, known)
            if msg:
                alarm = "after do_finalize: " + msg
        if not exhaustive:
            dec.append(sel_line(aw, dw, ops, run.cfg, addrs, [(n, bits[n]) for n, _ in run.decoders]))
    elif fin == "ok" and run.p2p:
        # point-to-point: no decoder functions exist; sample the built hardware
        sn = next(iter(run.bus.slaves))
        addrs, exhaustive = dec_addresses(run, [run.bus.regions[sn]] if sn in run.bus.regions else [], rng,
                                          exhaustive_limit=1024)
        try:
            bits, msg = p2p_select_bits(run, addrs)
        except Exception as e:
            bits, msg = None, "sampling the point-to-point interconnect raised %s: %s" % (type(e).__name__, str(e)[:120])
        if bits is not None:
            dec.append(sel_line(aw, dw, ops, run.cfg, addrs, list(bits.items())))
            msg = msg or decoders_oracle(run, bits, addrs, known, p2p=True)
        if with_oracles and alarm is None and msg:
            alarm = "after do_finalize: " + msg
    return {"result": run.result_str(), "alarm": alarm, "dec": dec, "nontrivial": nontrivial, "fin": fin,
            "p2p": run.p2p, "verdicts": list(run.verdicts)}


def run_busraw_history(aw, dw, ops, cfg=None):
    """The same calls WITHOUT roll-back: after a refused call the real handler is used on as the code left it
    (a caller that catches SoCError).  No oracle runs here except 'no crash'; the comparison is with the model's
    `RawH` (driver call `busraw`), whose theorems say what survives.  `stale` on the real side = names that
    appeared in a dictionary during a refused call."""
    run = BusRun(aw, dw, cfg, raw=True)
    alarm = None
    nontrivial = 0
    for k, op in enumerate(ops):
        v = run.apply(tuple(op))
        nontrivial += v == "rej"
        if v.startswith("crash") and alarm is None:
            alarm = "op %d %r raised %s" % (k, list(op), v)
        if alarm is None:
            # full-strength property on the non-rolled-back object (theorem rejected_ops_keep_all_slave_regions_disjoint):
            # accepted or refused, every call leaves pairwise disjoint windows, and a refusal leaves no region behind
            msg = regions_oracle(run.bus)
            if msg is None and v == "rej" and run.stale:
                msg = "the refused call left %s registered" % run.stale
            if msg:
                alarm = "after %s op %d %r (no roll-back): %s" % ("refused" if v == "rej" else "accepted", k, list(op), msg)
    fin = run.finalize(real_hw=False)
    if fin.startswith("crash") and alarm is None:
        alarm = "do_finalize raised " + fin
    return {"result": run.result_str(), "alarm": alarm, "nontrivial": nontrivial, "fin": fin, "stale": list(run.stale)}


def gen_busraw_history(rng):
    """Histories for the raw mode: the adaptive generator running on the non-rolled-back handler, half of the time
    seeded with the shape 'refused overlapping slave region, then add_slave(name) without region'."""
    if rng.random() < 0.5:
        return gen_bus_history(rng, raw=True)
    aw = rng.choice([32, 32, 12, 16, 64])
    dw = rng.choice([32, 64, 128])
    gran = rng.choice([0x100, 0x1000]) if aw >= 32 else rng.choice([0x10, 0x40])
    run = BusRun(aw, dw, dict(DEFAULT_CFG, ic=rng.choice(["shared", "crossbar"])), raw=True)
    base = gran * rng.choice([0, 2, 4])
    a = ("S", 1, base, gran * rng.choice([1, 2, 2, 3]), 1, 0, 1)
    bo = base + gran * rng.choice([0, 1, 1, 2, 3])
    bop = ("S", 2, bo, gran * rng.choice([1, 1, 2]), 1, int(rng.random() < 0.1), 1) if rng.random() < 0.7 else \
          ("R", 2, int(rng.random() < 0.3), bo, gran, 1, 0, 1)
    ops = [("C", 0), a, bop]
    tail = [("S", 2), ("M", None), ("R", 3, 0, None, gran, 1, 0, 1), ("R", 4, 0, base + 8 * gran, gran, 1, 0, 1),
            ("S", 5, None, gran, 1, 0, 1), ("S", 2, bo + 4 * gran, gran, 1, 0, 1), ("M", 1)]
    rng.shuffle(tail)
    ops += tail[:rng.randint(1, 5)]
    for op in ops:
        run.apply(op)
    return aw, dw, ops, run


def sel_line(aw, dw, ops, cfg, addrs, named_bits):
    """Driver call `sel` (which slave does the built interconnect select at which address) + the real answer."""
    line = "sel" + bus_line(aw, dw, ops, cfg)[3:] + " ; A " + " ".join(map(str, addrs))
    return line, " ".join("%d:%s" % (nid(n), "".join(map(str, v))) for n, v in named_bits)


def hw_decoder_check(aw, dw, ops, known=(), cfg=None):
    """End-to-end on the real interconnect hardware (toy widths): build it with the real do_finalize, drive the
    master address over every word and read each slave's `cyc`.  Returns (alarm | None, {slave: bits})."""
    from netlist import Netlist
    run = BusRun(aw, dw, cfg)
    for op in ops:
        run.apply(tuple(op))
    fin = run.finalize(real_hw=True)
    if fin != "ok" or run.bus._interconnect is None:
        return None, None, fin
    bus = run.bus
    if run.p2p:
        addrs = list(range(2 ** max(aw - run.sh, 0)))
        bits, msg = p2p_select_bits(run, addrs)
        return (msg or decoders_oracle(run, bits, addrs, known, p2p=True),
                {n: "".join(map(str, v)) for n, v in bits.items()}, fin)
    nl = Netlist(bus._interconnect)
    masters = list(bus.masters.values())
    m = masters[0]
    nl.set(m.cyc, 1)
    nl.set(m.stb, 1)
    nwords = 2 ** max(aw - run.sh, 0)
    addrs = list(range(nwords))
    bits = {n: [] for n in bus.slaves}
    for a in addrs:
        nl.set(m.adr, a)
        nl.settle()
        for n, s in bus.slaves.items():
            bits[n].append(nl.getu(s.cyc))
    return decoders_oracle(run, bits, addrs, known), {n: "".join(map(str, v)) for n, v in bits.items()}, fin


# ------------------------------------------------------------------------------------------------------------
# decoder instances (independent of histories; includes unaligned origins -> SoCError)
class _BusLike:
    def __init__(self, aw, dw):
        self.address_width, self.data_width = aw, dw


def real_decoder_bits(aw, dw, origin, size, decode, addrs):
    r = S.SoCRegion(origin=origin, size=size, decode=bool(decode))
    try:
        fn = r.decoder(_BusLike(aw, dw))
    except SoCError:
        envshim.quiet_stderr()
        return "u"
    sh = (dw // 8).bit_length() - 1
    return "".join(map(str, eval_decoder(fn, max(aw - sh, 1), addrs)))


def gen_decoder_case(rng):
    aw = rng.choice([32, 64, 12, 12, 10, 16])
    dw = rng.choice([32, 64, 128, 256, 512])
    sh = (dw // 8).bit_length() - 1
    top = 2 ** aw
    sizes = size_pool(aw)
    sz = rng.choice(sizes)
    P = win(sz)
    u = rng.random()
    if u < 0.7:
        o = P * rng.randrange(0, max(top // P, 1) + 1) if P <= top else rng.choice([0, P])
    elif u < 0.85:
        o = rng.randrange(0, top)
    else:
        o = rng.choice([0, top, top - P if top >= P else 0, 1, dw // 8])
    decode = rng.random() > 0.08
    nwords = 2 ** max(aw - sh, 0)
    if nwords <= 4096:
        return "decall %d %d %d %d %s" % (aw, dw, o, sz, b(decode)), (aw, dw, o, sz, decode, list(range(nwords)))
    A = {0, 1, nwords - 1}
    for x in (o, o + sz, o + P):
        w = x // (dw // 8)
        A.update((w - 1, w, w + 1))
    A.update(rng.randrange(nwords) for _ in range(3))
    addrs = sorted(a for a in A if 0 <= a < nwords)
    return ("dec %d %d %d %d %s %s" % (aw, dw, o, sz, b(decode), " ".join(map(str, addrs))),
            (aw, dw, o, sz, decode, addrs))


def decoder_case_oracle(aw, dw, o, sz, decode, addrs, bits, known=()):
    """Exactness of a single decoder (aligned origin, decode on, region at least one bus word unless the
    sub-word finding is unlisted); an unaligned origin must be refused."""
    P = win(sz)
    wb = dw // 8
    if o % P:
        return None if bits == "u" else "decoder accepted origin 0x%x not aligned on 0x%x" % (o, P)
    if bits == "u":
        return "decoder refused aligned origin 0x%x (size 0x%x)" % (o, P)
    if not decode:
        return None
    if P < wb and "C13-decoder-subword" in known:
        return None
    for a, v in zip(addrs, bits):
        want = int(o <= a * wb < o + P)
        if int(v) != want:
            return "region [0x%x,+0x%x) on a %d-bit bus: decoder(0x%x) = %s, window says %d" % (o, P, dw, a, v, want)
    return None


# ------------------------------------------------------------------------------------------------------------
# location handlers (CSR pages, IRQ numbers)
def expected_n_locs(kind, params):
    """Number of locations from the CONSTRUCTOR ARGUMENTS (never from the handler): pages of `paging` bytes in a
    CSR space of 2^address_width words of alignment/8 bytes; the number of interrupt lines."""
    if kind == "csr":
        dwid, awid, al, pg = params
        return (al // 8) * (2 ** awid) // pg
    return params[0]


class LocRun:
    def __init__(self, kind, params, reserved=(), via_soc=False):
        self.kind, self.params = kind, tuple(params)
        self.reserved = [tuple(r) for r in reserved]
        self.via_soc = bool(via_soc)
        self.h = None
        self.soc = None
        self.crash = None
        self.verdicts = []
        rdict = {"l%d" % n: k for n, k in self.reserved}
        try:
            with time_limit(OP_TIME_LIMIT):
                if kind == "csr":
                    dwid, awid, al, pg = params
                    if self.via_soc and al == 32:
                        self.soc = S.SoC(soc_platform(), 1e6, csr_data_width=dwid, csr_address_width=awid,
                                         csr_paging=pg, csr_reserved_csrs=rdict)
                        self.h = self.soc.csr
                    else:
                        self.h = S.SoCCSRHandler(data_width=dwid, address_width=awid, alignment=al, paging=pg,
                                                 reserved_csrs=rdict)
                else:
                    if self.via_soc:
                        self.soc = S.SoC(soc_platform(), 1e6, irq_n_irqs=params[0], irq_reserved_irqs=rdict)
                        self.h = self.soc.irq
                    else:
                        self.h = S.SoCIRQHandler(n_irqs=params[0], reserved_irqs=rdict)
        except SoCError:
            envshim.quiet_stderr()
            self.h = None
        except Exception as e:
            envshim.quiet_stderr()
            self.h = None
            self.crash = "constructor raised " + type(e).__name__

    def apply(self, op):
        h = self.h
        snap = (dict(h.locs), getattr(h, "enabled", True))
        try:
            with time_limit(OP_TIME_LIMIT):
                if op[0] == "A" and self.soc is not None and self.kind == "csr":
                    SoCCore.add_csr(self.soc, "l%d" % op[1], op[2], use_loc_if_exists=bool(op[3]))   # SoC-level helper
                elif op[0] == "A":
                    h.add("l%d" % op[1], op[2], use_loc_if_exists=bool(op[3]))
                elif op[0] == "P":
                    got = h.address_map("l%d" % op[1], None)
                    if got != h.locs.get("l%d" % op[1]) or isinstance(got, bool) or not isinstance(got, int):
                        self.crash = self.crash or ("address_map(l%d) answered %r, the page granted to that name is %r" % (
                            op[1], got, h.locs.get("l%d" % op[1])))
                elif op[0] == "E":
                    h.enable()
            v = "ok"
        except SoCError:
            envshim.quiet_stderr()
            # a refused location request must leave no trace (SoCLocHandler.add checks before it writes): the
            # transactional model is then also the model of the non-rolled-back object
            if dict(h.locs) != snap[0] or list(h.locs) != list(snap[0]):
                self.crash = self.crash or "refused %r left locs modified: %r -> %r" % (list(op), snap[0], dict(h.locs))
            h.locs = snap[0]
            v = "rej"
        except Exception as e:
            envshim.quiet_stderr()
            h.locs = snap[0]
            v = "crash:" + type(e).__name__
        self.verdicts.append(v)
        return v

    def result_str(self):
        if self.h is None:
            return "ctor-rej" if self.crash is None else "crash"
        return " # ".join([str(self.h.n_locs), " ".join(self.verdicts),
                           " ".join("%s:%d" % (n[1:], k) for n, k in self.h.locs.items())])


def loc_line(kind, params, ops, reserved=()):
    parts = ["loc %s %s" % (kind, " ".join(map(str, params))) +
             "".join(" %d:%d" % (n, k) for n, k in reserved)]
    for op in ops:
        if op[0] == "A":
            parts.append("A %d %s %s" % (op[1], onone(op[2]), b(op[3])))
        elif op[0] == "P":
            parts.append("P %d" % op[1])
        else:
            parts.append("E")
    return " ; ".join(parts) + (" ;" if not ops else "")


def loc_oracle(h, n_locs):
    """Names and numbers unique, every number an int in [0, n_locs) — `n_locs` computed from the constructor
    arguments, and the handler must agree with it."""
    if h.n_locs != n_locs:
        return "handler offers %r locations, the constructor arguments give %d" % (h.n_locs, n_locs)
    vals = list(h.locs.values())
    for n, k in h.locs.items():
        if not isinstance(k, int) or isinstance(k, bool):
            return "location of %s is %r" % (n, k)
        if not (0 <= k < n_locs):
            return "%s got location %d outside [0, %d)" % (n, k, n_locs)
    if len(set(vals)) != len(vals):
        return "a location number was granted twice: %r" % (h.locs,)
    return None


def gen_loc_history(rng):
    if rng.random() < 0.5:
        kind = "irq"
        params = (rng.choice([32, 32, 8, 4, 1, 0, 33, 16, 31, 2, 3]),)
    else:
        kind = "csr"
        params = (rng.choice([32, 32, 8, 16]), rng.choice([14, 14, 15, 16, 17, 18, 13]), rng.choice([32, 32, 32, 32, 64]),
                  rng.choice([0x400, 0x800, 0x800, 0x1000, 0x2000, 0x4000, 0x8000]))
    nl = expected_n_locs(kind, params)          # from the arguments, not from the handler
    reserved = []
    if rng.random() < 0.2:
        for j in range(rng.randint(1, 2)):
            reserved.append((50 + j, rng.choice([0, 1, nl - 1, nl, 3, 3, -1, nl // 2])))
    via_soc = rng.random() < 0.3
    run = LocRun(kind, params, reserved, via_soc)
    ops = []
    if run.h is None:
        return kind, params, ops, reserved, via_soc
    nops = rng.randint(1, 12)
    for t in range(nops):
        u = rng.random()
        name = rng.randrange(1, 9) if rng.random() < 0.3 else rng.randrange(1, 40)
        if kind == "irq" and (t == 0 and u < 0.85 or u < 0.05):
            op = ("E",)
        elif u < 0.55:
            n = rng.choice([0, nl - 1, nl, nl + 1, -1, None, None, rng.randrange(0, max(nl, 1)), 1, 2, nl - 2, nl // 2])
            op = ("A", name, n, int(rng.random() < 0.25))
        elif u < 0.8:
            op = ("A", name, None, int(rng.random() < 0.3))
        elif kind == "csr":
            op = ("P", name)
        else:
            op = ("A", name, rng.randrange(0, max(nl, 1)), 0)
        ops.append(op)
        run.apply(op)
    # sometimes fill the handler completely to reach "Not enough Locations"
    if nl <= 32 and rng.random() < 0.3:
        for k in range(nl + 2):
            ops.append(("A", 100 + k, None, 0))
    return kind, params, ops, reserved, via_soc


def run_loc_history(kind, params, ops, reserved=(), via_soc=False):
    run = LocRun(kind, params, reserved, via_soc)
    alarm = run.crash
    nontrivial = 0
    n_locs = expected_n_locs(kind, params)
    if run.h is not None:
        alarm = loc_oracle(run.h, n_locs)
        if alarm:
            alarm = "after the constructor (reserved %r): %s" % (list(reserved), alarm)
        for k, op in enumerate(ops):
            before = dict(run.h.locs)
            v = run.apply(tuple(op))
            nontrivial += v == "ok"
            if v.startswith("crash") and alarm is None:
                alarm = "op %d %r raised %s" % (k, op, v)
            if alarm is None:
                msg = run.crash or loc_oracle(run.h, n_locs)
                if msg is None and any(run.h.locs.get(n) != x for n, x in before.items()):
                    msg = "a granted location was changed or withdrawn: %r -> %r" % (before, run.h.locs)
                if msg is None and v == "ok" and op[0] == "A" and op[2] is not None and not (
                        op[3] and "l%d" % op[1] in before) and run.h.locs.get("l%d" % op[1]) != op[2]:
                    msg = "l%d asked for location %r and holds %r" % (op[1], op[2], run.h.locs.get("l%d" % op[1]))
                if msg:
                    alarm = "after op %d %r: %s" % (k, list(op), msg)
    return {"result": run.result_str(), "alarm": alarm, "nontrivial": nontrivial}


# ------------------------------------------------------------------------------------------------------------
# ConstraintManager
RES_NAMES = {1: "led", 2: "btn", 3: "uart", 4: "clk"}


CONNECTORS = [("j1", "C0 C1 C2 C3 C4 C5 C6 C7")]


def pins_of(uid, sb=None):
    """Pin identifiers of an entry (a function of its uid only): 1-3 pins, some through connector j1.
    Returns (identifiers as written in the table, identifiers after connector resolution)."""
    n = 1 + (uid % 3) if sb is None else 1 + ((uid + sb) % 2)
    raw, res = [], []
    for j in range(n):
        if (uid + j + (sb or 0)) % 4 == 0:
            idx = (uid * 3 + j) % 8
            raw.append("j1:%d" % idx)
            res.append("C%d" % idx)
        else:
            pin = "P%d_%d" % (uid, j) if sb is None else "P%d_%d_%d" % (uid, sb, j)
            raw.append(pin)
            res.append(pin)
    return raw, res


def make_entry(e):
    """e = (uid, name, num, subs) -> the IO table tuple of the real code."""
    uid, name, num, subs = e
    if subs:
        els = [GP.Subsignal("s%d" % sb, GP.Pins(" ".join(pins_of(uid, sb)[0]))) for sb in subs] + [GP.IOStandard("LVCMOS33")]
    else:
        els = [GP.Pins(" ".join(pins_of(uid)[0])), GP.IOStandard("LVCMOS33")]
    return (RES_NAMES[name], num) + tuple(els)


def entry_str(e):
    uid, name, num, subs = e
    return "%d:%d:%d" % (uid, name, num) + (":" + ",".join(map(str, subs)) if subs else "")


class CmRun:
    def __init__(self, table, via_platform=False, shared=None):
        """`shared` = (io list, entries, meta): build this manager from an io list OBJECT that other managers
        were (or will be) built from too - the way a board file's module-level `_io` is used by every platform
        instance of a process."""
        self.entries = {} if shared is None else shared[1]           # id(tuple) -> uid
        self.meta = {} if shared is None else shared[2]              # uid -> (name, num, subs)
        self.keep = []
        io = [self._mk(e) for e in table] if shared is None else shared[0]
        if via_platform:
            # the way designs reach the manager: GenericPlatform.request / request_all / lookup_request / ...
            self.api = GP.GenericPlatform("dev", io, CONNECTORS, name="c13")
            self.cm = self.api.constraint_manager
        else:
            self.cm = self.api = GP.ConstraintManager(io, CONNECTORS)
        self.outs = []
        self.granted_objs = []      # every object ever returned by request*, for the freshness oracle
        self.alarm = None

    def _mk(self, e):
        t = make_entry(e)
        self.entries[id(t)] = e[0]
        self.meta[e[0]] = (e[1], e[2], tuple(e[3]))
        self.keep.append(t)
        return t

    def _check_answer(self, uids, name, nums, what):
        """Oracle: the entries handed out / looked up carry the requested name and number."""
        for uid, num in zip(uids, nums):
            m = self.meta.get(uid)
            if m is None or m[0] != name or (num is not None and m[1] != num):
                if self.alarm is None:
                    self.alarm = "%s(%s, %s) answered with table entry %s = %s" % (
                        what, RES_NAMES[name], num, uid, None if m is None else (RES_NAMES[m[0]], m[1]))

    def _uid_of_obj(self, obj):
        for res, o in self.cm.matched:
            if o is obj:
                return self.entries[id(res)], None
            if not isinstance(o, Signal):
                for fname, _ in o.layout:
                    if getattr(o, fname) is obj:
                        return self.entries[id(res)], int(fname[1:])
        return None, None

    def _note_grant(self, objs):
        for o in objs:
            if any(o is p for p in self.granted_objs) and self.alarm is None:
                self.alarm = "the same IO object was granted twice"
            self.granted_objs.append(o)

    def apply(self, op):
        try:
            with time_limit(OP_TIME_LIMIT):
                return self._apply(op)
        except HistoryTimeout:
            self.outs.append("crash:HistoryTimeout")
            if self.alarm is None:
                self.alarm = "%r did not return within %ss" % (list(op), OP_TIME_LIMIT)
            return self.outs[-1]
        except MemoryError:
            self.outs.append("crash:MemoryError")
            if self.alarm is None:
                self.alarm = "%r exhausted memory" % (list(op),)
            return self.outs[-1]

    def _apply(self, op):
        cm = self.cm
        before = len(cm.matched)
        try:
            k = op[0]
            if k == "Q":
                obj = self.api.request(RES_NAMES[op[1]], op[2], loose=bool(op[3]))
                if obj is None:
                    out = "none"
                else:
                    self._note_grant([obj])
                    uid = self._uid_of_obj(obj)[0]
                    self._check_answer([uid], op[1], [op[2]], "request")
                    out = "g:%d" % uid
            elif k in ("QA", "QR"):
                (self.api.request_all if k == "QA" else self.api.request_remaining)(RES_NAMES[op[1]])
                new = cm.matched[before:]
                self._note_grant([o for _, o in new])
                uids = [self.entries[id(res)] for res, _ in new]
                self._check_answer(uids, op[1], list(range(len(uids))) if k == "QA" else [None] * len(uids),
                                   "request_all" if k == "QA" else "request_remaining")
                out = "g:" + ",".join(map(str, uids))
            elif k == "L":
                lname = RES_NAMES[op[1]] + (":s%d" % op[3] if op[3] is not None else "")
                obj = self.api.lookup_request(lname, op[2], loose=bool(op[4]))
                if obj is None:
                    out = "none"
                else:
                    uid, sub = self._uid_of_obj(obj)
                    if uid is None and self.alarm is None:
                        self.alarm = "lookup_request returned an object that was never granted"
                    elif uid is not None:
                        self._check_answer([uid], op[1], [op[2]], "lookup_request")
                    out = "f:%s:%s" % (uid, onone(sub))
            elif k == "X":
                self.api.add_extension([self._mk(e) for e in op[2]], prepend=bool(op[1]))
                out = "none"
            else:
                raise ValueError(op)
        except GP.ConstraintError:
            out = "err:notFound"
        except ValueError:
            out = "err:valueError"
        except AttributeError:
            out = "err:attrError"
        except (HistoryTimeout, MemoryError):
            raise
        except Exception as e:
            out = "crash:" + type(e).__name__
            if self.alarm is None:
                self.alarm = "%r raised %s" % (list(op), type(e).__name__)
        self.outs.append(out)
        return out

    def constraints(self):
        r = []
        for sig, pins, others, (name, number, sub) in self.cm.get_sig_constraints():
            uid, sb = self._uid_of_obj(sig)
            r.append((uid, sb, tuple(pins)))
        return r

    def result_str(self):
        cm = self.cm
        return " # ".join([" ".join(self.outs), " ".join(str(self.entries[id(r)]) for r in cm.available),
                           " ".join(str(self.entries[id(r)]) for r, _ in cm.matched),
                           " ".join("%s:%s" % (u, onone(sb)) for u, sb, _ in self.constraints())])


def cm_line(table, ops):
    parts = ["cm " + " ".join(entry_str(e) for e in table)]
    for op in ops:
        if op[0] == "Q":
            parts.append("Q %d %s %s" % (op[1], onone(op[2]), b(op[3])))
        elif op[0] in ("QA", "QR"):
            parts.append("%s %d" % (op[0], op[1]))
        elif op[0] == "L":
            parts.append("L %d %s %s %s" % (op[1], onone(op[2]), onone(op[3]), b(op[4])))
        elif op[0] == "X":
            parts.append("X %s %s" % (b(op[1]), " ".join(entry_str(e) for e in op[2])))
    return " ; ".join(parts)


def cm_oracle(run, all_entries):
    """Every table entry is either still available or granted exactly once; granted objects are distinct; one
    constraint per granted signal, with the pins of its own entry."""
    cm = run.cm
    av = [run.entries[id(r)] for r in cm.available]
    ma = [run.entries[id(r)] for r, _ in cm.matched]
    if sorted(av + ma) != sorted(all_entries):
        return "table entries are not conserved: available %s matched %s table %s" % (av, ma, sorted(all_entries))
    if len(set(ma)) != len(ma):
        return "an IO table entry was granted twice: matched %s" % ma
    objs = [o for _, o in cm.matched]
    if len({id(o) for o in objs}) != len(objs):
        return "two grants share one object"
    cons = run.constraints()
    keys = [(u, sb) for u, sb, _ in cons]
    if len(set(keys)) != len(keys):
        return "a signal constraint was emitted twice: %s" % keys
    if {u for u, _ in keys} != set(ma):
        return "constraints %s do not cover exactly the granted entries %s" % (keys, ma)
    want_keys = []
    for u in ma:
        subs = run.meta[u][2]
        want_keys += [(u, sb) for sb in subs] if subs else [(u, None)]
    if keys != want_keys:
        return "constraints emitted for %s, granted signals are %s" % (keys, want_keys)
    for u, sb, pins in cons:
        want = tuple(pins_of(u, sb)[1])
        if pins != want:
            return "constraint of entry %s sub %s carries pins %s, its table entry says %s" % (u, sb, pins, want)
    # no two live requests share a pin, whenever the table itself assigns disjoint pins to its signals
    # (connector pins j1:k may be listed by two entries of a generated table: then nothing is demanded)
    table_pins = []
    for u, (_, _, subs) in run.meta.items():
        table_pins += [p for sb in (subs or (None,)) for p in pins_of(u, sb)[1]]
    if len(set(table_pins)) == len(table_pins):
        seen = {}
        for u, sb, pins in cons:
            for p in pins:
                if p in seen and seen[p] != (u, sb):
                    return "pin %s is constrained for two live requests: %s and %s" % (p, seen[p], (u, sb))
                seen[p] = (u, sb)
    # width of every granted signal = number of pins of its own entry (from the table, not from the object)
    for res, obj in cm.matched:
        u = run.entries[id(res)]
        subs = run.meta[u][2]
        if not subs:
            if not isinstance(obj, Signal) or len(obj) != len(pins_of(u)[0]):
                return "entry %s has %d pins, the granted object is %r" % (u, len(pins_of(u)[0]), obj)
        else:
            for sb in subs:
                sig = getattr(obj, "s%d" % sb, None)
                if sig is None or len(sig) != len(pins_of(u, sb)[0]):
                    return "entry %s subsignal s%d has %d pins, granted %r" % (u, sb, len(pins_of(u, sb)[0]), sig)
    return None


def gen_cm_history(rng):
    uid = [0]

    def entry(name=None, num=None):
        uid[0] += 1
        name = name if name is not None else rng.choice([1, 1, 2, 3])
        # "led" (1) entries are plain pins: request_all/request_remaining build Cat(...) of the granted objects,
        # which Migen refuses for Records (TypeError after the grant) - outside the modelled domain
        subs = tuple(sorted(rng.sample([5, 6, 7], rng.randint(1, 3)))) if name != 1 and rng.random() < 0.45 else ()
        return (uid[0], name, num if num is not None else rng.randrange(0, 4), subs)

    table = []
    for name in (1, 2, 3):
        k = rng.randint(0, 4)
        nums = list(range(k)) if rng.random() < 0.7 else [rng.randrange(0, 4) for _ in range(k)]
        table += [entry(name, n) for n in nums]
    rng.shuffle(table) if rng.random() < 0.3 else None
    ops = []
    for t in range(rng.randint(1, 12)):
        u = rng.random()
        name = rng.choice([1, 1, 2, 3, 4])
        num = rng.choice([None, None, 0, 1, 2, 3, 5])
        if u < 0.45:
            ops.append(("Q", name, num, int(rng.random() < 0.3)))
        elif u < 0.55:
            ops.append(("QA", rng.choice([1, 1, 1, 4])))
        elif u < 0.62:
            ops.append(("QR", rng.choice([1, 1, 1, 4])))
        elif u < 0.9:
            ops.append(("L", name, num, rng.choice([None, None, None, 5, 6, 7]), int(rng.random() < 0.4)))
        else:
            ops.append(("X", int(rng.random() < 0.5), tuple(entry() for _ in range(rng.randint(1, 2)))))
    return table, ops


def run_cm_history(table, ops, via_platform=False):
    try:
        run = CmRun(table, via_platform)
    except Exception as e:
        return {"result": "crash", "alarm": "constructing the manager raised " + type(e).__name__, "nontrivial": 0}
    all_entries = [e[0] for e in table]
    alarm = None
    nontrivial = 0
    for k, op in enumerate(ops):
        out = run.apply(tuple(op))
        nontrivial += out.startswith("g:") or out.startswith("f:")
        if op[0] == "X":
            all_entries += [e[0] for e in op[2]]
        if out.startswith("crash"):
            # the manager may now hold an unbounded table: do not touch it any more
            return {"result": " ".join(run.outs) + " # crashed", "nontrivial": nontrivial,
                    "alarm": alarm or "op %d %r: %s" % (k, list(op), run.alarm or out)}
        if alarm is None:
            msg = run.alarm or cm_oracle(run, all_entries)
            if msg:
                alarm = "after op %d %r: %s" % (k, list(op), msg)
    return {"result": run.result_str(), "alarm": alarm, "nontrivial": nontrivial}


# -- several managers / platforms built from ONE io list in one process ---------------------------------------
def cm2_line(table, plan):
    parts = ["cm2 " + " ".join(entry_str(e) for e in table)]
    for i, op in plan:
        parts.append("%d %s" % (i, cm_line([], [op]).split(" ; ", 1)[1]))
    return " ; ".join(parts)


def gen_cm2_history(rng):
    table, ops = gen_cm_history(rng)
    more = gen_cm_history(rng)[1]
    # extension entries need fresh uids across both instances
    uid = [max([e[0] for e in table] + [0]) + 100]

    def refresh(op):
        if op[0] != "X":
            return op
        es = []
        for e in op[2]:
            uid[0] += 1
            es.append((uid[0], e[1], e[2], e[3]))
        return ("X", op[1], tuple(es))

    a, b = [refresh(o) for o in ops], [refresh(o) for o in more]
    if rng.random() < 0.6:      # instance 0 first (extension / requests), then instance 1: the board-file scenario
        k = rng.randint(1, len(a))
        plan = [(0, o) for o in a[:k]] + [(1, o) for o in b] + [(0, o) for o in a[k:]]
    else:
        plan = [(0, o) for o in a] + [(1, o) for o in b]
        rng.shuffle(plan)
    return table, plan


def run_cm2_history(table, plan, via_platform=False):
    """Two managers created from the SAME io list object (instance 1 at its first use, i.e. possibly after
    instance 0 has already extended / requested).  Oracles (real code only): every instance on its own satisfies
    `cm_oracle` (no entry / pin granted twice); the caller's io list is never modified; and each instance behaves
    exactly like a manager built alone from a fresh copy of the table (isolation)."""
    proto = CmRun(table, False)                 # only to build the shared tuples and their uid maps
    shared_io = list(proto.keep)
    ids0 = [id(t) for t in shared_io]
    shared = (shared_io, proto.entries, proto.meta)
    inst, ents = {}, {}
    alarm = None
    nontrivial = 0
    for k, (i, op) in enumerate(plan):
        if i not in inst:
            try:
                inst[i] = CmRun(table, via_platform, shared=shared)
            except Exception as e:
                return {"result": "crash", "alarm": "constructing manager %d raised %s" % (i, type(e).__name__), "nontrivial": 0}
            ents[i] = [e[0] for e in table]
        run = inst[i]
        out = run.apply(tuple(op))
        nontrivial += out.startswith("g:") or out.startswith("f:")
        if op[0] == "X":
            ents[i] += [e[0] for e in op[2]]
        if out.startswith("crash"):
            return {"result": "crashed", "nontrivial": nontrivial,
                    "alarm": alarm or "instance %d op %d %r: %s" % (i, k, list(op), run.alarm or out)}
        if alarm is None:
            msg = run.alarm
            if msg is None and [id(t) for t in shared_io] != ids0:
                msg = "the io list the managers were built from has been modified (%d entries, %d before)" % (len(shared_io), len(ids0))
            if msg is None:
                try:
                    msg = cm_oracle(run, ents[i])
                except KeyError:
                    msg = "the manager holds a table entry that was never given to it"
            if msg:
                alarm = "instance %d after op %d %r: %s" % (i, k, list(op), msg)
    res = []
    for i in (0, 1):
        res.append(inst[i].result_str() if i in inst else "-")
    # isolation: the same sub-history on a manager built alone from a fresh copy of the table
    for i in (0, 1):
        if i in inst and alarm is None:
            alone = run_cm_history(table, [op for j, op in plan if j == i], via_platform)
            if alone["result"] != res[i]:
                alarm = "instance %d (built from the io list another manager had used) behaves differently from a manager built alone: %s  vs alone  %s" % (i, res[i], alone["result"])
    return {"result": " ## ".join(res), "alarm": alarm, "nontrivial": nontrivial}


# ------------------------------------------------------------------------------------------------------------
# CSR banks through the real SoC(...).finalize(): page capacity and bank address ranges
_SIM_IO = [("sys_clk", 0, GP.Pins(1)), ("sys_rst", 0, GP.Pins(1))]


def banks_nsimple(csr_dw, regs):
    """Simple CSRs of a bank, from the registers we created (never from the built bank)."""
    return sum(((w + csr_dw - 1) // csr_dw) * n for w, n in regs)


def banks_line(inp):
    parts = ["banks %d %d %d %d" % (inp["csr_dw"], inp["csr_aw"], inp["paging"], inp["base"]) +
             "".join(" %d:%d" % (k, loc) for k, loc, _ in inp["banks"] if loc is not None)]
    for k, loc, regs in inp["banks"]:
        parts.append("B %d %s" % (k, " ".join("%dx%d" % (w, n) for w, n in regs)))
    if inp.get("ram"):
        parts.append("R %d %d" % (inp["base"] + inp["ram"][0], inp["ram"][1]))
    return " ; ".join(parts)


def build_banks_soc(inp):
    import io
    from litex.gen import LiteXModule
    from litex.build.sim import SimPlatform
    from litex.soc.integration.soc_core import SoCMini
    from litex.soc.interconnect.csr import CSRStorage, CSRStatus
    cls = type("C13SoC", (SoCMini,), {"mem_map": {"csr": inp["base"]}})
    with contextlib.redirect_stdout(io.StringIO()):
        soc = cls(SimPlatform("SIM", _SIM_IO), clk_freq=int(1e6), csr_data_width=inp["csr_dw"],
                  csr_address_width=inp["csr_aw"], csr_paging=inp["paging"], with_ctrl=False)
        for k, loc, regs in inp["banks"]:
            if loc is not None:
                soc.add_csr("b%d" % k, loc)            # fixed page, the SoC-level way
        soc.c13_ram = "-"
        if inp.get("ram"):
            # another bus slave next to (or inside what must be) the CSR window; a refusal is caught (leaves no trace)
            try:
                soc.add_ram("xram", inp["base"] + inp["ram"][0], inp["ram"][1])
                soc.c13_ram = "ok"
            except SoCError:
                envshim.quiet_stderr()
                soc.c13_ram = "rej"
        for k, loc, regs in inp["banks"]:
            m = LiteXModule()
            j = 0
            for w, n in regs:
                for _ in range(n):
                    setattr(m, "_r%d" % j, (CSRStorage if j % 3 else CSRStatus)(w, name="r%d" % j))
                    j += 1
            setattr(soc, "b%d" % k, m)
        soc.finalize()
    return soc


def banks_oracle(inp, soc):
    """After a successful finalize: every bank has a page inside the CSR space, its simple CSRs (4 bytes each,
    counted from the registers we created) fit in that page, and no two banks' byte ranges intersect."""
    paging, base, D = inp["paging"], inp["base"], inp["csr_dw"]
    n_locs = 4 * 2 ** inp["csr_aw"] // paging
    ranges = []
    for k, loc, regs in inp["banks"]:
        name = "b%d" % k
        reg = soc.csr.regions.get(name)
        if reg is None:
            return "bank %s has no CSR region after finalize" % name
        off = reg.origin - base
        page = off // paging
        if off % paging or not (0 <= page < n_locs):
            return "bank %s is at 0x%x: not a page of the CSR space (base 0x%x, %d pages of 0x%x)" % (
                name, reg.origin, base, n_locs, paging)
        if loc is not None and page != loc:
            return "bank %s was given page %d and is at page %d" % (name, loc, page)
        ns = banks_nsimple(D, regs)
        if 4 * ns > paging:
            return "bank %s holds %d simple CSRs (0x%x bytes) in a page of 0x%x bytes: it spills into page %d" % (
                name, ns, 4 * ns, paging, page + 1)
        ranges.append((reg.origin, reg.origin + 4 * ns, name))
    # the CSR window on the bus: [csr_base, csr_base + 4*2^csr_address_width) (from the constructor arguments) must
    # be what the `csr` bus region covers - it contains every page the handler can grant - and every bank address
    # lies inside it and in no other bus region
    creg = soc.bus.regions.get("csr")
    if creg is None or "csr" not in soc.bus.slaves:
        return "no `csr` bus slave/region after finalize"
    need = 4 * 2 ** inp["csr_aw"]
    if creg.origin != base or creg.size < need:
        return ("the csr bus region is [0x%x,+0x%x); the CSR handler grants %d pages of 0x%x bytes from 0x%x, i.e. "
                "[0x%x,+0x%x): page %d and above are not reachable through the csr slave" % (
                    creg.origin, creg.size, n_locs, paging, base, base, need, max(creg.size, 0) // paging))
    for a0, a1, name in ranges:
        if not (creg.origin <= a0 and a1 <= creg.origin + creg.size):
            return "bank %s [0x%x,0x%x) lies outside the csr bus region [0x%x,+0x%x)" % (name, a0, a1, creg.origin, creg.size)
        for rn, r in soc.bus.regions.items():
            if rn != "csr" and not r.linker and a0 < r.origin + win(r.size) and r.origin < a1:
                return "bank %s [0x%x,0x%x) also lies in the window of bus region %s [0x%x,+0x%x)" % (
                    name, a0, a1, rn, r.origin, win(r.size))
    for rn, r in soc.bus.regions.items():
        if rn != "csr" and not r.linker and base < r.origin + win(r.size) and r.origin < base + need:
            return "bus region %s [0x%x,+0x%x) lies inside the CSR page window [0x%x,+0x%x)" % (
                rn, r.origin, win(r.size), base, need)
    ranges.sort()
    for (a0, a1, n0), (b0, b1, n1) in zip(ranges, ranges[1:]):
        if b0 < a1:
            return "banks %s [0x%x,0x%x) and %s [0x%x,0x%x) intersect" % (n0, a0, a1, n1, b0, b1)
    return None


def run_banks_case(inp, known=()):
    alarm = None
    try:
        with time_limit(HISTORY_TIME_LIMIT):
            soc = build_banks_soc(inp)
        got = []
        for name, csrs, mapaddr, rmap in soc.csr_bankarray.banks:
            got.append("%d:%d:%d:%d" % (int(name[1:]), mapaddr, len(rmap.simple_csrs), soc.csr.regions[name].origin))
        creg = soc.bus.regions.get("csr")
        result = "ok # " + " ".join(got) + " # csr:%s:%s # ram:%s" % (
            getattr(creg, "origin", None), getattr(creg, "size", None), soc.c13_ram)
        alarm = banks_oracle(inp, soc)
        for name, csrs, mapaddr, rmap in soc.csr_bankarray.banks:
            want = banks_nsimple(inp["csr_dw"], dict((k, r) for k, _, r in inp["banks"])[int(name[1:])])
            if alarm is None and len(rmap.simple_csrs) != want:
                alarm = "bank %s was built with %d simple CSRs, its registers need %d" % (name, len(rmap.simple_csrs), want)
    except SoCError:
        envshim.quiet_stderr()
        result = "rej"
    except Exception as e:
        envshim.quiet_stderr()
        result = "crash:" + type(e).__name__
        alarm = "SoC build/finalize raised %s: %s" % (type(e).__name__, str(e)[:200])
    return {"result": result, "alarm": alarm, "nontrivial": int(result.startswith("ok"))}


def gen_banks_case(rng):
    D = rng.choice([8, 32])
    paging = rng.choice([0x400, 0x400, 0x800, 0x800, 0x1000])
    aw = rng.choice([14, 14, 15])
    base = rng.choice([0, 0x10000 * 4, 0xf0000000])
    cap = paging // 4
    nb = rng.randint(1, 4)
    ks = sorted(rng.sample(range(10), nb))
    big = rng.choice(ks)
    n_locs = 4 * 2 ** aw // paging
    banks = []
    for k in ks:
        if k == big and rng.random() < 0.85:
            target = rng.choice([cap - 1, cap, cap + 1, 2 * cap, cap, cap + 1, cap - 3, cap + 4, cap // 2])
        else:
            target = rng.randint(1, 6)
        regs = []
        if D == 8:
            wide = rng.choice([32, 32, 16, 64])
            per = (wide + 7) // 8
            n_wide = target // per if rng.random() < 0.8 else rng.randint(0, target // per)
            if n_wide:
                regs.append([wide, n_wide])
            rest = target - n_wide * per
            if rest > 0:
                regs.append([rng.choice([8, 1, 5]), rest])
        else:
            n64 = rng.randint(0, min(3, target // 2)) if rng.random() < 0.3 else 0
            if n64:
                regs.append([64, n64])
            rest = target - 2 * n64
            if rest > 0:
                regs.append([rng.choice([32, 32, 8, 1, 17]), rest])
        if not regs:
            regs = [[8, 1]]
        loc = None
        if rng.random() < 0.35:
            loc = rng.choice([0, 1, 2, n_locs - 1, n_locs, rng.randrange(0, 8)])
        banks.append([k, loc, regs])
    inp = {"kind": "banks", "csr_dw": D, "csr_aw": aw, "paging": paging, "base": base, "banks": banks}
    if rng.random() < 0.4:
        # another slave around the CSR window: inside it (must be refused), right behind it, or far away
        full = 4 * 2 ** aw
        off = rng.choice([full // 4, full // 2, full - 0x1000, full, 2 * full, full // 4 + 0x800, 0x1000])
        if base + off + 0x1000 <= 2 ** 32:
            inp["ram"] = [off, rng.choice([0x100, 0x1000, 0x800])]
    return inp


# ------------------------------------------------------------------------------------------------------------
# chunk worker (one process handles one chunk of histories of one kind)
def work_chunk(args):
    kind, seed, count, known = args
    import logging, resource
    logging.disable(logging.CRITICAL)
    try:        # a broken request loop must not eat the machine
        resource.setrlimit(resource.RLIMIT_AS, (6 << 30, 6 << 30))
    except Exception:
        pass
    rng = random.Random(seed)
    out = []
    for _ in range(count):
        if sum(1 for r in out if r["alarm"]) >= 5:
            break           # enough failing inputs from this chunk (each may have cost a time-out)
        try:
            with time_limit(HISTORY_TIME_LIMIT):
                _one_history(kind, rng, known, out)
        except Exception as e:      # an exception/hang outside the guarded operations: still a reported case
            envshim.quiet_stderr()
            out.append({"kind": kind, "line": "noop", "real": "harness-exception", "nontrivial": 0, "nops": 0,
                        "alarm": "%s history raised %s: %s" % (kind, type(e).__name__, str(e)[:200]),
                        "input": {"kind": kind, "unreproducible": True}})
    sys.stdout.flush()
    return out


HISTORY_TIME_LIMIT = 60.0


def _one_history(kind, rng, known, out):
    if True:
        if kind == "bus":
            aw, dw, ops, _run = gen_bus_history(rng)
            cfg = _run.cfg
            res = run_bus_history(aw, dw, ops, known, rng=rng, cfg=cfg)
            out.append({"kind": "bus", "line": bus_line(aw, dw, ops, cfg), "real": res["result"], "alarm": res["alarm"],
                        "input": {"kind": "bus", "aw": aw, "dw": dw, "cfg": cfg, "ops": [list(o) for o in ops]},
                        "nontrivial": res["nontrivial"], "dec": res["dec"], "fin": res["fin"], "p2p": res["p2p"],
                        "nops": len(ops)})
        elif kind == "busraw":
            aw, dw, ops, _run = gen_busraw_history(rng)
            cfg = _run.cfg
            res = run_busraw_history(aw, dw, ops, cfg)
            out.append({"kind": "busraw", "line": "busraw" + bus_line(aw, dw, ops, cfg)[3:], "real": res["result"],
                        "alarm": res["alarm"], "nontrivial": res["nontrivial"], "nops": len(ops), "stale": res["stale"],
                        "input": {"kind": "busraw", "aw": aw, "dw": dw, "cfg": cfg, "ops": [list(o) for o in ops]}})
        elif kind == "loc":
            k, params, ops, reserved, via_soc = gen_loc_history(rng)
            res = run_loc_history(k, params, ops, reserved, via_soc)
            out.append({"kind": "loc", "line": loc_line(k, params, ops, reserved), "real": res["result"],
                        "alarm": res["alarm"],
                        "input": {"kind": "loc", "handler": k, "params": list(params), "reserved": [list(r) for r in reserved],
                                  "via_soc": int(via_soc), "ops": [list(o) for o in ops]},
                        "nontrivial": res["nontrivial"], "nops": len(ops)})
        elif kind == "cm":
            table, ops = gen_cm_history(rng)
            plat = int(rng.random() < 0.5)
            res = run_cm_history(table, ops, plat)
            out.append({"kind": "cm", "line": cm_line(table, ops), "real": res["result"], "alarm": res["alarm"],
                        "input": {"kind": "cm", "plat": plat, "table": [list(e) for e in table],
                                  "ops": [list(o) for o in ops]},
                        "nontrivial": res["nontrivial"], "nops": len(ops)})
        elif kind == "cm2":
            table, plan = gen_cm2_history(rng)
            plat = int(rng.random() < 0.5)
            res = run_cm2_history(table, plan, plat)
            out.append({"kind": "cm2", "line": cm2_line(table, plan), "real": res["result"], "alarm": res["alarm"],
                        "input": {"kind": "cm2", "plat": plat, "table": [list(e) for e in table],
                                  "ops": [[i, list(o)] for i, o in plan]},
                        "nontrivial": res["nontrivial"], "nops": len(plan)})
        elif kind == "banks":
            inp = gen_banks_case(rng)
            res = run_banks_case(inp, known)
            out.append({"kind": "banks", "line": banks_line(inp), "real": res["result"], "alarm": res["alarm"],
                        "input": inp, "nontrivial": res["nontrivial"], "nops": len(inp["banks"])})
        elif kind == "dec":
            line, (aw, dw, o, sz, decode, addrs) = gen_decoder_case(rng)
            bits = real_decoder_bits(aw, dw, o, sz, decode, addrs)
            alarm = decoder_case_oracle(aw, dw, o, sz, decode, addrs, bits, known)
            out.append({"kind": "dec", "line": line, "real": bits, "alarm": alarm,
                        "input": {"kind": "dec", "aw": aw, "dw": dw, "origin": o, "size": sz, "decode": int(decode),
                                  "addrs": addrs if len(addrs) < 64 else "all"},
                        "nontrivial": int(bits != "u" and "1" in bits), "nops": len(addrs)})


def rerun_input(inp, known=()):
    """Re-execute a recorded input on the real code; returns (line for the model, real result, alarm)."""
    k = inp["kind"]
    if k == "bus":
        ops = [tuple(o) for o in inp["ops"]]
        res = run_bus_history(inp["aw"], inp["dw"], ops, known, cfg=inp.get("cfg"))
        return bus_line(inp["aw"], inp["dw"], ops, inp.get("cfg")), res["result"], res["alarm"], res
    if k == "busraw":
        ops = [tuple(o) for o in inp["ops"]]
        res = run_busraw_history(inp["aw"], inp["dw"], ops, inp.get("cfg"))
        return "busraw" + bus_line(inp["aw"], inp["dw"], ops, inp.get("cfg"))[3:], res["result"], res["alarm"], res
    if k == "loc":
        ops = [tuple(o) for o in inp["ops"]]
        reserved = [tuple(r) for r in inp.get("reserved", [])]
        res = run_loc_history(inp["handler"], inp["params"], ops, reserved, inp.get("via_soc", 0))
        return loc_line(inp["handler"], inp["params"], ops, reserved), res["result"], res["alarm"], res
    if k == "cm":
        table = [(e[0], e[1], e[2], tuple(e[3])) for e in inp["table"]]
        ops = [("X", o[1], tuple((e[0], e[1], e[2], tuple(e[3])) for e in o[2])) if o[0] == "X" else tuple(o)
               for o in inp["ops"]]
        res = run_cm_history(table, ops, inp.get("plat", 0))
        return cm_line(table, ops), res["result"], res["alarm"], res
    if k == "cm2":
        table = [(e[0], e[1], e[2], tuple(e[3])) for e in inp["table"]]
        fix = lambda o: ("X", o[1], tuple((e[0], e[1], e[2], tuple(e[3])) for e in o[2])) if o[0] == "X" else tuple(o)
        plan = [(i, fix(o)) for i, o in inp["ops"]]
        res = run_cm2_history(table, plan, inp.get("plat", 0))
        return cm2_line(table, plan), res["result"], res["alarm"], res
    if k == "banks":
        res = run_banks_case(inp, known)
        return banks_line(inp), res["result"], res["alarm"], res
    if k == "dec":
        aw, dw, o, sz, d = inp["aw"], inp["dw"], inp["origin"], inp["size"], inp["decode"]
        sh = (dw // 8).bit_length() - 1
        addrs = list(range(2 ** max(aw - sh, 0))) if inp["addrs"] == "all" else inp["addrs"]
        bits = real_decoder_bits(aw, dw, o, sz, d, addrs)
        line = ("decall %d %d %d %d %s" % (aw, dw, o, sz, b(d)) if inp["addrs"] == "all" else
                "dec %d %d %d %d %s %s" % (aw, dw, o, sz, b(d), " ".join(map(str, addrs))))
        return line, bits, decoder_case_oracle(aw, dw, o, sz, d, addrs, bits, known), {"result": bits}
    raise ValueError(k)
