"""C05 — multi-clock instances: the real modules are driven edge by edge (which `sync[cd]` lists execute in an
instant is chosen per step, including simultaneous edges) and the per-bit old/new resolution of the first flop of
every `MultiReg` is injected by overwriting that flop after the tick with the chosen mixture of the source value
before and after the instant.  The `MultiReg` flops are found structurally: the lowering of each `MultiReg`
special is intercepted (special_overrides) and the created `MultiRegImpl` (its `.regs`, `.i`, `.odomain`) is
recorded under the identity of the special object; nothing is keyed on signal names."""
import envshim  # noqa: F401
from migen import *
from migen.genlib.cdc import MultiReg, MultiRegImpl
from netlist import Netlist


def mixbits(mask, old, new):
    """bit j of the result = bit j of `new` if mask bit j is set else bit j of `old`."""
    return old ^ ((old ^ new) & mask)


class _Recorder:
    """special_overrides entry for MultiReg: same lowering as Migen's, but remembers the implementation."""
    def __init__(self):
        self.impl = {}

    def lower(self, dr):
        impl = MultiRegImpl(dr.i, dr.o, dr.odomain, dr.n, dr.reset)
        self.impl[id(dr)] = (dr, impl)
        return impl


def own_multiregs(module):
    """MultiReg specials declared directly by `module` (not by its submodules)."""
    return [sp for sp in module._fragment.specials if isinstance(sp, MultiReg)]


class Tick(tuple):
    """What `inst.clocks(letter)` returns: (cds, masks) with masks = {MultiReg special id: mask}."""
    pass


class CdcNetlist(Netlist):
    """Netlist whose `tick` takes a `Tick`: executes the chosen domains and then resolves the first flop of every
    recorded synchroniser that was clocked in this instant while its source changed."""

    def __init__(self, module, clocks):
        self.rec = _Recorder()
        Netlist.__init__(self, module, clocks=clocks, special_overrides={MultiReg: self.rec})
        self.mr = dict(self.rec.impl)          # id(special) -> (special, impl)
        self.changing_samples = 0              # statistics: resolutions that mattered
        self.pending_inputs = []               # [(input signal, value, domain)]: inputs driven by a register of the
                                               # environment in `domain` — they change AT that domain's edge
        regs = set(self.regs)
        # fast path: every synchroniser samples a register directly (true for all Migen/LiteX users here)
        self.src_is_reg = all(isinstance(impl.i, Signal) and impl.i in regs for _, impl in self.mr.values())

    def first_flop(self, special):
        return self.mr[id(special)][1].regs[0]

    def _propagate(self):
        """As Netlist._propagate, but a combinational loop in the code under test ends as an exception (reported
        by the runner as a break of the correspondence) instead of an endless run."""
        ev = self.ev
        modified = ev.commit()
        n = 0
        while modified:
            n += 1
            if n > 500:
                raise RuntimeError("combinational logic does not settle (loop through %d signals)" % len(modified))
            ev.execute(self.comb)
            modified = ev.commit()

    def _src(self, impl):
        return self.ev.eval(impl.i) & _mask(impl.regs[0])

    def tick_sync(self, cds):
        """Execute the sync statements of `cds` and commit; returns {special id: (old, new)} for every
        synchroniser clocked in this instant whose source changed in this instant.  Comb logic is NOT yet
        propagated (call `finish_tick`)."""
        ev = self.ev
        olds = {}
        for sid, (sp, impl) in self.mr.items():
            if impl.odomain in cds:
                olds[sid] = self._src(impl)
        for cd in cds:
            if cd in self.sync:
                ev.execute(self.sync[cd])
        ev.commit()
        for sig, val, cd in self.pending_inputs:
            if cd in cds:
                self.set(sig, val)
        self.pending_inputs = []
        if not self.src_is_reg:
            ev.execute(self.comb)
            self._propagate()
        changed = {}
        for sid, old in olds.items():
            new = self._src(self.mr[sid][1])
            if new != old:
                changed[sid] = (old, new)
        return changed

    def resolve(self, changed, masks):
        for sid, (old, new) in changed.items():
            reg = self.mr[sid][1].regs[0]
            v = mixbits(masks.get(sid, 0), old, new)
            self.ev.signal_values[reg] = _signed(v, reg) if reg.signed else v
            self.changing_samples += 1

    def finish_tick(self):
        self.ev.execute(self.comb)
        self._propagate()

    def tick(self, t):
        if not isinstance(t, Tick):
            return Netlist.tick(self, t)
        cds, masks = t
        changed = self.tick_sync(cds)
        self.resolve(changed, masks)
        self.finish_tick()


def _mask(sig):
    return (1 << len(sig)) - 1


def _signed(v, sig):
    n = len(sig)
    return v - (1 << n) if v >> (n - 1) else v


def layout_fields(ep, payload_layout, param_layout=()):
    """[(signal, width)] in the order `_FIFOWrapper` packs the fifo word — payload fields, param fields, first,
    last — with the widths taken from the LAYOUT GIVEN TO THE CONSTRUCTOR (never from the implementation's
    signals: a mis-sized signal must show up as a difference, not shrink the test values with it)."""
    out = [(getattr(ep, name), width) for name, width in list(payload_layout) + list(param_layout)]
    return out + [(ep.first, 1), (ep.last, 1)]


def pack_fw(n, fw):
    d, sh = 0, 0
    for s, w in fw:
        d |= n.getu(s) << sh
        sh += w
    return d


def unpack_fw(n, fw, value):
    sh = 0
    for s, w in fw:
        n.set(s, (value >> sh) & ((1 << w) - 1))     # the netlist truncates further if the signal is narrower
        sh += w


def find_afifo(module):
    """The Migen AsyncFIFO inside a stream.AsyncFIFO / ClockDomainCrossing / AsyncFIFOBuffered, by attributes."""
    from migen.genlib import fifo as mfifo
    seen = set()
    todo = [module]
    while todo:
        m = todo.pop()
        if id(m) in seen:
            continue
        seen.add(id(m))
        if isinstance(m, mfifo.AsyncFIFO):
            return m
        if hasattr(m, "_submodules"):
            for _, sub in m._submodules:
                todo.append(sub)
        # ClockDomainsRenamer wraps lazily: transformed modules are still Module instances
    return None


class AFifoInst:
    """A stream crossing built around one Migen AsyncFIFO.
       letter : (tw, tr, mw, mr, sink.valid, sink.tok, source.ready)     tok = payload|param|first|last packed
       outputs: [sink.ready, source.valid, source.tok]"""

    def __init__(self, name, module, k, buffered=False, cd_w="write", cd_r="read", tokens=(0, 1),
                 alternate=False, eager=False, sink=None, source=None, ratio=None, layout=None,
                 param_layout=(), fifo_root=None, ports=None):
        self.name = name
        self.module = module
        self.k = k
        self.depth = 1 << k
        self.buffered = buffered
        self.lean_open = ("afifo_buffered %d" if buffered else "afifo %d") % k
        self.cd_w, self.cd_r = cd_w, cd_r
        self.sink = sink if sink is not None else module.sink
        self.source = source if source is not None else module.source
        # The crossing is expected to be built around one Migen AsyncFIFO, but nothing is assumed about what the
        # code under test really returns (e.g. uart._get_uart_fifo decides the class itself): without an AsyncFIFO
        # there are simply no synchroniser flops to resolve, and every domain the module uses is driven —
        # the sink side's clock on write edges, the source side's on read edges, "sys" with whichever of the two
        # it is named after.
        af = find_afifo(fifo_root if fifo_root is not None else module)
        mrs = own_multiregs(af) if af is not None else []
        # before elaboration the domains still have Migen's names
        self.sp_w = ([sp for sp in mrs if sp.odomain == "write"] or [None])[0]   # consume.q  -> write domain
        self.sp_r = ([sp for sp in mrs if sp.odomain == "read"] or [None])[0]    # produce.q  -> read domain
        self.netlist = CdcNetlist(module, clocks=tuple(dict.fromkeys((cd_w, cd_r, "sys"))))
        # ports: what the harness drives/observes.  Default: the endpoints, field widths from `layout`.
        assert layout is not None or ports is not None, "give the layout that was passed to the constructor"
        if ports is None:
            ports = dict(in_valid=self.sink.valid, in_ready=self.sink.ready,
                         in_fields=layout_fields(self.sink, layout, param_layout),
                         out_valid=self.source.valid, out_ready=self.source.ready,
                         out_fields=layout_fields(self.source, layout, param_layout))
        self.ports = ports
        self.tokw = sum(w for _, w in ports["in_fields"])
        self.qual = [None, None, 1]
        self.tokens = list(tokens)
        self.alternate = alternate
        self.eager = eager          # mode A with producer always offering and consumer always accepting
        self.mask_order = [id(sp) for sp in (self.sp_w, self.sp_r) if sp is not None]
        self.alphabet = None
        self.ratio = ratio
        self._phase = None

    FMT = "tw, tr, mask(consume.q->write flop), mask(produce.q->read flop), sink.valid, sink.token, source.ready"

    # -- mode A (fork_coexplore) ----------------------------------------------------------------------------
    def pst_init(self):
        return 0

    def pst_next(self, pst, letter, outs):
        if self.alternate and letter[0] and letter[4] and outs[0]:
            return (pst + 1) % len(self.tokens)
        return pst

    def base_letters(self, pst):
        """(tw, tr, valid, token, ready) without resolution masks.  Inputs that cannot influence anything in an
        instant (source.ready without a read edge, sink.* without a write edge) are kept at a single value."""
        toks = [self.tokens[pst]] if self.alternate else self.tokens
        if self.eager:
            return [(1, 0, 1, d, 1) for d in toks] + [(0, 1, 1, toks[0], 1)] + [(1, 1, 1, d, 1) for d in toks]
        L = []
        L.append((1, 0, 0, toks[0], 0))
        L += [(1, 0, 1, d, 0) for d in toks]
        L += [(0, 1, 0, toks[0], r) for r in (0, 1)]
        for r in (0, 1):
            L.append((1, 1, 0, toks[0], r))
            L += [(1, 1, 1, d, r) for d in toks]
        return L

    def cds_of(self, base):
        return tuple(cd for cd, t in ((self.cd_w, base[0]), (self.cd_r, base[1])) if t)

    def make_letter(self, base, masks):
        tw, tr, v, d, r = base
        return (tw, tr, masks.get(id(self.sp_w), 0) if self.sp_w is not None else 0,
                masks.get(id(self.sp_r), 0) if self.sp_r is not None else 0, v, d, r)

    def clocks(self, letter):
        tw, tr, mw, mr = letter[:4]
        cds = tuple(cd for cd, t in ((self.cd_w, tw), (self.cd_r, tr)) if t)
        return Tick((cds, self._masks(mw, mr)))

    def _masks(self, mw, mr):
        m = {}
        if self.sp_w is not None:
            m[id(self.sp_w)] = mw
        if self.sp_r is not None:
            m[id(self.sp_r)] = mr
        return m

    def apply(self, letter):
        n = self.netlist
        v, d, r = letter[4:7]
        P = self.ports
        n.set(P["in_valid"], v)
        unpack_fw(n, P["in_fields"], d)
        n.set(P["out_ready"], r)
        n.settle()

    def sample(self):
        n = self.netlist
        P = self.ports
        return [n.getu(P["in_ready"]), n.getu(P["out_valid"]), pack_fw(n, P["out_fields"])]

    def nontrivial(self, letter, outs):
        return bool((letter[0] and letter[4] and outs[0]) or (letter[1] and outs[1] and letter[6]))

    # -- mode B generator: clock patterns with ratios 1:1 .. 1:7 both ways and drifting phase -------------
    def gen(self, rng, t):
        if t == 0 or self._phase is None:
            self._phase = ClockPattern(rng, self.ratio)
        tw, tr = self._phase.next(rng, t)
        regime = (t // 97) % 5
        pv = (0.5, 0.95, 0.15, 1.0, 0.6)[regime]
        pr = (0.5, 0.15, 0.95, 1.0, 0.3)[regime]
        v = 1 if rng.random() < pv else 0
        r = 1 if rng.random() < pr else 0
        d = rng.randint(0, (1 << self.tokw) - 1)
        full = (1 << (self.k + 1)) - 1
        mw = rng.choice((0, full, rng.randint(0, full)))
        mr = rng.choice((0, full, rng.randint(0, full)))
        return (tw, tr, mw, mr, v, d, r)

    def monitor(self):
        return CrossScoreboard(self.depth + (1 if self.buffered else 0), depth=self.depth,
                               need_r=3 if self.buffered else 2)


class ClockPattern:
    """Two free-running clocks with rational period ratio and slowly drifting phase; an instant is every time
    point at which at least one of them has a rising edge (coincident edges happen whenever the two edge times
    are equal)."""
    RATIOS = [(1, 1), (1, 2), (2, 1), (1, 3), (3, 1), (2, 3), (3, 2), (1, 4), (4, 1), (1, 5), (5, 1),
              (1, 6), (6, 1), (1, 7), (7, 1), (3, 7), (7, 3), (5, 7)]

    def __init__(self, rng, ratio=None):
        self.ratio = ratio
        self._new(rng)

    def _new(self, rng):
        pw, pr = self.ratio if self.ratio else rng.choice(self.RATIOS)
        self.pw, self.pr = pw * 4, pr * 4          # periods in quarter units so that a phase drift of 1 is small
        self.nw = rng.randint(0, self.pw - 1)
        self.nr = rng.randint(0, self.pr - 1)

    def next(self, rng, t):
        if self.ratio is None and t % 211 == 210:
            self._new(rng)
        if rng.random() < 0.05:                     # drift: one clock slips by a quarter unit
            if rng.random() < 0.5:
                self.nw += 1
            else:
                self.nr += 1
        now = min(self.nw, self.nr)
        tw = 1 if self.nw == now else 0
        tr = 1 if self.nr == now else 0
        if tw:
            self.nw += self.pw
        if tr:
            self.nr += self.pr
        return tw, tr


class CrossScoreboard:
    """Property oracle, independent of the model.  Tokens accepted at write-clock edges (sink.valid & sink.ready)
    must come out at read-clock edges (source.valid & source.ready) exactly once, in order, unaltered, and
      * never more than `capacity` tokens are in flight (pointer-distance bound);
      * in EVERY instant in which source.valid is high — stalls included, not only hand-overs — the token on the
        source is the oldest undelivered one (afifo_inv: the addressed slot holds token number C);
      * progress of the consumer side: two read-clock edges (three with the output register) after a token was
        accepted it has been handed over or source.valid is high (afifo_eventually_readable);
      * progress of the producer side: two write-clock edges after the last hand-over, sink.ready is high
        whenever fewer than `depth` tokens are in flight (the mirror image: consume pointer seen through the other
        synchroniser; `writable` is exact because Gray coding is injective)."""
    def __init__(self, capacity, depth=None, need_r=None):
        self.q = []                 # [token, read edges strictly after its acceptance]
        self.capacity = capacity
        self.depth = depth
        self.need_r = need_r
        self.w_since = 1 << 30      # write edges strictly after the last hand-over

    def flush(self):
        self.q = []
        self.w_since = 1 << 30

    def observe(self, letter, outs):
        tw, tr, mw, mr, v, d, r = letter[:7]
        sready, ovalid, otok = outs[:3]
        msg = None
        if ovalid:
            if not self.q:
                msg = "source.valid high with token %d on the source although nothing is in flight" % otok
            elif self.q[0][0] != otok:
                msg = ("source shows token %d while the oldest undelivered token is %d (loss/duplication/"
                       "reordering/corruption; checked in every instant with valid high)" % (otok, self.q[0][0]))
        elif self.need_r is not None and self.q and self.q[0][1] >= self.need_r:
            msg = "token %d accepted %d read-clock edges ago is neither handed over nor on offer" % tuple(self.q[0])
        if msg is None and self.depth is not None and not sready and self.w_since >= 2 and len(self.q) < self.depth:
            msg = ("sink.ready low %d write-clock edges after the last hand-over with only %d of %d tokens in flight"
                   % (self.w_since, len(self.q), self.depth))
        if tw:
            self.w_since += 1
        if tr:
            for e in self.q:
                e[1] += 1
        if tr and ovalid and r and self.q:
            self.q.pop(0)           # identity and order were checked above
            self.w_since = 0
        if tw and v and sready:
            self.q.append([d, 0])
        if msg is None and len(self.q) > self.capacity:
            msg = "%d tokens in flight, capacity %d (pointer distance bound)" % (len(self.q), self.capacity)
        return msg


# ---------------------------------------------------------------------------------------------------------------
# Exhaustive co-exploration with resolution forks (mode A for multi-clock instances).
#
# Same contract as explore.coexplore (complete reachable product of implementation snapshots and model state ids,
# port-level comparison on every transition) with two differences:
#   * the resolution letters are restricted to the bits that can actually differ: the clock/handshake part of a
#     letter is applied once, and only if a synchroniser's source really changed in that instant the transition
#     forks into every subset of the differing bits (for a Gray pointer: two outcomes, old or new; for a pointer
#     that changes several bits at once: all 2^n mixtures);
#   * the harness-side producer may carry a little state (alternating token values) that is part of the product.
import itertools, time
from collections import deque
import explore as _explore
from explore import Disagreement, _masked_equal, _path


def _submasks(diff):
    bits = [1 << j for j in range(diff.bit_length()) if (diff >> j) & 1]
    out = []
    for r in range(len(bits) + 1):
        for c in itertools.combinations(bits, r):
            out.append(sum(c))
    return out


def fork_coexplore(inst, lean, cov, max_states=200000, deadline=None):
    n = inst.netlist
    t_start = time.time()
    lean.open(inst.lean_open)
    pst0 = inst.pst_init()
    root_key = (n.state_key(), 0, pst0)
    seen = {root_key: (None, None)}
    frontier = deque([(n.snapshot(), 0, pst0, root_key)])
    transitions = nontriv = forks_taken = 0
    disagreements = []
    exhaustive = True
    while frontier and len(disagreements) < 3:
        if (deadline is not None and time.time() > deadline) or len(seen) > max_states:
            exhaustive = False
            break
        batch = [frontier.popleft() for _ in range(min(len(frontier), 256))]
        reqs, impl_res = [], []
        for snap, sid, pst, pair in batch:
            for base in inst.base_letters(pst):
                n.restore(snap)
                inst.apply(inst.make_letter(base, {}))
                outs = inst.sample()
                changed = n.tick_sync(inst.cds_of(base))
                if changed:
                    mid = n.snapshot()
                    sids = sorted(changed, key=inst.mask_order.index)
                    combos = itertools.product(*[_submasks(changed[s][0] ^ changed[s][1]) for s in sids])
                else:
                    mid, sids, combos = None, [], [()]
                first = True
                for combo in combos:
                    masks = dict(zip(sids, combo))
                    if not first:
                        n.restore(mid)
                        forks_taken += 1
                    first = False
                    n.resolve(changed, masks)
                    n.finish_tick()
                    letter = inst.make_letter(base, masks)
                    impl_res.append((pair, letter, outs, n.state_key(), n.snapshot(), inst.pst_next(pst, letter, outs)))
                    reqs.append((sid, inst.model_letter(letter) if hasattr(inst, "model_letter") else letter))
        model_res = lean.step_batch(reqs)
        for (pair, letter, outs, key2, snap2, pst2), (sid2, mouts) in zip(impl_res, model_res):
            transitions += 1
            if inst.nontrivial(letter, outs):
                nontriv += 1
            if not _masked_equal(inst, outs, mouts):
                trace = _path(seen, pair) + [letter]
                disagreements.append(Disagreement(inst, trace, len(trace) - 1, outs, mouts))
                if len(disagreements) >= 3:
                    break
                continue
            p2 = (key2, sid2, pst2)
            if p2 not in seen:
                seen[p2] = (pair, letter)
                frontier.append((snap2, sid2, pst2, p2))
    if disagreements:
        exhaustive = False
    lean.close_session()
    cov.add_instance(inst.name, states=len(seen), transitions=transitions, nontrivial=nontriv,
                     exhaustive=exhaustive, mode="A")
    cov.instances[-1]["wall_s"] = round(time.time() - t_start, 1)
    cov.instances[-1]["resolution_forks"] = forks_taken
    cov.count("A:resolution_forks", forks_taken)
    if seen and len(cov.samples) < 6:
        last = next(reversed(seen))
        cov.samples.append({"instance": inst.name, "mode": "A", "letter_format": inst.FMT,
                            "path_to_deepest_state": [list(l) for l in _path(seen, last)][:40]})
    return disagreements


_orig_coexplore = _explore.coexplore


def _dispatch_coexplore(inst, lean, cov, **kw):
    """Instances that define `base_letters` are explored with resolution forks; everything else goes to the
    shared engine.  (explore._worker looks the name up at call time, in the forked worker.)"""
    if hasattr(inst, "base_letters"):
        return fork_coexplore(inst, lean, cov, **kw)
    return _orig_coexplore(inst, lean, cov, **kw)


_explore.coexplore = _dispatch_coexplore


# ---------------------------------------------------------------------------------------------------------------
# BusSynchronizer / PulseSynchronizer

class BusSyncInst:
    """litex.gen.genlib.cdc.BusSynchronizer(width >= 2, "i", "o", timeout).
       letter : (ti, to, mPing, mPong, mBuf, i, i_load)      outputs: [o]
       The bus `i` is driven by a register of the environment in the i domain: `i` (letter[5]) is the word on the
       bus in this instant, `i_load` the word that register takes at this instant's i-edge (on the bus from the
       next instant on).  So the bus changes exactly at i-clock edges, and a synchroniser flop that samples the bus
       DIRECTLY at a coincident o-edge catches, bit by bit, the old or the new word (mask mBuf) — whatever
       structure the module under test has: the first-stage flops are all the MultiReg flops that exist, the
       request/acknowledge ones if there are any.  Model and monitors see letter[:6]."""
    FMT = ("ti, to, ping flop catches new, pong flop catches new, data first-flop mask, word on i, "
           "word loaded onto i at this i-edge")

    def __init__(self, name, width, timeout, values=None, ratio_max=None, pattern=None):
        from litex.gen.genlib.cdc import BusSynchronizer
        self.pattern = pattern      # None: drawn per run; (period_i, period_o, phase_o): fixed periodic clocks
        self.name = name
        self.width, self.timeout = width, timeout
        self.module = m = BusSynchronizer(width, "i", "o", timeout=timeout)
        self.lean_open = "bussync %d %d" % (width, timeout)
        first = lambda sub: (own_multiregs(sub) or [None])[0] if sub is not None else None
        self.sp_ping = first(getattr(m, "_ping", None))
        self.sp_pong = first(getattr(m, "_pong", None))
        self.sp_buf = first(m)                  # the data-path synchroniser (declared by the module itself)
        self.netlist = CdcNetlist(m, clocks=("i", "o"))
        named = [self.sp_ping, self.sp_pong, self.sp_buf]
        self.mask_order = [id(sp) for sp in named if sp is not None]
        # any further synchroniser the module may contain is resolved with the data mask as well
        self.extra = [sid for sid in self.netlist.mr if sid not in self.mask_order]
        self.mask_order += self.extra
        self.values = list(values) if values is not None else (
            list(range(1 << width)) if width <= 4 else [0, (1 << width) - 1])
        self.qual = [None]
        self.alphabet = None
        # drift bound used by the random generators and under which the monitors are armed: the property only
        # claims coherence/convergence when the time-out exceeds a round trip, t >= 4R+7 (bussync_no_spurious_timeout)
        self.R = min(ratio_max or 3, (timeout - 7) // 4)
        self.ratio_max = ratio_max
        self._pat = None

    def model_letter(self, letter):
        return list(letter[:6])

    def _maskdict(self, mp, mq, mb):
        d = {sid: mb for sid in self.extra}
        for sp, m in ((self.sp_ping, mp), (self.sp_pong, mq), (self.sp_buf, mb)):
            if sp is not None:
                d[id(sp)] = m
        return d

    # mode A: the word currently on the bus is harness-side state (part of the explored product)
    def pst_init(self):
        return 0

    def pst_next(self, pst, letter, outs):
        return letter[6] if letter[0] else pst

    def base_letters(self, pst):
        L = [(0, 1, pst, pst)]
        for v in self.values:
            L.append((1, 0, v, pst))
            L.append((1, 1, v, pst))
        return L

    def cds_of(self, base):
        return tuple(cd for cd, t in (("i", base[0]), ("o", base[1])) if t)

    def make_letter(self, base, masks):
        ti, to, load, vis = base
        g = lambda sp: masks.get(id(sp), 0) if sp is not None else 0
        mb = g(self.sp_buf)
        for sid in self.extra:
            mb |= masks.get(sid, 0)
        return (ti, to, g(self.sp_ping) & 1, g(self.sp_pong) & 1, mb, vis, load)

    def clocks(self, letter):
        ti, to, mp, mq, mb = letter[:5]
        return Tick((self.cds_of((ti, to)), self._maskdict(mp, mq, mb)))

    def apply(self, letter):
        n = self.netlist
        n.set(self.module.i, letter[5])
        n.settle()
        # the environment's register: the bus takes the new word at this instant's i-edge
        n.pending_inputs = [(self.module.i, letter[6], "i")] if len(letter) > 6 and letter[0] else []

    def sample(self):
        return [self.netlist.getu(self.module.o)]

    def nontrivial(self, letter, outs):
        # an instant in which some synchroniser source changed, or the output is about to be reloaded
        return bool(letter[0] and letter[1])

    # mode B: clocks with bounded drift ratio (the property's R = 1..3): random interleavings or free-running
    # periodic clocks with a fixed phase offset (also output clock faster than input clock); the input word
    # alternates between short holds (changes in the middle of hand-shakes) and holds long enough for the
    # eventual-convergence rule to apply
    def gen(self, rng, t):
        if t == 0 or self._pat is None:
            R = max(self.R, 0)
            if self.pattern is not None:
                self._pat = PeriodicClocks(*self.pattern)
            elif rng.random() < 0.5:
                self._pat = PeriodicClocks(*rng.choice(PeriodicClocks.admissible(R)))
            else:
                self._pat = BoundedRatioClocks(rng, R)
            self._cur = 0       # the environment's register starts at its reset value
            self._hold = 0
        ti, to = self._pat.next(rng)
        vis = load = self._cur
        if ti:
            if self._hold <= 0:
                load = rng.randint(0, (1 << self.width) - 1)
                if rng.random() < 0.3:
                    load = vis ^ ((1 << self.width) - 1)      # every bit flips at once
                self._hold = rng.randint(1, 4) if rng.random() < 0.5 else rng.randint(40, 120)
            self._hold -= 1
            self._cur = load
        full = (1 << self.width) - 1
        return (ti, to, rng.randint(0, 1), rng.randint(0, 1), rng.choice((0, full, rng.randint(0, full))), vis, load)

    def monitor(self):
        if self.R < 0 or (self.pattern is not None and PeriodicClocks.bursts(self.pattern)[0] > self.R):
            return _NoMonitor()     # time-out shorter than any round trip: outside the property's quantifier
        return BusSyncMonitor()


class PeriodicClocks:
    """Two free-running clocks: i-edges at k*pi, o-edges at ph + k*po (integer time); an instant is every time
    point with at least one edge."""
    PATTERNS = [(10, 10, 0), (10, 10, 3), (30, 10, 1), (30, 10, 0), (14, 10, 1), (14, 10, 2), (14, 10, 3),
                (14, 10, 4), (20, 10, 5), (20, 10, 0), (10, 14, 3), (10, 20, 1), (10, 30, 7), (10, 30, 0),
                (12, 10, 1), (10, 12, 5), (25, 10, 2)]

    def __init__(self, pi, po, ph):
        self.pi, self.po = pi, po
        self.ni, self.no = 0, ph

    def next(self, rng=None):
        now = min(self.ni, self.no)
        ti = 1 if self.ni == now else 0
        to = 1 if self.no == now else 0
        if ti:
            self.ni += self.pi
        if to:
            self.no += self.po
        return ti, to

    @classmethod
    def bursts(cls, pat):
        """(longest run of i-only instants, longest run of o-only instants) of a pattern."""
        c = cls(*pat)
        bi = bo = ri = ro = 0
        for _ in range(4000):
            ti, to = c.next()
            ri = ri + 1 if (ti and not to) else (0 if to else ri)
            ro = ro + 1 if (to and not ti) else (0 if ti else ro)
            bi, bo = max(bi, ri), max(bo, ro)
        return bi, bo

    @classmethod
    def admissible(cls, R):
        """Patterns inside the drift bound: at most R consecutive i-only instants (hypothesis of
        bussync_no_spurious_timeout) and an output clock at most 3 times faster."""
        return [p for p in cls.PATTERNS if cls.bursts(p)[0] <= R and cls.bursts(p)[1] <= 3]


class BoundedRatioClocks:
    """Arbitrary interleaving subject to: between two consecutive edges of one clock the other has at most R
    edges (coincident edges count for both)."""
    def __init__(self, rng, R):
        self.R = R
        self.since_i = 0    # o-edges since the last i-edge
        self.since_o = 0

    def next(self, rng):
        can_i_wait = self.since_i < self.R      # another o-only instant is allowed
        can_o_wait = self.since_o < self.R
        choices = [(1, 1)]
        if can_i_wait:
            choices += [(0, 1)] * 2
        if can_o_wait:
            choices += [(1, 0)] * 2
        ti, to = rng.choice(choices)
        if ti:
            self.since_i = 0
        else:
            self.since_i += 1
        if to:
            self.since_o = 0
        else:
            self.since_o += 1
        return ti, to


class CoherenceMonitor:
    """Property oracle: every word shown on `o` must have been present on `i` at some i-clock edge so far
    (or be the reset value 0) — never a bit-wise mixture of two different input words."""
    def __init__(self):
        self.past = {0}

    def observe(self, letter, outs):
        ti, to, mp, mq, mb, v = letter[:6]
        msg = None
        if outs[0] not in self.past:
            msg = "o = %d was never present on i (past values %s)" % (outs[0], sorted(self.past)[:16])
        if ti:
            self.past.add(v)
        return msg


class ConvergenceMonitor:
    """Property oracle for "after the input has been stable for long enough the output reflects it": once the
    word on `i` has been held through N = 12 consecutive blocks in each of which both clocks had an edge (the
    bound of theorem bussync_eventually: finish the hand-shake in progress, one full round, the output-side
    steps), `o` must equal it — and stay equal while the word is held.  Needs no knowledge of the model; the
    retry time-out must not expire (guaranteed by the generators' drift bound, t >= 4R+7)."""
    N = 12

    def __init__(self):
        self.v = None
        self.blocks = 0
        self.si = self.so = False

    def observe(self, letter, outs):
        ti, to, mp, mq, mb, v = letter[:6]
        msg = None
        if self.v is not None and self.blocks >= self.N and outs[0] != self.v:
            msg = "i held at %d for %d blocks (both clocks ticking) but o = %d" % (self.v, self.blocks, outs[0])
        if v != self.v:
            self.v, self.blocks, self.si, self.so = v, 0, False, False
        self.si = self.si or bool(ti)
        self.so = self.so or bool(to)
        if self.si and self.so:
            self.blocks += 1
            self.si = self.so = False
        return msg


class BusSyncMonitor:
    """Coherence (no torn words) and eventual convergence."""
    def __init__(self):
        self.a, self.b = CoherenceMonitor(), ConvergenceMonitor()

    def observe(self, letter, outs):
        return self.a.observe(letter, outs) or self.b.observe(letter, outs)


class BusSync1Inst:
    """BusSynchronizer(width=1): letter (to, i), outputs [o]."""
    FMT = "to, i"

    def __init__(self, name):
        from litex.gen.genlib.cdc import BusSynchronizer
        self.name = name
        self.module = m = BusSynchronizer(1, "i", "o")
        self.lean_open = "bussync1"
        self.netlist = CdcNetlist(m, clocks=("i", "o"))
        self.qual = [None]
        self.alphabet = [(to, i) for to in (0, 1) for i in (0, 1)]
        self.inputs = None

    def clocks(self, letter):
        return ("o",) if letter[0] else ()

    def apply(self, letter):
        self.netlist.set(self.module.i, letter[1])
        self.netlist.settle()

    def sample(self):
        return [self.netlist.getu(self.module.o)]

    def nontrivial(self, letter, outs):
        return bool(letter[0])

    def gen(self, rng, t):
        return (rng.randint(0, 1), rng.randint(0, 1))


class PulseSyncInst:
    """migen PulseSynchronizer("i", "o") as used by stream.Monitor: letter (ti, to, m, i), outputs [o]."""
    FMT = "ti, to, flop catches new, i"

    def __init__(self, name, spaced=False):
        from migen.genlib.cdc import PulseSynchronizer
        self.name = name
        self.module = m = PulseSynchronizer("i", "o")
        self.lean_open = "pulsesync"
        self.sp = own_multiregs(m)[0]
        self.netlist = CdcNetlist(m, clocks=("i", "o"))
        self.mask_order = [id(self.sp)]
        self.qual = [None]
        self.alphabet = None
        self.spaced = spaced
        self._since = 99

    def pst_init(self):
        return 0

    def pst_next(self, pst, letter, outs):
        return 0

    def base_letters(self, pst):
        return [(0, 1, 0), (1, 0, 0), (1, 0, 1), (1, 1, 0), (1, 1, 1)]

    def cds_of(self, base):
        return tuple(cd for cd, t in (("i", base[0]), ("o", base[1])) if t)

    def make_letter(self, base, masks):
        return (base[0], base[1], masks.get(id(self.sp), 0) & 1, base[2])

    def clocks(self, letter):
        return Tick((self.cds_of(letter[:2] + (0,)), {id(self.sp): letter[2]}))

    def apply(self, letter):
        self.netlist.set(self.module.i, letter[3])
        self.netlist.settle()

    def sample(self):
        return [self.netlist.getu(self.module.o)]

    def nontrivial(self, letter, outs):
        return bool(letter[3] and letter[0]) or bool(outs[0])

    def gen(self, rng, t):
        if t == 0:
            self._since = 99
        ti, to = rng.choice(((1, 0), (0, 1), (1, 1), (0, 1)))
        if to:
            self._since += 1
        i = 0
        if ti and self._since >= 3 and rng.random() < 0.5:
            i = 1
            self._since = 0 if not to else 0
        return (ti, to, rng.randint(0, 1), i)

    def monitor(self):
        return PulseMonitor()


class PulseMonitor:
    """Pulses separated by at least 3 destination edges are each delivered exactly once: the number of output
    pulses (o high at an o-edge) never exceeds the number of input pulses and lags by at most one."""
    def __init__(self):
        self.sent = 0
        self.got = 0

    def observe(self, letter, outs):
        ti, to, m, i = letter
        if to and outs[0]:
            self.got += 1
        if self.got > self.sent:
            return "output pulse without input pulse (%d > %d)" % (self.got, self.sent)
        if ti and i:
            self.sent += 1
        if self.sent > self.got + 1:
            return "input pulse lost (%d sent, %d seen)" % (self.sent, self.got)
        return None


# ---------------------------------------------------------------------------------------------------------------
# AXILiteClockDomainCrossing: five independent crossings (aw, w, ar master->slave; b, r slave->master)

class AxiLiteCdcInst:
    """letter : (t_from, t_to, then for aw, w, b, ar, r: mw, mr, valid, token, ready)
       outputs: for aw, w, b, ar, r: [sink.ready, source.valid, source.token]
       Model: `afifo_multi` — five independent asynchronous FIFOs; for b and r the write clock is cd_to."""
    CH = ("aw", "w", "b", "ar", "r")
    FMT = "t_from, t_to, 5 x (mask write-side flop, mask read-side flop, sink.valid, sink.token, source.ready) for aw,w,b,ar,r"

    def __init__(self, name, cd_from="sys", cd_to="phy", data_width=32, address_width=32):
        from litex.soc.interconnect.axi import axi_lite
        from litex.soc.interconnect import stream
        self.name = name
        self.cd_from, self.cd_to = cd_from, cd_to
        master = axi_lite.AXILiteInterface(data_width, address_width)
        slave = axi_lite.AXILiteInterface(data_width, address_width)
        self.module = m = axi_lite.AXILiteClockDomainCrossing(master, slave, cd_from, cd_to)
        # AXI4-Lite channel payloads from the bus parameters given to the constructors (not from the signals):
        aw_l = [("addr", address_width), ("prot", 3)]
        layouts = {"aw": aw_l, "ar": aw_l, "w": [("data", data_width), ("strb", data_width // 8)],
                   "b": [("resp", 2)], "r": [("resp", 2), ("data", data_width)]}
        K = 2       # ClockDomainCrossing(depth=None) documents a depth of 4 = 2^2
        # synchroniser flops of every AsyncFIFO that exists in the module (none is assumed)
        cdcs = [sub for _, sub in m._submodules if hasattr(sub, "sink") and hasattr(sub, "source")]
        info = []
        for c in cdcs:
            af = find_afifo(c)
            mrs = own_multiregs(af) if af is not None else []
            info.append((c, ([sp for sp in mrs if sp.odomain == "write"] or [None])[0],
                         ([sp for sp in mrs if sp.odomain == "read"] or [None])[0]))
        self.netlist = n = CdcNetlist(m, clocks=tuple(dict.fromkeys((cd_from, cd_to, "sys"))))
        self.chan = []
        for ch in self.CH:
            fwd = ch in ("aw", "w", "ar")
            sink = getattr(master if fwd else slave, ch)
            source = getattr(slave if fwd else master, ch)
            # which crossing serves this channel: the one whose sink.valid follows the channel's valid
            n.set(sink.valid, 1)
            n.settle()
            hit = [x for x in info if n.getu(x[0].sink.valid) == 1]
            n.set(sink.valid, 0)
            n.settle()
            c, spw, spr = hit[0] if len(hit) == 1 else (None, None, None)
            self.chan.append(dict(name=ch, fwd=fwd, sink=sink, source=source, spw=spw, spr=spr, k=K,
                                  ifw=layout_fields(sink, layouts[ch]), ofw=layout_fields(source, layouts[ch])))
        for c in self.chan:
            c["tokw"] = sum(w for _, w in c["ifw"])
        self.lean_open = "axilite %d" % K       # the product model of LitexModel/Cdc/AxiLite.lean
        self.qual = []
        for j in range(5):
            self.qual += [None, None, 3 * j + 1]
        self.alphabet = None
        self._pat = None

    def _ticks(self, letter, c):
        tf, tt = letter[0], letter[1]
        return (tf, tt) if c["fwd"] else (tt, tf)

    def clocks(self, letter):
        cds = tuple(cd for cd, t in ((self.cd_from, letter[0]), (self.cd_to, letter[1])) if t)
        masks = {}
        for j, c in enumerate(self.chan):
            mw, mr = letter[2 + 5 * j], letter[3 + 5 * j]
            if c["spw"] is not None:
                masks[id(c["spw"])] = mw
            if c["spr"] is not None:
                masks[id(c["spr"])] = mr
        return Tick((cds, masks))

    def model_letter(self, letter):
        # the model gets the two clocks as they are: which of them writes/reads each channel is the model's
        # statement (AxChan.fwd), checked here against the code
        return list(letter)

    def apply(self, letter):
        n = self.netlist
        for j, c in enumerate(self.chan):
            mw, mr, v, d, r = letter[2 + 5 * j: 7 + 5 * j]
            n.set(c["sink"].valid, v)
            unpack_fw(n, c["ifw"], d)
            n.set(c["source"].ready, r)
        n.settle()

    def sample(self):
        n = self.netlist
        out = []
        for c in self.chan:
            out += [n.getu(c["sink"].ready), n.getu(c["source"].valid), pack_fw(n, c["ofw"])]
        return out

    def nontrivial(self, letter, outs):
        for j, c in enumerate(self.chan):
            tw, tr = self._ticks(letter, c)
            if (tw and letter[4 + 5 * j] and outs[3 * j]) or (tr and outs[3 * j + 1] and letter[6 + 5 * j]):
                return True
        return False

    def gen(self, rng, t):
        if t == 0 or self._pat is None:
            self._pat = ClockPattern(rng)
        tf, tt = self._pat.next(rng, t)
        L = [tf, tt]
        for c in self.chan:
            full = (1 << (c["k"] + 1)) - 1
            regime = (t // 61 + len(L)) % 4
            pv = (0.5, 0.9, 0.2, 1.0)[regime]
            pr = (0.5, 0.2, 0.9, 1.0)[regime]
            L += [rng.choice((0, full, rng.randint(0, full))), rng.choice((0, full, rng.randint(0, full))),
                  1 if rng.random() < pv else 0, rng.randint(0, (1 << c["tokw"]) - 1), 1 if rng.random() < pr else 0]
        return tuple(L)

    def monitor(self):
        return _MultiScoreboard(self)


class _MultiScoreboard:
    def __init__(self, inst):
        self.inst = inst
        self.sb = [CrossScoreboard(1 << c["k"], depth=1 << c["k"], need_r=2) for c in inst.chan]

    def observe(self, letter, outs):
        for j, c in enumerate(self.inst.chan):
            tw, tr = self.inst._ticks(letter, c)
            mw, mr, v, d, r = letter[2 + 5 * j: 7 + 5 * j]
            m = self.sb[j].observe((tw, tr, mw, mr, v, d, r), outs[3 * j: 3 * j + 3])
            if m:
                return "channel %s: %s" % (c["name"], m)
        return None


# ---------------------------------------------------------------------------------------------------------------
# ClockDomainCrossing(with_common_rst=True)

class _RstWrap(Module):
    """Gives the two user domains a reset signal (driven by the harness) and holds the crossing."""
    def __init__(self, layout, depth, buffered, cd_from, cd_to):
        from litex.soc.interconnect import stream
        self.clock_domains.cd_a = ClockDomain(cd_from)
        self.clock_domains.cd_b = ClockDomain(cd_to)
        self.submodules.cdc = stream.ClockDomainCrossing(layout, cd_from=cd_from, cd_to=cd_to, depth=depth,
                                                         buffered=buffered, with_common_rst=True)
        self.sink, self.source = self.cdc.sink, self.cdc.source
        self.rst_a, self.rst_b = self.cd_a.rst, self.cd_b.rst


class AFifoRstInst(AFifoInst):
    """letter : (tw, tr, mw, mr, sink.valid, sink.tok, source.ready, rst_from, rst_to); the model sees
       rst = rst_from | rst_to.  `long_resets`: the generator only produces reset pulses that are long enough
       to flush the (reset-less) synchroniser flops; only then is the scoreboard armed."""
    FMT = AFifoInst.FMT + ", rst(cd_from), rst(cd_to)"

    def __init__(self, name, layout, k, buffered=False, cd_from="usb", cd_to="eth", long_resets=True):
        w = _RstWrap(layout, 1 << k, buffered, cd_from, cd_to)
        AFifoInst.__init__(self, name, w, k, buffered=buffered, cd_w=cd_from, cd_r=cd_to, layout=layout)
        self.lean_open = ("afifo_rst_buffered %d" if buffered else "afifo_rst %d") % k
        # the private domains created by the crossing (names carry a duid): found by what they clock
        keys = list(self.netlist.sync.keys())
        self.int_w = (self.netlist.mr[id(self.sp_w)][1].odomain if self.sp_w is not None else
                      next((k for k in keys if k.startswith("from")), cd_from))
        self.int_r = (self.netlist.mr[id(self.sp_r)][1].odomain if self.sp_r is not None else
                      next((k for k in keys if k.startswith("to")), cd_to))
        self.long_resets = long_resets
        self._rst_plan = []

    def _cds(self, tw, tr):
        cds = []
        if tw:
            cds += [self.cd_w, self.int_w]
        if tr:
            cds += [self.cd_r, self.int_r]
        return tuple(cds)

    def clocks(self, letter):
        tw, tr, mw, mr = letter[:4]
        return Tick((self._cds(tw, tr), self._masks(mw, mr)))

    def apply(self, letter):
        self.netlist.set(self.module.rst_a, letter[7])
        self.netlist.set(self.module.rst_b, letter[8])
        AFifoInst.apply(self, letter)

    def model_letter(self, letter):
        return list(letter[:7]) + [1 if (letter[7] or letter[8]) else 0]

    def nontrivial(self, letter, outs):
        return AFifoInst.nontrivial(self, letter, outs) or bool(letter[7] or letter[8])

    def gen(self, rng, t):
        if t == 0:
            self._rst_plan = []
            self._in_rst = None
        base = AFifoInst.gen(self, rng, t)
        tw, tr = base[0], base[1]
        ra = rb = 0
        if self._in_rst is not None:
            st = self._in_rst
            ra, rb = st["who"]
            # progress of the flush: phase 0 needs one edge of each clock, phase 1 two more of each
            if st["phase"] == 0:
                st["w"] |= tw
                st["r"] |= tr
                if st["w"] and st["r"]:
                    st["phase"], st["w"], st["r"] = 1, 0, 0
            else:
                st["w"] += tw
                st["r"] += tr
            st["n"] += 1
            done = (st["phase"] == 1 and st["w"] >= 2 and st["r"] >= 2) if self.long_resets else st["n"] >= st["len"]
            if done:
                self._in_rst = None
        elif rng.random() < 0.01:
            who = rng.choice(((1, 0), (0, 1), (1, 1)))
            self._in_rst = dict(who=who, phase=0, w=0, r=0, n=0, len=rng.randint(1, 4))
            ra, rb = who
            st = self._in_rst
            st["w"] |= tw
            st["r"] |= tr
            st["n"] = 1
            if st["w"] and st["r"]:
                st["phase"], st["w"], st["r"] = 1, 0, 0
            if not self.long_resets and st["n"] >= st["len"]:
                self._in_rst = None
        return tuple(base) + (ra, rb)

    def monitor(self):
        return (_RstScoreboard(self.depth + (1 if self.buffered else 0), depth=self.depth,
                               need_r=3 if self.buffered else 2) if self.long_resets else _NoMonitor())


class _NoMonitor:
    def observe(self, letter, outs):
        return None


class _RstScoreboard(CrossScoreboard):
    """Scoreboard for the common-reset variant: a reset (long enough to flush, guaranteed by the generator)
    discards everything in flight; outside resets the usual exactly-once/in-order rule applies."""
    def observe(self, letter, outs):
        if letter[7] or letter[8]:
            self.flush()
            return None
        return CrossScoreboard.observe(self, letter[:7], outs)


# ---------------------------------------------------------------------------------------------------------------
# The UART FIFO pair, built the way users get it: through `UART(phy_cd=...)` (which calls `_get_uart_fifo`)

class UartFifoInst(AFifoInst):
    """`UART(tx_fifo_depth=2^k, rx_fifo_depth=2^k, rx_fifo_rx_we=True, phy_cd="phy")`, one direction.
       tx: CSR write strobe `_rxtx.re`/`_rxtx.r` (sys) -> tx FIFO -> `uart.source` (phy)
       rx: `uart.sink` (phy) -> rx FIFO -> CSR `_rxtx.w`, popped by the read strobe `_rxtx.we` (sys)
       Tokens are the 8 data bits (+ first/last, which the CSR side cannot set or see: driven/expected 0)."""

    def __init__(self, name, direction, k=4, phy_cd="phy"):
        from litex.soc.cores import uart as uartm
        u = uartm.UART(phy=None, tx_fifo_depth=1 << k, rx_fifo_depth=1 << k, rx_fifo_rx_we=True, phy_cd=phy_cd)
        data = [("data", 8)]
        if direction == "tx":
            ports = dict(in_valid=u._rxtx.re, in_ready=u.tx_fifo.sink.ready, in_fields=[(u._rxtx.r, 8)],
                         out_valid=u.source.valid, out_ready=u.source.ready,
                         out_fields=layout_fields(u.source, data))
            AFifoInst.__init__(self, name, u, k, cd_w="sys", cd_r=phy_cd, ports=ports, fifo_root=u.tx_fifo)
        else:
            ports = dict(in_valid=u.sink.valid, in_ready=u.sink.ready, in_fields=[(u.sink.data, 8)],
                         out_valid=u.rx_fifo.source.valid, out_ready=u._rxtx.we, out_fields=[(u._rxtx.w, 8)])
            AFifoInst.__init__(self, name, u, k, cd_w=phy_cd, cd_r="sys", ports=ports, fifo_root=u.rx_fifo)


# ---------------------------------------------------------------------------------------------------------------
# Same-domain ClockDomainCrossing (cd_from == cd_to): a wire, or a Buffer when `buffered` — single clock

def same_domain_inst(name, layout, cd, buffered, data_values=(0, 1)):
    from litex.soc.interconnect import stream
    from streamlib import StreamInst
    m = stream.ClockDomainCrossing(layout, cd_from=cd, cd_to=cd, buffered=buffered)
    inst = StreamInst(name, m, "pipevalid" if buffered else "wire", data_values=data_values,
                      capacity=1 if buffered else 0, clocks=tuple(dict.fromkeys((cd, "sys"))))
    inst.clocks = lambda letter: (cd,)
    return inst


# ---------------------------------------------------------------------------------------------------------------
# Job runner: as explore.run_jobs, but one job cannot take the others down — an exception while building or
# driving a (changed) implementation, a killed worker or a job that does not come back in time is turned into a
# disagreement of that instance, and every other instance (with its monitors) still runs.

def run_jobs_safe(ctx, jobs, timeout_s):
    import multiprocessing as mp, os, traceback
    _explore._JOBS = jobs
    _explore._CTXINFO = (ctx.prop, ctx.seed, ctx.tier)
    procs = min(len(jobs), int(os.environ.get("VERIF_PROCS", "0")) or (os.cpu_count() or 4))
    results, failed = [], []
    pool = mp.get_context("fork").Pool(procs)
    try:
        handles = [pool.apply_async(_explore._worker, (i,)) for i in range(len(jobs))]
        t_end = time.time() + timeout_s
        for i, h in enumerate(handles):
            try:
                results.append(h.get(timeout=max(1.0, t_end - time.time())))
            except mp.TimeoutError:
                failed.append((i, "timeout: job did not finish within %d s (hang or killed worker)" % timeout_s))
            except Exception as e:  # raised inside the worker
                failed.append((i, "exception: %s" % "".join(traceback.format_exception_only(type(e), e)).strip()))
    finally:
        pool.terminate()
    dis, bad = [], []
    for idx, covd, ds in sorted(results):
        ctx.cov.instances += covd["instances"]
        for smp in covd["samples"]:
            if len(ctx.cov.samples) < 8:
                ctx.cov.samples.append(smp)
        ctx.cov.evaluations += covd["evaluations"]
        ctx.cov.nontrivial += covd["nontrivial"]
        ctx.cov.states += covd["states"]
        ctx.cov.transitions += covd["transitions"]
        for k, v in covd["hist"].items():
            ctx.cov.count(k, v)
        ctx.cov.notes += covd["notes"]
        for (trace, cycle, io, mo, kind, iname, lopen) in ds:
            d = Disagreement(None, trace, cycle, io, mo, kind)
            d.inst_name, d.lean_open, d.job = iname, lopen, idx
            dis.append(d)
            bad.append(idx)
    for i, why in failed:
        d = Disagreement(None, [], 0, None, None, kind=why)
        d.inst_name, d.lean_open, d.job = "job #%d" % i, None, i
        try:
            d.inst_name = getattr(jobs[i], "label", None) or d.inst_name
        except Exception:
            pass
        dis.append(d)
        bad.append(i)
        ctx.cov.notes.append("job %d: %s" % (i, why))
    return dis, bad


# ---------------------------------------------------------------------------------------------------------------
# The FIFO behind _FIFOWrapper with the endpoint token field by field (payload / param / first / last)

class AFifoTokInst(AFifoInst):
    """As AFifoInst, but model and code are compared per endpoint field: the model (`afifo_tok`) packs payload,
       param, first, last into the fifo word and unpacks them again, as `_FIFOWrapper` does.  The harness drives
       and observes payload fields and param fields separately (widths from the layouts given to the constructor).
       outputs: [sink.ready, source.valid, source.payload, source.param, source.first, source.last]"""

    def __init__(self, name, module, k, payload_layout, param_layout, **kw):
        AFifoInst.__init__(self, name, module, k, layout=payload_layout, param_layout=param_layout, **kw)
        self.wp = sum(w for _, w in payload_layout)
        self.wq = sum(w for _, w in param_layout)
        self.lean_open = "afifo_tok %d %d %d %d" % (k, 1 if self.buffered else 0, self.wp, self.wq)
        self.qual = [None, None, 1, 1, 1, 1]
        npl, npm = len(payload_layout), len(param_layout)
        of = self.ports["out_fields"]
        self._of = (of[:npl], of[npl:npl + npm], of[npl + npm], of[npl + npm + 1])

    def _split(self, d):
        pl = d & ((1 << self.wp) - 1)
        pm = (d >> self.wp) & ((1 << self.wq) - 1)
        return pl, pm, (d >> (self.wp + self.wq)) & 1, (d >> (self.wp + self.wq + 1)) & 1

    def model_letter(self, letter):
        tw, tr, mw, mr, v, d, r = letter[:7]
        return [tw, tr, mw, mr, v] + list(self._split(d)) + [r]

    def sample(self):
        n = self.netlist
        P = self.ports
        pl, pm, f, l = self._of
        return [n.getu(P["in_ready"]), n.getu(P["out_valid"]), pack_fw(n, pl), pack_fw(n, pm),
                n.getu(f[0]), n.getu(l[0])]

    def monitor(self):
        inner = AFifoInst.monitor(self)
        inst = self

        class _M:
            def observe(self, letter, outs):
                tok = outs[2] | (outs[3] << inst.wp) | (outs[4] << (inst.wp + inst.wq)) | \
                    (outs[5] << (inst.wp + inst.wq + 1))
                return inner.observe(letter, [outs[0], outs[1], tok])
        return _M()


# ---------------------------------------------------------------------------------------------------------------
# stream.Monitor in a foreign clock domain: reset/latch strobes through PulseSynchronizers, count back by MultiReg

class MonitorInst:
    """stream.Monitor(endpoint, count_width=w, clock_domain="phy", with_tokens=True).
       letter : (ts, tc, reset_ps flop catches new, latch_ps flop catches new, status first-flop mask,
                 reset strobe, latch strobe, endpoint.valid & endpoint.ready)          outputs: [_tokens.status]"""
    FMT = "t_sys, t_phy, mask reset_ps, mask latch_ps, mask status flop, reset, latch, enable"

    def __init__(self, name, w):
        from litex.soc.interconnect import stream
        from migen.genlib.cdc import PulseSynchronizer
        self.name, self.w = name, w
        self.ep = stream.Endpoint([("data", 8)])
        self.module = m = stream.Monitor(self.ep, count_width=w, clock_domain="phy", with_tokens=True)
        pss = [sub for _, sub in m._submodules if isinstance(sub, PulseSynchronizer)]
        cnt = getattr(m, "token_counter", None)
        self.sp_cnt = (own_multiregs(cnt) or [None])[0] if cnt is not None else None
        ps_sp = [((own_multiregs(p) or [None])[0], p) for p in pss]
        self.netlist = n = CdcNetlist(m, clocks=("sys", "phy"))
        self.sp_rst = self.sp_lat = None
        for sig, attr in ((m.reset, "sp_rst"), (m.latch, "sp_lat")):   # which synchroniser carries which strobe
            n.set(sig, 1)
            n.settle()
            hit = [sp for sp, p in ps_sp if n.getu(p.i) == 1]
            n.set(sig, 0)
            n.settle()
            if len(hit) == 1:
                setattr(self, attr, hit[0])
        named = [sp for sp in (self.sp_rst, self.sp_lat, self.sp_cnt) if sp is not None]
        self.mask_order = [id(sp) for sp in named]
        self.extra = [sid for sid in n.mr if sid not in self.mask_order]
        self.mask_order += self.extra
        self.lean_open = "monitor %d" % w
        self.qual = [None]
        self.alphabet = None

    def _maskdict(self, m1, m2, mc):
        d = {sid: mc for sid in self.extra}
        for sp, mk in ((self.sp_rst, m1), (self.sp_lat, m2), (self.sp_cnt, mc)):
            if sp is not None:
                d[id(sp)] = mk
        return d

    def pst_init(self):
        return 0

    def pst_next(self, pst, letter, outs):
        return 0

    def base_letters(self, pst):
        L = [(0, 1, 0, 0, en) for en in (0, 1)]
        L += [(1, 0, rs, la, 0) for rs in (0, 1) for la in (0, 1)]
        L += [(1, 1, rs, la, en) for rs in (0, 1) for la in (0, 1) for en in (0, 1)]
        return L

    def cds_of(self, base):
        return tuple(cd for cd, t in (("sys", base[0]), ("phy", base[1])) if t)

    def make_letter(self, base, masks):
        ts, tc, rs, la, en = base
        g = lambda sp: masks.get(id(sp), 0) if sp is not None else 0
        mc = g(self.sp_cnt)
        for sid in self.extra:
            mc |= masks.get(sid, 0)
        return (ts, tc, g(self.sp_rst) & 1, g(self.sp_lat) & 1, mc, rs, la, en)

    def clocks(self, letter):
        return Tick((self.cds_of(letter[:2]), self._maskdict(letter[2], letter[3], letter[4])))

    def apply(self, letter):
        n = self.netlist
        n.set(self.module.reset, letter[5])
        n.set(self.module.latch, letter[6])
        n.set(self.ep.valid, letter[7])
        n.set(self.ep.ready, 1)
        n.settle()

    def sample(self):
        return [self.netlist.getu(self.module._tokens.status)]

    def nontrivial(self, letter, outs):
        return bool((letter[0] and (letter[5] or letter[6])) or (letter[1] and letter[7]))

    # mode B: bursts of counted tokens, then a quiet window with one strobe (latch, sometimes reset) that is long
    # enough for the strobe to cross and the count to come back
    def gen(self, rng, t):
        if t == 0:
            self._plan = []
        if not self._plan:
            burst = [("count", None)] * rng.randint(3, 40)
            strobe = "reset" if rng.random() < 0.2 else "latch"
            self._plan = burst + [("quiet", None)] * 2 + [("strobe", strobe)] + [("quiet", None)] * 40
        kind, arg = self._plan[0]
        ts, tc = rng.choice(((1, 0), (0, 1), (1, 1)))
        rs = la = en = 0
        if kind == "count":
            en = 1 if rng.random() < 0.7 else 0
            self._plan.pop(0)
        elif kind == "strobe":
            if ts:
                rs, la = (1, 0) if arg == "reset" else (0, 1)
                self._plan.pop(0)
        else:
            self._plan.pop(0)
        full = (1 << self.w) - 1
        return (ts, tc, rng.randint(0, 1), rng.randint(0, 1), rng.choice((0, full, rng.randint(0, full))), rs, la, en)

    def monitor(self):
        return MonitorOracle(self.w)


class MonitorOracle:
    """Independent oracle for the partial property: a strobe issued while the endpoint is idle, followed by four
    edges of the monitored clock and then three sys edges without any further activity, has taken effect exactly
    once — after a latch the status equals the number of tokens counted (saturating at 2^w - 1), after a reset a
    following latch reads zero-based counts."""
    def __init__(self, w):
        self.top = (1 << w) - 1
        self.count = 0
        self.win = None         # {"kind", "tc", "ts"}

    def observe(self, letter, outs):
        ts, tc, m1, m2, mc, rs, la, en = letter
        msg = None
        if self.win is not None and self.win["tc"] >= 4 and self.win["ts"] >= 3:
            if self.win["kind"] == "latch" and outs[0] != self.count:
                msg = "latched status %d, but %d tokens were counted (strobe lost, duplicated or count torn)" % (
                    outs[0], self.count)
            self.win = None
        if tc and en:
            self.count = min(self.count + 1, self.top)
            self.win = None     # activity: no expectation
        if ts and (rs or la):
            self.win = {"kind": "reset" if rs else "latch", "tc": 0, "ts": 0} if not (rs and la) and not en else None
            if rs:
                self.count = 0
        elif self.win is not None:
            if self.win["tc"] >= 4:
                self.win["ts"] += 1 if ts else 0
            elif tc:
                self.win["tc"] += 1
        return msg


# ---------------------------------------------------------------------------------------------------------------
# Pulse spacing as a function of the clock ratio (pulsesync_spacing / pulsesync_spacing_tight)

class PulseGapInst(PulseSyncInst):
    """PulseSynchronizer under drift bound R (at most R i-only instants in a row) with pulses at the MINIMUM spacing
    the theorem allows: R + 1 pulse-free i-edges between two pulses."""
    def __init__(self, name, R):
        PulseSyncInst.__init__(self, name)
        self.R = R
        self._clk = None
        self._free = 0

    def gen(self, rng, t):
        if t == 0 or self._clk is None:
            self._clk = BoundedRatioClocks(rng, self.R)
            self._free = self.R + 1
        ti, to = self._clk.next(rng)
        i = 0
        if ti:
            if self._free >= self.R + 1 and rng.random() < 0.8:
                i, self._free = 1, 0
            else:
                self._free += 1
        return (ti, to, rng.randint(0, 1), i)

    def monitor(self):
        return PulseGapMonitor()


class PulseGapMonitor:
    """Exactly-once, model independent: output pulses never exceed input pulses, at most 3 are in flight, and
    three o-edges after the last input pulse every pulse has come out."""
    def __init__(self):
        self.sent = self.got = 0
        self.o_since = 0

    def observe(self, letter, outs):
        ti, to, m, i = letter
        if to and outs[0]:
            self.got += 1
        if self.got > self.sent:
            return "output pulse without input pulse (%d > %d)" % (self.got, self.sent)
        if self.o_since >= 3 and self.got != self.sent:
            return "input pulse lost: %d sent, %d seen, %d o-edges after the last one" % (self.sent, self.got, self.o_since)
        if to:
            self.o_since += 1
        if ti and i:
            self.sent += 1
            self.o_since = 0
        if self.sent > self.got + 3:
            return "more than 3 pulses in flight (%d sent, %d seen)" % (self.sent, self.got)
        return None


# ---------------------------------------------------------------------------------------------------------------
# Per-domain resets (afStepR2) and the crossing with REAL reset synchronisers (crStep, cdc_sync_rst_sim)

class _Rst2Wrap(Module):
    """Plain ClockDomainCrossing (no common reset): each side is reset by its own user domain's reset."""
    def __init__(self, layout, depth, buffered, cd_from, cd_to):
        from litex.soc.interconnect import stream
        self.clock_domains.cd_a = ClockDomain(cd_from)
        self.clock_domains.cd_b = ClockDomain(cd_to)
        self.submodules.cdc = stream.ClockDomainCrossing(layout, cd_from=cd_from, cd_to=cd_to, depth=depth,
                                                         buffered=buffered)
        self.sink, self.source = self.cdc.sink, self.cdc.source
        self.rst_a, self.rst_b = self.cd_a.rst, self.cd_b.rst


class AFifoRst2Inst(AFifoInst):
    """letter : (tw, tr, mw, mr, sink.valid, sink.tok, source.ready, rst_from, rst_to) — the two levels are
       independent and go to the model separately (`afifo_rst2`).  No oracle: one-sided resets break the
       crossing by design (that is why with_common_rst exists); model/code agreement only."""
    FMT = AFifoInst.FMT + ", rst(cd_from), rst(cd_to)"

    def __init__(self, name, layout, k, buffered=False, cd_from="usb", cd_to="eth"):
        w = _Rst2Wrap(layout, 1 << k, buffered, cd_from, cd_to)
        AFifoInst.__init__(self, name, w, k, buffered=buffered, cd_w=cd_from, cd_r=cd_to, layout=layout)
        self.lean_open = ("afifo_rst2_buffered %d" if buffered else "afifo_rst2 %d") % k
        self._left = [0, 0]

    def apply(self, letter):
        self.netlist.set(self.module.rst_a, letter[7])
        self.netlist.set(self.module.rst_b, letter[8])
        AFifoInst.apply(self, letter)

    def nontrivial(self, letter, outs):
        return AFifoInst.nontrivial(self, letter, outs) or bool(letter[7] or letter[8])

    def gen(self, rng, t):
        if t == 0:
            self._left = [0, 0]
        base = AFifoInst.gen(self, rng, t)
        for j in (0, 1):
            if self._left[j] > 0:
                self._left[j] -= 1
            elif rng.random() < 0.01:
                self._left[j] = rng.randint(1, 6)
        return tuple(base) + (1 if self._left[0] else 0, 1 if self._left[1] else 0)

    def monitor(self):
        return _NoMonitor()


class _ArsRec:
    """special_overrides entry for AsyncResetSynchronizer: the vendor implementation of /repo
    (XilinxAsyncResetSynchronizerImpl) is built for the very (cd, async_reset) the crossing passes and kept for
    interpretation; nothing is lowered into the netlist, so `cd.rst` stays an input that the harness drives with
    the interpreted flop output."""
    def __init__(self):
        self.items = []

    def lower(self, dr):
        from litex.build.xilinx.common import XilinxAsyncResetSynchronizerImpl
        self.items.append((dr.cd, dr.async_reset, XilinxAsyncResetSynchronizerImpl(dr.cd, dr.async_reset)))
        return Module()


class _FdpeChain:
    """Interpreter for the FDPE instances of one synchroniser.  Primitive semantics (trusted): Q := 1 while PRE is
    high (asynchronously); otherwise Q := D at a rising edge of C when CE; power-up value INIT."""
    def __init__(self, cd, async_reset, impl):
        from migen.fhdl.specials import Instance
        self.cd, self.async_reset = cd, async_reset
        self.ffs = []
        for sp in impl._fragment.specials:
            if isinstance(sp, Instance):
                if sp.of != "FDPE":
                    raise RuntimeError("reset synchroniser contains a %s instance the interpreter does not know" % sp.of)
                it = {}
                for x in sp.items:
                    it[x.name] = x.value if isinstance(x, Instance.Parameter) else x.expr
                self.ffs.append(it)
        if impl._fragment.comb or impl._fragment.sync:
            raise RuntimeError("reset synchroniser contains logic besides its flops")
        self.q = {id(ff["Q"]): int(getattr(ff["INIT"], "value", ff["INIT"])) for ff in self.ffs}

    def _val(self, ev, e):
        if isinstance(e, int):
            return e
        if id(e) in self.q:
            return self.q[id(e)]
        return ev.eval(e)

    def preset(self, ev):
        for ff in self.ffs:
            if self._val(ev, ff["PRE"]) & 1:
                self.q[id(ff["Q"])] = 1

    def out(self):
        return self.q.get(id(self.cd.rst), 0)

    def edge(self, ev):
        new = {}
        for ff in self.ffs:
            if self._val(ev, ff["PRE"]) & 1:
                new[id(ff["Q"])] = 1
            elif self._val(ev, ff["CE"]) & 1:
                new[id(ff["Q"])] = self._val(ev, ff["D"]) & 1
        self.q.update(new)


class _SyncNetlist(CdcNetlist):
    def __init__(self, module, clocks):
        from migen.genlib.resetsync import AsyncResetSynchronizer
        self.rec = _Recorder()
        self.ars = _ArsRec()
        Netlist.__init__(self, module, clocks=clocks,
                         special_overrides={MultiReg: self.rec, AsyncResetSynchronizer: self.ars})
        self.mr = dict(self.rec.impl)
        self.changing_samples = 0
        self.pending_inputs = []
        regs = set(self.regs)
        self.src_is_reg = all(isinstance(impl.i, Signal) and impl.i in regs for _, impl in self.mr.values())
        self.chains = [_FdpeChain(*it) for it in self.ars.items]
        self._init_q = [dict(c.q) for c in self.chains]

    def snapshot(self):
        return (Netlist.snapshot(self), [dict(c.q) for c in self.chains])

    def restore(self, snap):
        Netlist.restore(self, snap[0])
        for c, q in zip(self.chains, snap[1]):
            c.q = dict(q)


class AFifoSyncRstInst(AFifoRstInst):
    """ClockDomainCrossing(with_common_rst=True) with the REAL wiring of its two AsyncResetSynchronizer specials and
    the REAL vendor implementation (interpreted FDPE flops) in place of the simulator's combinational stand-in.
    letter : (tw, tr, mw, mr, sink.valid, sink.tok, source.ready, rst_from, rst_to)
    outputs: [sink.ready, source.valid, source.tok, reset of the private write domain, ... of the read domain,
              level of the async_reset expression handed to the synchronisers]"""
    FMT = AFifoInst.FMT + ", rst(cd_from), rst(cd_to)"

    def __init__(self, name, layout, k, buffered=False, cd_from="usb", cd_to="eth"):
        _orig = CdcNetlist
        globals()["CdcNetlist"] = _SyncNetlist
        try:
            AFifoRstInst.__init__(self, name, layout, k, buffered=buffered, cd_from=cd_from, cd_to=cd_to,
                                  long_resets=False)
        finally:
            globals()["CdcNetlist"] = _orig
        self.lean_open = ("cdc_sync_buffered %d" if buffered else "cdc_sync %d") % k
        self.qual = [None, None, 1, None, None, None]
        n = self.netlist
        self.ch_w = next((c for c in n.chains if c.cd.name == self.int_w), None)
        self.ch_r = next((c for c in n.chains if c.cd.name == self.int_r), None)
        if self.ch_w is None or self.ch_r is None or len(n.chains) != 2:
            raise RuntimeError("with_common_rst crossing does not put one reset synchroniser on each private domain")
        self._a = 0

    def apply(self, letter):
        n = self.netlist
        n.set(self.module.rst_a, letter[7])
        n.set(self.module.rst_b, letter[8])
        n.settle()
        for c in n.chains:
            c.preset(n.ev)
            n.set(c.cd.rst, c.out())
        self._a = n.ev.eval(self.ch_w.async_reset) & 1
        AFifoInst.apply(self, letter)

    def sample(self):
        # last output: the level of the async_reset expression the crossing really hands to its synchronisers; the
        # model echoes the harness's own rst_from | rst_to, so a wrong reset wiring shows as a disagreement
        return AFifoInst.sample(self) + [self.ch_w.out(), self.ch_r.out(), self._a]

    def clocks(self, letter):
        tw, tr = letter[0], letter[1]
        n = self.netlist
        for c, t in ((self.ch_w, tw), (self.ch_r, tr)):
            if t:
                c.edge(n.ev)
        return AFifoRstInst.clocks(self, letter)

    def model_letter(self, letter):
        return list(letter[:7]) + [1 if (letter[7] or letter[8]) else 0]

    def gen(self, rng, t):
        if t == 0:
            self._left = [0, 0]
        base = AFifoInst.gen(self, rng, t)
        for j in (0, 1):
            if self._left[j] > 0:
                self._left[j] -= 1
            elif rng.random() < 0.006:
                self._left[j] = rng.choice((1, 1, 2, 3, 8))
        return tuple(base) + (1 if self._left[0] else 0, 1 if self._left[1] else 0)

    def monitor(self):
        return _SyncRstScoreboard(self.depth + (1 if self.buffered else 0))


class _SyncRstScoreboard(CrossScoreboard):
    """cdc_sync_rst_sim as an oracle, independent of the model: after a reset pulse that covered at least one edge of
    each clock, tokens accepted once the write domain is released come out exactly once and in order once the read
    domain is released (hand-shakes while the respective domain is in reset are not counted).  After a shorter
    pulse nothing is claimed until the next good one."""
    def __init__(self, capacity):
        CrossScoreboard.__init__(self, capacity)
        self.armed = True           # power-up: flops INIT = 1, FIFO in its initial state
        self.in_pulse = False
        self.cov = [False, False]

    def observe(self, letter, outs):
        tw, tr = letter[0], letter[1]
        a = letter[7] or letter[8]
        rst_w, rst_r = outs[3], outs[4]
        if a:
            if not self.in_pulse:
                self.in_pulse, self.cov = True, [False, False]
            self.cov[0] |= bool(tw)
            self.cov[1] |= bool(tr)
            self.flush()
            return None
        if self.in_pulse:
            self.in_pulse = False
            self.armed = self.cov[0] and self.cov[1]
            self.flush()
        if not self.armed:
            return None
        l = list(letter[:7])
        o = list(outs[:3])
        if rst_w:
            l[4] = 0
        if rst_r:
            l[6] = 0
            o[1] = 0
        return CrossScoreboard.observe(self, tuple(l), o)


# ---------------------------------------------------------------------------------------------------------------
# USERS of the crossings: which side lives in which domain (round 5: C05-r5m2 class)

def domain_audit(netlist, module):
    """Structural oracle on the lowered fragment: a register written by the sync logic of domain A may be read by
    the sync logic of domain B != A only (a) by the first flop of a MultiReg whose input it is, or (b) if it is a
    storage word of a Migen AsyncFIFO (protected by the Gray-pointer protocol).  Reads are followed through the
    combinational logic.  Returns a list of human-readable offences (empty on a correct design)."""
    from migen.fhdl.tools import list_targets, list_signals
    from migen.genlib import fifo as mfifo
    from migen.fhdl.specials import Memory
    dom = {}
    offences = []
    for cd, stmts in netlist.sync.items():
        for s in list_targets(stmts):
            if s in dom and dom[s] != cd:
                offences.append("signal %r is written by the sync logic of both %s and %s" % (s, dom[s], cd))
            dom[s] = cd
    # combinational dependencies
    dep = {}
    for st in netlist.comb:
        tg = list_targets(st)
        ins = list_signals(st) - tg
        for t in tg:
            dep.setdefault(t, set()).update(ins)
    memo = {}

    def sources(sig):
        """registers a signal depends on through comb logic"""
        if sig in memo:
            return memo[sig]
        memo[sig] = set()           # cut combinational cycles
        out = set()
        if sig in dom:
            out.add(sig)
        for d in dep.get(sig, ()):
            out |= sources(d)
        memo[sig] = out
        return out
    # whitelist
    first_flop_src = {}
    for sid, (sp, impl) in getattr(netlist, "mr", {}).items():
        first_flop_src[impl.regs[0]] = list_signals(impl.i) if not isinstance(impl.i, Signal) else {impl.i}
    storage = set()
    todo, seen = [module], set()
    while todo:
        m = todo.pop()
        if id(m) in seen:
            continue
        seen.add(id(m))
        todo += [sub for _, sub in getattr(m, "_submodules", [])]
        if isinstance(m, mfifo.AsyncFIFO):
            for sp in m._fragment.specials:
                if isinstance(sp, Memory) and sp in netlist.ev.replaced_memories:
                    storage |= set(netlist.ev.replaced_memories[sp])
    reported = set()
    for cd, stmts in netlist.sync.items():
        for st in stmts:
            tg = list_targets(st)
            reads = list_signals(st) - tg
            for r in reads:
                for src in sources(r):
                    if dom[src] == cd or src in storage:
                        continue
                    if tg and all(t in first_flop_src and any(src in sources(i) for i in first_flop_src[t]) for t in tg):
                        continue
                    key = (id(src), cd)
                    if key not in reported:
                        reported.add(key)
                        offences.append("register %r (domain %s) is read by sync logic of domain %s (targets %s) "
                                        "without a synchroniser" % (src, dom[src], cd,
                                                                   ", ".join(sorted(repr(t) for t in tg))[:120]))
    return offences, dom, sources


class _HarnessPHY(Module):
    """RS232PHY-like stand-in whose registers live in ITS OWN "sys" domain (to be renamed by the user of the PHY):
    received bytes are shown for one cycle of the PHY clock without back-pressure, transmitted bytes are accepted
    with a one-cycle ready pulse and logged."""
    def __init__(self):
        from litex.soc.interconnect import stream
        self.sink = stream.Endpoint([("data", 8)])
        self.source = stream.Endpoint([("data", 8)])
        self.rx_valid, self.rx_data, self.tx_take = Signal(), Signal(8), Signal()
        self.tx_valid, self.tx_data = Signal(), Signal(8)
        self.sync += [
            self.source.valid.eq(self.rx_valid),
            self.source.data.eq(self.rx_data),
            self.sink.ready.eq(0),
            If(self.sink.valid & ~self.sink.ready & self.tx_take, self.sink.ready.eq(1)),
            self.tx_valid.eq(self.sink.valid & self.sink.ready),
            If(self.sink.valid & self.sink.ready, self.tx_data.eq(self.sink.data)),
        ]


class UartBoneInst:
    """uart.UARTBone(phy, clk_freq, cd="uart") built through its real constructor around `_HarnessPHY`; the two
    clocks are driven with unrelated edge schedules.
    letter : (t_sys, t_cd, resolution mask (all synchronisers), rx_valid, rx_data, tx_take, wishbone dat_r)
             rx_valid/rx_data/tx_take are inputs of the cd domain (the generator changes them only after a cd edge),
             dat_r of the sys domain; the bus acknowledges combinationally.
    outputs: [wb.stb&cyc, wb.we, wb.adr, wb.dat_w, phy tx_valid, phy tx_data]"""
    FMT = "t_sys, t_cd, resolution mask, rx_valid, rx_data, tx_take, wishbone dat_r"
    lean_open = None

    def __init__(self, name, cd="uart"):
        from litex.soc.cores import uart
        self.name, self.cd = name, cd
        self.phy = _HarnessPHY()
        self.module = m = uart.UARTBone(self.phy, clk_freq=1e6, cd=cd)
        self.netlist = CdcNetlist(m, clocks=tuple(dict.fromkeys(("sys", cd))))
        self.netlist.set(m.wishbone.ack, 1)
        self.qual = [None] * 6
        self._clk = None

    def clocks(self, letter):
        ts, tc, mask = letter[:3]
        cds = tuple(dict.fromkeys(c for c, t in (("sys", ts), (self.cd, tc)) if t))
        return Tick((cds, {sid: mask for sid in self.netlist.mr}))

    def apply(self, letter):
        n, p, w = self.netlist, self.phy, self.module.wishbone
        n.set(p.rx_valid, letter[3])
        n.set(p.rx_data, letter[4])
        n.set(p.tx_take, letter[5])
        n.set(w.dat_r, letter[6])
        n.set(w.ack, 1)
        n.settle()

    def sample(self):
        n, p, w = self.netlist, self.phy, self.module.wishbone
        return [n.getu(w.stb) & n.getu(w.cyc), n.getu(w.we), n.getu(w.adr), n.getu(w.dat_w),
                n.getu(p.tx_valid), n.getu(p.tx_data)]

    def nontrivial(self, letter, outs):
        return bool(outs[0] or outs[4] or letter[3])

    def gen(self, rng, t):
        from litex.soc.cores import uart
        if t == 0 or self._clk is None:
            self._clk = ClockPattern(rng, None)
            self._bytes, self._gap, self._cur = [], 0, (0, 0)
            self._take, self._datr = 0, rng.getrandbits(32)
        ts, tc = self._clk.next(rng, t)
        if self.cd == "sys":
            ts = tc = 1
        letter = (ts, tc, rng.choice((0, 0xff, rng.randint(0, 0xff))), self._cur[0], self._cur[1], self._take,
                  self._datr)
        if tc:                                  # the PHY-side environment moves at cd edges
            if not self._bytes and self._gap <= 0 and rng.random() < 0.05:
                be = lambda v: [(v >> (8 * i)) & 0xff for i in (3, 2, 1, 0)]
                n = rng.randint(1, 2)
                adr = rng.getrandbits(24)
                if rng.random() < 0.5:
                    self._bytes = [uart.CMD_WRITE_BURST_INCR, n] + be(adr) + sum((be(rng.getrandbits(32)) for _ in range(n)), [])
                else:
                    self._bytes = [uart.CMD_READ_BURST_INCR, n] + be(adr)
                self._gap = 0
            if self._bytes and self._gap <= 0:
                self._cur = (1, self._bytes.pop(0))
                self._gap = rng.randint(10, 24)     # as on a serial line: bytes are far apart in PHY cycles
                if not self._bytes:
                    self._gap = 260                 # let the command finish (read answers take their time)
            else:
                self._cur = (0, self._cur[1])
                self._gap -= 1
            self._take = 1 if rng.random() < 0.7 else 0
        if ts:
            self._datr = rng.getrandbits(32)
        return letter

    def monitor(self):
        return UartBoneMonitor()


class UartBoneMonitor:
    """End-to-end oracle, independent of any model: the bytes the PHY received (in the PHY clock domain) are parsed
    into UARTBone commands; the Wishbone operations seen on the sys side must be exactly these, in order, and the
    bytes handed to the PHY for transmission must be exactly the big-endian read data, in order — nothing lost,
    duplicated, reordered or altered by the two crossings.  A completed command must have been executed 200 edges
    of each clock later."""
    def __init__(self):
        self.rx = []            # bytes of the command being received
        self.ops = []           # expected wishbone operations (we, adr, dat or None)
        self.tx = []            # expected tx bytes
        self.idle = [0, 0]      # edges of each clock since the expectation queues last changed

    def _parse(self):
        """streaming: a write is issued word by word as soon as its four data bytes are in"""
        from litex.soc.cores import uart
        b = self.rx
        if len(b) < 6:
            return
        cmd, n = b[0], b[1]
        adr = int.from_bytes(bytes(b[2:6]), "big")
        incr = cmd in (uart.CMD_WRITE_BURST_INCR, uart.CMD_READ_BURST_INCR)
        if cmd in (uart.CMD_WRITE_BURST_INCR, uart.CMD_WRITE_BURST_FIXED):
            if len(b) > 6 and (len(b) - 6) % 4 == 0:
                i = (len(b) - 6) // 4 - 1
                self.ops.append((1, (adr + (i if incr else 0)) & 0xffffffff,
                                 int.from_bytes(bytes(b[6 + 4 * i:10 + 4 * i]), "big")))
                self.idle = [0, 0]
                if i == n - 1:
                    self.rx = []
        elif len(b) == 6:
            for i in range(n):
                self.ops.append((0, (adr + (i if incr else 0)) & 0xffffffff, None))
            self.rx = []
            self.idle = [0, 0]

    def observe(self, letter, outs):
        ts, tc, mask, rxv, rxd, take, datr = letter
        stb, we, adr, datw, txv, txd = outs
        msg = None
        if ts and stb:
            if not self.ops:
                msg = "wishbone %s of address 0x%x although no command is pending (byte duplicated or invented)" % (
                    "write" if we else "read", adr)
            else:
                e = self.ops.pop(0)
                got = (we, adr, datw if we else None)
                if got != e:
                    msg = "wishbone operation %r, the received bytes ask for %r (byte lost/duplicated/altered)" % (got, e)
                elif not we:
                    self.tx += [(datr >> (8 * i)) & 0xff for i in (3, 2, 1, 0)]
            self.idle = [0, 0]
        if msg is None and tc and txv:
            if not self.tx:
                msg = "byte 0x%02x transmitted although no read data is pending" % txd
            elif self.tx[0] != txd:
                msg = "transmitted byte 0x%02x, expected 0x%02x (read data lost/duplicated/reordered)" % (txd, self.tx[0])
            else:
                self.tx.pop(0)
            self.idle = [0, 0]
        if tc and rxv:
            self.rx.append(rxd)
            self._parse()
            self.idle = [0, 0]
        if ts:
            self.idle[0] += 1
        if tc:
            self.idle[1] += 1
        if msg is None and (self.ops or self.tx) and not self.rx and min(self.idle) > 200:
            msg = "command received completely but not executed after 200 edges of each clock (%d operations, %d " \
                  "answer bytes outstanding): a byte was lost in a crossing" % (len(self.ops), len(self.tx))
        return msg
