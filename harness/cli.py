import os, sys, argparse, json, subprocess
HERE = os.path.dirname(os.path.abspath(__file__))
VERIF = os.path.dirname(HERE)
sys.path.insert(0, HERE)


def setup():
    """Build every Lean target named in MANIFEST.json (driver executables and property modules).
    A property whose Lean files do not build must not take the other checks down with it: on failure the
    targets are built property by property, failures are printed, and setup still succeeds - the failing
    property's own check then reports the broken obligation."""
    man = json.load(open(os.path.join(VERIF, "MANIFEST.json")))
    props = [c["property_id"] for c in man["checks"]]
    import runner
    for p in props:
        try:
            runner.write_audit(p, runner.prop_theorems(p))
        except Exception as e:
            print("setup: cannot list theorems of %s: %r" % (p, e))
    targets = []
    for p in props:
        targets += ["LitexProps." + p, "drv_" + p.lower()]
    rc, out = runner.lake_build(targets)
    print(out[-2000:])
    if rc == 0:
        return 0
    print("setup: combined build failed; building property by property")
    failed = []
    for p in props:
        rc, out = runner.lake_build(["LitexProps." + p, "drv_" + p.lower()])
        if rc != 0:
            failed.append(p)
            print("setup: %s does not build:\n%s" % (p, out[-1500:]))
    print("setup: built %d of %d properties%s" % (len(props) - len(failed), len(props),
                                                   ("; NOT built: " + " ".join(failed)) if failed else ""))
    return 0 if len(failed) < len(props) else 1


def main():
    ap = argparse.ArgumentParser()
    ap.add_argument("prop", nargs="?")
    ap.add_argument("--tier", default=os.environ.get("VERIF_TIER", "quick"))
    ap.add_argument("--replay")
    ap.add_argument("--setup", action="store_true")
    a = ap.parse_args()
    if a.setup:
        sys.exit(setup())
    seed = int(os.environ.get("VERIF_SEED", "0") or 0)
    import runner
    sys.exit(runner.main_check(a.prop.upper(), a.tier, seed, a.replay))


main()
