import os, sys, argparse, json, subprocess
HERE = os.path.dirname(os.path.abspath(__file__))
VERIF = os.path.dirname(HERE)
sys.path.insert(0, HERE)


def setup():
    """Build every Lean target named in MANIFEST.json (driver executables and property modules)."""
    man = json.load(open(os.path.join(VERIF, "MANIFEST.json")))
    props = [c["property_id"] for c in man["checks"]]
    targets = []
    for p in props:
        targets += ["LitexProps." + p, "drv_" + p.lower()]
    import runner
    for p in props:
        runner.write_audit(p, runner.prop_theorems(p))
    rc, out = runner.lake_build(targets)
    print(out[-3000:])
    return rc


def main():
    ap = argparse.ArgumentParser()
    ap.add_argument("prop", nargs="?")
    ap.add_argument("--tier", default=os.environ.get("VERIF_TIER", "quick"))
    ap.add_argument("--replay")
    ap.add_argument("--setup", action="store_true")
    a = ap.parse_args()
    if a.setup:
        sys.exit(setup())
    seed = int(os.environ.get("VERIF_SEED", "0") or 0)
    import runner
    sys.exit(runner.main_check(a.prop.upper(), a.tier, seed, a.replay))


main()
