"""C20 support library: device-table extraction/regeneration, real-code runners, exact-rational oracles.

Everything numeric travels as exact rationals: a Python float x is transmitted as fractions.Fraction(x)."""
import os, sys, io, math, contextlib, importlib
from fractions import Fraction as F
import c20emit as E

VERIF = os.path.dirname(os.path.dirname(os.path.abspath(__file__)))
GEN_PATH = os.path.join(VERIF, "lean", "LitexModel", "Generated", "ClockRanges.lean")

SLACK = F(1, 2 ** 40)          # float-borderline classification (relative)


def fr(x):
    return F(x)


def qs(x):
    x = F(x)
    return "%d %d" % (x.numerator, x.denominator)


# ------------------------------------------------------------------------------------------------------------------
# Real classes
# ------------------------------------------------------------------------------------------------------------------

XILINX = [  # (class name, module, primitive kind, instance primitive)
    ("S6PLL", "xilinx_s6", "pll", "PLL_ADV"),
    ("S6DCM", "xilinx_s6", "s6dcm", "DCM_CLKGEN"),
    ("S7PLL", "xilinx_s7", "pll", "PLLE2_ADV"),
    ("S7MMCM", "xilinx_s7", "mmcm", "MMCME2_ADV"),
    ("USPLL", "xilinx_us", "pll", "PLLE2_ADV"),
    ("USMMCM", "xilinx_us", "mmcm", "MMCME2_ADV"),
    ("USPPLL", "xilinx_usp", "pll", "PLLE2_ADV"),
    ("USPMMCM", "xilinx_usp", "mmcm", "MMCME4_ADV"),
]
XILINX_GRADES = (-1, -2, -3)

INTEL = [
    ("CycloneIVPLL", "intel_cyclone4", ["-6", "-7", "-8", "-8L", "-9L"]),
    ("Cyclone10LPPLL", "intel_cyclone10", ["-C6", "-C8", "-I7", "-A7", "-I8"]),
    ("CycloneVPLL", "intel_cyclone5", ["-C6", "-C7", "-I7", "-C8", "-A7"]),
    ("Max10PLL", "intel_max10", ["-6", "-7", "-8"]),
    ("StratixVPLL", "intel_stratix5", ["-C1", "-C2", "-C2L", "-I2", "-I2L", "-C3", "-I3", "-I3L", "-C4", "-I4"]),
]

GOWIN = [  # (table name, class, module, devicename, device)
    ("GW1NS:C7/I6", "GW1NPLL", "gowin_gw1n", "GW1NS-4C", "GW1NSR-LV4CQN48PC7/I6"),
    ("GW1NS:C5/I4", "GW1NPLL", "gowin_gw1n", "GW1NS-4", "GW1NS-LV4CQN48C5/I4"),
    ("GW1N-1S", "GW1NPLL", "gowin_gw1n", "GW1N-1S", "GW1N-1S-LV1CS30C6/I5"),
    ("GW1N", "GW1NPLL", "gowin_gw1n", "GW1N-1", "GW1N-LV1QN48C6/I5"),
    ("GW1NR", "GW1NPLL", "gowin_gw1n", "GW1NR-9C", "GW1NR-LV9QN88PC6/I5"),
    ("GW2A", "GW2APLL", "gowin_gw2a", "GW2A-18C", "GW2A-LV18PG256C8/I7"),
    ("GW2AR", "GW2APLL", "gowin_gw2a", "GW2AR-18C", "GW2AR-LV18QN88C8/I7"),
]


GW5A = [("GW5A", "GW5A-25", "GW5A-LV25MG121NES"), ("GW5AT", "GW5AT-60", "GW5AT-LV60PG484AC1/I0"),
        ("GW5AST", "GW5AST-138", "GW5AST-LV138FPG676AES")]


def clock_mod(name):
    return importlib.import_module("litex.soc.cores.clock." + name)


def quiet():
    return contextlib.redirect_stdout(io.StringIO())


def mk_xilinx(cls, grade):
    mod = next(m for c, m, _, _ in XILINX if c == cls)
    return getattr(clock_mod(mod), cls)(speedgrade=grade)


def mk_intel(cls, grade):
    mod = next(m for c, m, _ in INTEL if c == cls)
    return getattr(clock_mod(mod), cls)(speedgrade=grade)


def mk_gowin(name):
    _, cls, mod, devname, dev = next(g for g in GOWIN if g[0] == name)
    return getattr(clock_mod(mod), cls)(devname, dev)


# ------------------------------------------------------------------------------------------------------------------
# Device tables (regenerated into Generated/ClockRanges.lean)
# ------------------------------------------------------------------------------------------------------------------

def divrange(t):
    """(start, stop[, step]) -> (a, b, s, k) with start = a/k, stop = b/k, step = s/k."""
    t = tuple(t) + ((1,) if len(t) == 2 else ())
    fs = [F(x) for x in t]
    k = 1
    for f in fs:
        k = k * f.denominator // math.gcd(k, f.denominator)
    a, b, s = [int(f * k) for f in fs]
    return (a, b, s, k)


USP_EIGHTHS = (16, 1025, 1, 8)      # `[x / 8 for x in range(16, 1025)]` inside USPMMCM.compute_config (reviewed tree)


def _fn_ast(fn):
    import ast, inspect, textwrap
    return ast.parse(textwrap.dedent(inspect.getsource(fn)))


def usp_code_ranges():
    """(multiplier list, CLKOUT0 divider list) of USPMMCM.compute_config as written in the tree under test: the two
    `[x / K for x in range(A, B)]` comprehensions in source order -> (A, B, 1, K)."""
    import ast
    from litex.soc.cores.clock.xilinx_usp import USPMMCM
    found = []
    for node in ast.walk(_fn_ast(USPMMCM.compute_config)):
        if isinstance(node, ast.ListComp) and isinstance(node.elt, ast.BinOp) and isinstance(node.elt.op, ast.Div) and \
                len(node.generators) == 1 and isinstance(node.generators[0].iter, ast.Call) and \
                getattr(node.generators[0].iter.func, "id", "") == "range":
            try:
                args = [ast.literal_eval(a) for a in node.generators[0].iter.args]
                k = ast.literal_eval(node.elt.right)
            except ValueError:
                continue
            if len(args) == 2 and isinstance(k, int):
                found.append((node.lineno, (args[0], args[1], 1, k)))
    found.sort()
    if len(found) != 2:
        raise RuntimeError("USPMMCM.compute_config: expected two x/K range comprehensions, found %d" % len(found))
    return found[0][1], found[1][1]


def code_literals():
    """The literal search space written INSIDE the search functions (range(...) calls with constant arguments and lists of
    numbers): pinned with the tables, so that a shortened/extended literal range shows up as a changed table."""
    import ast
    fns = {}
    def add(mod, cls, meth):
        try:
            fns["%s.%s" % (cls, meth)] = getattr(getattr(clock_mod(mod), cls), meth)
        except AttributeError:
            fns["%s.%s" % (cls, meth)] = None
    for mod, cls, meths in (("xilinx_common", "XilinxClocking", ["compute_config"]), ("xilinx_usp", "USPMMCM", ["compute_config"]),
                            ("lattice_ecp5", "ECP5PLL", ["compute_config", "do_finalize"]),
                            ("lattice_ice40", "iCE40PLL", ["compute_config", "do_finalize"]),
                            ("lattice_nx", "NXPLL", ["compute_config"]), ("lattice_nx", "NXOSCA", ["compute_divisor"]),
                            ("intel_common", "IntelClocking", ["compute_config"]),
                            ("gowin_gw1n", "GW1NPLL", ["compute_config"]), ("gowin_gw1n", "GW1NOSC", ["__init__"]),
                            ("gowin_gw5a", "GW5APLL", ["compute_config"]), ("efinix", "EFINIXPLL", ["compute_config"]),
                            ("efinix", "TRIONPLL", ["get_c_range"]), ("colognechip", "GateMatePLL", ["do_finalize", "create_clkout"]),
                            ("common", None, ["clkdiv_range"])):
        for m in meths:
            if cls is None:
                fns[m] = getattr(clock_mod(mod), m, None)
            else:
                add(mod, cls, m)
    out = {}
    for name, fn in sorted(fns.items()):
        if fn is None:
            out[name] = ["<missing>"]
            continue
        lits = []
        for node in ast.walk(_fn_ast(fn)):
            if isinstance(node, ast.Call) and getattr(node.func, "id", "") == "range" and \
                    all(isinstance(a, (ast.Constant, ast.UnaryOp)) for a in node.args):
                lits.append((node.lineno, ast.unparse(node)))
            elif isinstance(node, (ast.List, ast.Tuple)) and len(node.elts) >= 2 and \
                    all(isinstance(e, ast.Constant) and isinstance(e.value, (int, float)) for e in node.elts):
                lits.append((node.lineno, ast.unparse(node)))
        out[name] = [t for _, t in sorted(lits)]
    return out


def tables():
    T = {"xilinx": [], "intel": [], "gowin": [], "literals": code_literals()}
    usp_mults, usp_out0 = usp_code_ranges()
    for cls, mod, prim, _ in XILINX:
        for g in XILINX_GRADES:
            o = mk_xilinx(cls, g)
            usp = cls == "USPMMCM"
            spec = []
            for n in range(o.nclkouts_max):
                r = getattr(o, "clkout%d_divide_range" % n, None)
                spec.append(divrange(r) if r is not None else None)
            while spec and spec[-1] is None:
                spec.pop()
            T["xilinx"].append({
                "name": "%s:%d" % (cls, g), "prim": prim,
                "divclk": tuple(o.divclk_divide_range),
                "mults": usp_mults if usp else divrange(o.clkfbout_mult_frange),
                "vco": tuple(F(x) for x in o.vco_freq_range),
                "common": divrange(o.clkout_divide_range),
                "specific": spec,
                "out0": usp_out0 if usp else None,
                "usp": usp, "nmax": o.nclkouts_max})
    from litex.soc.cores.clock.lattice_ecp5 import ECP5PLL
    T["ecp5"] = {"clki": ECP5PLL.clki_div_range, "clkfb": ECP5PLL.clkfb_div_range, "clko": ECP5PLL.clko_div_range,
                 "pfd": tuple(map(F, ECP5PLL.pfd_freq_range)), "vco": tuple(map(F, ECP5PLL.vco_freq_range)),
                 "clki_freq": tuple(map(F, ECP5PLL.clki_freq_range)), "clko_freq": tuple(map(F, ECP5PLL.clko_freq_range)),
                 "nmax": ECP5PLL.nclkouts_max}
    from litex.soc.cores.clock.lattice_ice40 import iCE40PLL
    T["ice40"] = {"divr": iCE40PLL.divr_range, "divf": iCE40PLL.divf_range, "divq": iCE40PLL.divq_range,
                  "vco": tuple(map(F, iCE40PLL.vco_freq_range)),
                  "clki_freq": tuple(map(F, iCE40PLL.clki_freq_range)), "clko_freq": tuple(map(F, iCE40PLL.clko_freq_range))}
    from litex.soc.cores.clock.lattice_nx import NXPLL, NXOSCA
    T["nx"] = {"clki": NXPLL.clki_div_range, "clkfb": NXPLL.clkfb_div_range, "clko": NXPLL.clko_div_range,
               "pfd": tuple(map(F, NXPLL.vco_in_freq_range)), "vco": tuple(map(F, NXPLL.vco_out_freq_range)),
               "clki_freq": tuple(map(F, NXPLL.clki_freq_range)), "clko_freq": tuple(map(F, NXPLL.clko_freq_range)),
               "nmax": NXPLL.nclkouts_max}
    T["nxosc"] = {"div": NXOSCA.clk_hf_div_range, "hf": F(NXOSCA.clk_hf_freq),
                  "freq": tuple(map(F, NXOSCA.clk_hf_freq_range))}
    for cls, mod, grades in INTEL:
        for g in grades:
            o = mk_intel(cls, g)
            T["intel"].append({"name": "%s:%s" % (cls, g), "n": tuple(o.n_div_range), "m": tuple(o.m_div_range),
                               "c": divrange(o.c_div_range), "pfd": tuple(map(F, o.clkin_pfd_freq_range)),
                               "vco": tuple(map(F, o.vco_freq_range)), "nmax": o.nclkouts_max})
    for name, cls, mod, devname, dev in GOWIN:
        o = mk_gowin(name)
        T["gowin"].append({"name": name, "pfd": tuple(map(F, o.pfd_freq_range)), "vco": tuple(map(F, o.vco_freq_range))})
    from litex.soc.cores.clock.gowin_gw1n import GW1NOSC
    T["gwosc"] = {"div": GW1NOSC.osc_div_range}
    from litex.soc.cores.clock.gowin_gw5a import GW5APLL
    T["gw5a"] = []
    for name, devname, dev in GW5A:
        o = GW5APLL(devname, dev)
        T["gw5a"].append({"name": name, "pfd": tuple(map(F, o.pfd_freq_range)), "vco": tuple(map(F, o.vco_freq_range)),
                          "nmax": o.nclkouts_max})
    from litex.soc.cores.clock.efinix import TRIONPLL
    T["trion"] = {"vco": tuple(map(F, TRIONPLL.get_vco_freq_range(None))), "pfd": tuple(map(F, TRIONPLL.get_pfd_freq_range(None))),
                  "pll": tuple(map(F, TRIONPLL.get_pll_freq_range(None))), "nmax": TRIONPLL.nclkouts_max,
                  "c_phase": {str(p): list(TRIONPLL.get_c_range(None, p)) for p in (45, 90, 135, 180, 270)},
                  "c0": [TRIONPLL.get_c_range(None, 0)[0], TRIONPLL.get_c_range(None, 0)[-1], len(TRIONPLL.get_c_range(None, 0))]}
    return T


def lq(x):
    x = F(x)
    return "⟨%d, %d⟩" % (x.numerator, x.denominator)


def ldr(r):
    return "⟨%d, %d, %d, %d⟩" % tuple(r)


def gen_lean(T):
    L = []
    A = L.append
    A("import LitexModel.Clock.Xilinx")
    A("import LitexModel.Clock.Lattice")
    A("import LitexModel.Clock.Intel")
    A("import LitexModel.Clock.Gowin")
    A("/- GENERATED by harness/props/c20.py regen() from the clocking classes of litex/soc/cores/clock/*.py — do not edit.")
    A("   Device range tables (divider / multiplier ranges, PFD and VCO windows) per class and speed grade / device. -/")
    A("namespace Litex.Clock.Gen")
    A("")
    A("def xilinx : List (String × XPrim × XDev) := [")
    rows = []
    for d in T["xilinx"]:
        spec = "[" + ", ".join("some " + ldr(r) if r is not None else "none" for r in d["specific"]) + "]"
        rows.append('  ("%s", .%s, { divclkLo := %d, divclkHi := %d, mults := %s, vcoMin := %s, vcoMax := %s, '
                    'common := %s, specific := %s, out0 := %s, usp := %s, nmax := %d })' % (
                        d["name"], d["prim"], d["divclk"][0], d["divclk"][1], ldr(d["mults"]), lq(d["vco"][0]),
                        lq(d["vco"][1]), ldr(d["common"]), spec,
                        "some " + ldr(d["out0"]) if d["out0"] else "none", "true" if d["usp"] else "false", d["nmax"]))
    A(",\n".join(rows) + "]")
    A("")
    e = T["ecp5"]
    A("def ecp5 : EDev := { clkiLo := %d, clkiHi := %d, clkfbLo := %d, clkfbHi := %d, clkoLo := %d, clkoHi := %d, " % (
        e["clki"] + e["clkfb"] + e["clko"]) +
      "pfdMin := %s, pfdMax := %s, vcoMin := %s, vcoMax := %s, nmax := %d }" % (
        lq(e["pfd"][0]), lq(e["pfd"][1]), lq(e["vco"][0]), lq(e["vco"][1]), e["nmax"]))
    A("")
    i = T["ice40"]
    A("def ice40 : IDev := { divrLo := %d, divrHi := %d, divfLo := %d, divfHi := %d, divqLo := %d, divqHi := %d, " % (
        i["divr"] + i["divf"] + i["divq"]) +
      "vcoMin := %s, vcoMax := %s }" % (lq(i["vco"][0]), lq(i["vco"][1])))
    A("")
    n = T["nx"]
    A("def nx : NDev := { clkiLo := %d, clkiHi := %d, clkfbLo := %d, clkfbHi := %d, clkoLo := %d, clkoHi := %d, " % (
        n["clki"] + n["clkfb"] + n["clko"]) +
      "pfdMin := %s, pfdMax := %s, vcoMin := %s, vcoMax := %s, nmax := %d }" % (
        lq(n["pfd"][0]), lq(n["pfd"][1]), lq(n["vco"][0]), lq(n["vco"][1]), n["nmax"]))
    A("")
    o = T["nxosc"]
    A("def nxoscLo : Nat := %d" % o["div"][0])
    A("def nxoscHi : Nat := %d" % o["div"][1])
    A("def nxoscHf : Q := %s" % lq(o["hf"]))
    A("")
    A("def intel : List (String × ADev) := [")
    rows = []
    for d in T["intel"]:
        rows.append('  ("%s", { nLo := %d, nHi := %d, mLo := %d, mHi := %d, cs := %s, pfdMin := %s, pfdMax := %s, '
                    'vcoMin := %s, vcoMax := %s, nmax := %d })' % (
                        d["name"], d["n"][0], d["n"][1], d["m"][0], d["m"][1], ldr(d["c"]), lq(d["pfd"][0]),
                        lq(d["pfd"][1]), lq(d["vco"][0]), lq(d["vco"][1]), d["nmax"]))
    A(",\n".join(rows) + "]")
    A("")
    A("def gowin : List (String × GDev) := [")
    rows = []
    for d in T["gowin"]:
        rows.append('  ("%s", { pfdMin := %s, pfdMax := %s, vcoMin := %s, vcoMax := %s })' % (
            d["name"], lq(d["pfd"][0]), lq(d["pfd"][1]), lq(d["vco"][0]), lq(d["vco"][1])))
    A(",\n".join(rows) + "]")
    A("")
    A("def gwoscLo : Nat := %d" % T["gwosc"]["div"][0])
    A("def gwoscHi : Nat := %d" % T["gwosc"]["div"][1])
    A("")
    A("end Litex.Clock.Gen")
    return "\n".join(L) + "\n"


GEN_PATH_B = os.path.join(VERIF, "lean", "LitexModel", "Generated", "ClockRangesB.lean")


def gen_lean_b(T):
    """GW5A and Efinix Trion tables (session 2)."""
    L = []
    A = L.append
    A("import LitexModel.Clock.Gw5a")
    A("import LitexModel.Clock.Efinix")
    A("/- GENERATED by harness/props/c20.py regen() from GW5APLL (gowin_gw5a.py) and TRIONPLL (efinix.py) — do not edit. -/")
    A("namespace Litex.Clock.Gen")
    A("")
    A("def gw5a : List (String × WDev) := [")
    A(",\n".join('  ("%s", { pfdMin := %s, pfdMax := %s, vcoMin := %s, vcoMax := %s, nmax := %d })' % (
        d["name"], lq(d["pfd"][0]), lq(d["pfd"][1]), lq(d["vco"][0]), lq(d["vco"][1]), d["nmax"]) for d in T["gw5a"]) + "]")
    A("")
    t = T["trion"]
    cph = ", ".join("(%s, [%s])" % (k, ", ".join(str(x) for x in v)) for k, v in sorted(t["c_phase"].items(), key=lambda kv: int(kv[0])))
    A("def trion : TDev := { vcoMin := %s, vcoMax := %s, pfdMin := %s, pfdMax := %s, pllMin := %s, pllMax := %s, "
      "c0Lo := %d, c0Hi := %d, cPhase := [%s], nmax := %d }" % (
          lq(t["vco"][0]), lq(t["vco"][1]), lq(t["pfd"][0]), lq(t["pfd"][1]), lq(t["pll"][0]), lq(t["pll"][1]),
          t["c0"][0], t["c0"][1] + 1, cph, t["nmax"]))
    A("")
    A("end Litex.Clock.Gen")
    return "\n".join(L) + "\n"


def regen():
    T = tables()
    changed = False
    for path, text in ((GEN_PATH, gen_lean(T)), (GEN_PATH_B, gen_lean_b(T))):
        old = open(path).read() if os.path.exists(path) else None
        if old != text:
            os.makedirs(os.path.dirname(path), exist_ok=True)
            with open(path, "w") as f:
                f.write(text)
            changed = True
    return changed


# ------------------------------------------------------------------------------------------------------------------
# Generic helpers for the real side
# ------------------------------------------------------------------------------------------------------------------

def fast_tracer():
    """Signal/ClockDomain names are irrelevant to C20 and the dis-based name tracer of envshim costs ~5 ms per Signal
    (80 % of a request's run time): switch name extraction off in this process (harness side only)."""
    import migen.fhdl.tracer as tracer
    tracer.get_var_name = lambda frame: None


def status_of(exc):
    if isinstance(exc, ValueError):
        return "rejected"
    if isinstance(exc, AssertionError):
        return "assertion"
    return "crash"


def instance_params(module, of_names):
    """Numeric/str parameters of the (single) Instance named in `of_names` found in the module's specials."""
    from migen.fhdl.specials import Instance
    from migen.fhdl.structure import Constant
    out = None
    for s in frag_of(module).specials:
        if isinstance(s, Instance) and s.of in of_names:
            assert out is None, "more than one primitive instance"
            out = {}
            for it in s.items:
                if isinstance(it, Instance.Parameter):
                    v = it.value
                    out[it.name] = v.value if isinstance(v, Constant) else v
    return out


def finalize_capture(obj):
    """Run obj.finalize() once, capturing the dict returned by its compute_config()."""
    cap = []
    orig = obj.compute_config

    def wrapped(*a, **k):
        c = orig(*a, **k)
        cap.append(c)
        return c
    obj.compute_config = wrapped
    with quiet():
        obj.finalize()
    return cap[0] if cap else None


def frag_of(module):
    """get_fragment() may be called once per module: cache it."""
    fr_ = getattr(module, "_c20_fragment", None)
    if fr_ is None:
        fr_ = module.get_fragment()
        object.__setattr__(module, "_c20_fragment", fr_)
    return fr_


def instance_outputs(module, of_names):
    """{port name: connected expression} of the output ports of the primitive instance."""
    from migen.fhdl.specials import Instance
    for sp in frag_of(module).specials:
        if isinstance(sp, Instance) and sp.of in of_names:
            return {it.name: it.expr for it in sp.items if isinstance(it, Instance.Output)}
    return {}


def do_calls(c, reg, creates, probe=None):
    """register_clkin / create_clkout in the order users may choose (clkin first or last).  With c["interleave"] the
    helper's search (`probe`) is also called after every create_clkout — on a partial request list it may succeed or
    refuse (exceptions swallowed); the final answer must equal that of a fresh object (no state carried between calls)."""
    def after():
        if probe is not None and c.get("interleave"):
            try:
                with quiet():
                    probe()
            except Exception:
                pass
    if c.get("clkin_last"):
        for t in creates:
            t()
            after()
        reg()
    else:
        reg()
        for t in creates:
            t()
            after()


def kw_for(c, p, m, default_m=1e-2, with_phase=True):
    """keyword arguments of create_clkout; with c['defaults'] the default-valued ones are left to the callee."""
    kw = {}
    if with_phase and not (c.get("defaults") and p == 0):
        kw["phase"] = p
    if not (c.get("defaults") and m == default_m):
        kw["margin"] = m
    return kw


def gen_flags(rng, c):
    """rarely used call patterns: defaults left to the callee, clkin registered after the outputs, the search called on
    the partial request list after every create_clkout (history on one object)."""
    c["defaults"] = rng.random() < 0.3
    c["clkin_last"] = rng.random() < 0.2
    if c["fam"] in ("xilinx", "nx", "intel", "gw1n", "gw5a") and rng.random() < 0.15:
        c["interleave"] = True        # (ECP5 excluded: open finding C20-ecp5-compute-config-not-idempotent)
    return c


def mk_cd(i):
    from migen import ClockDomain
    return ClockDomain("cd%d" % i)


def cfg_numbers(cfg):
    """the non-Signal entries of a compute_config() dict (what the emitted parameters are compared with)."""
    return {k: v for k, v in cfg.items() if isinstance(v, (int, float, str)) or v is None}


def one_instance(o, prims, sym):
    """(canonical dict of the single emitted primitive, [violations])"""
    insts = E.find_instances(o, prims)
    if len(insts) != 1:
        return {}, ["%d instances of %s emitted" % (len(insts), "/".join(prims))], None
    return E.read_instance(insts[0], sym), [], insts[0]


def port_expr(inst, kind, name):
    from migen.fhdl.specials import Instance
    cls = Instance.Input if kind == "i" else Instance.Output
    for it in inst.items:
        if isinstance(it, cls) and it.name == name:
            return it.expr
    return None


def comb_drivers(o, sig):
    from migen.fhdl.structure import _Assign
    return [st.r for st in E._comb(o) if isinstance(st, _Assign) and st.l is sig]


def parse_model_emit(text):
    """'key=K:value ...' (Driver/C20.lean sEmit) -> {key: matcher or value}."""
    out = {}
    for w in text.split():
        key, _, rest = w.partition("=")
        kind, _, val = rest.partition(":")
        fr_ = lambda v: F(int(v.split("/")[0]), int(v.split("/")[1]))
        if kind == "I":
            out[key] = int(val)
        elif kind == "F":
            out[key] = E.Approx(fr_(val))
        elif kind == "N":
            out[key] = E.Number(fr_(val))
        elif kind == "S":
            out[key] = val
        elif kind == "FS":
            out[key] = E.Approx(fr_(val), as_str=True)
        elif kind == "TR":
            out[key] = E.NearInt(fr_(val))
        elif kind == "T":
            out[key] = val
        elif kind == "A":
            out[key] = E.AnyStr()
        else:
            out[key] = "?unparsable:" + w
        if key in out and w.count("=") == 0:
            out[key] = "?unparsable:" + w
    return out


def compare_model_emit(fam, c, real, text, parsed=None):
    """the Lean model of do_finalize (complete item list) against the items read back from the real Instance."""
    model = parse_model_emit(text)
    got = dict(real.get("emit") or {})
    for k in getattr(fam, "EMIT_ONLY_REAL", ()):
        got.pop(k, None)
    if hasattr(fam, "emit_skip"):
        for k in fam.emit_skip(c, real, parsed):
            got.pop(k, None)
            model.pop(k, None)
    d = E.diff_dicts(model, got, "emitted items (model vs real)")
    return "; ".join(d[:3]) if d else None


def emit_viol(want, real):
    """placed parameters/ports == expectation from (configuration, request), plus the clock-domain wiring."""
    return E.diff_dicts(want, real.get("emit") or {}, "emitted " + str(want.get("of"))) + list(real.get("wviol") or [])


def rel_close(a, b, tol=F(1, 2 ** 44)):
    a, b = F(a), F(b)
    return a == b or abs(a - b) <= tol * max(abs(a), abs(b))


class Flags:
    """Collects float-borderline observations made while recomputing the comparisons of a search exactly."""

    def __init__(self):
        self.borderline = False
        self.why = None
        self.count = 0

    def cmp_le(self, a, b, exact_ctx, what="", scale=None):
        """exact a <= b ; flags when a float evaluation of the same comparison could differ (difference within
        2^-40 of `scale`, default max(|a|,|b|))."""
        if a == b:
            if not exact_ctx:
                self._flag(what + " equality with inexact float intermediates")
        elif abs(a - b) <= SLACK * (max(abs(a), abs(b)) if scale is None else scale):
            self._flag(what + " within 2^-40")
        return a <= b

    def _flag(self, why):
        if not self.borderline:
            self.why = why
        self.borderline = True
        self.count += 1


def is_int(x):
    return F(x).denominator == 1


def rob_in(lo, x, hi, exact_ctx):
    """lo <= x <= hi with a 2^-40 relative safety margin on both sides; touching an edge exactly is accepted when the
    float evaluation is exact (integer-valued intermediates)."""
    a = lo * (1 + SLACK) <= x or (exact_ctx and lo == x)
    b = x <= hi * (1 - SLACK) or (exact_ctx and x == hi)
    return a and b


def ceil_div(a, b):
    return -((-a) // b)


def grid_first_ge(r, x):
    """first grid value (a+i*s)/k, i >= 0, that is >= x and < b/k; None if none.  r = (a, b, s, k)."""
    a, b, s, k = r
    i = max(0, math.ceil((x * k - a) / s))
    v = a + i * s
    if v < b:
        return F(v, k)
    return None


def grid_neighbours(r, x):
    """grid values adjacent to x (for borderline detection)."""
    a, b, s, k = r
    i = math.floor((x * k - a) / s)
    out = []
    for j in (i, i + 1):
        v = a + j * s
        if j >= 0 and v < b:
            out.append(F(v, k))
    return out


def in_grid(r, d):
    a, b, s, k = r
    v = F(d) * k
    return v.denominator == 1 and a <= v < b and (int(v) - a) % s == 0


def divider_window(vco, f, m):
    """exact set of d with |vco/d - f| <= f*m  ==  [dlo, dhi] (dhi = None: unbounded)."""
    dlo = vco / (f * (1 + m))
    dhi = vco / (f * (1 - m)) if m < 1 else None
    return dlo, dhi


# ------------------------------------------------------------------------------------------------------------------
# Xilinx (generic compute_config + USPMMCM)
# ------------------------------------------------------------------------------------------------------------------

X_PARAM_RE = None


def x_param_names():
    global X_PARAM_RE
    if X_PARAM_RE is None:
        import re
        X_PARAM_RE = re.compile(r"^(CLKFBOUT_MULT(_F)?|DIVCLK_DIVIDE|CLKOUT\d_DIVIDE(_F)?|CLKOUT\d_PHASE|CLKFX_MULTIPLY|CLKFX_DIVIDE)$")
    return X_PARAM_RE


class Xilinx:
    fam = "xilinx"

    def __init__(self, T):
        self.devs = {d["name"]: d for d in T["xilinx"]}

    # --- request -> lean line
    def lean_line(self, c):
        outs = " ".join("%s %s %s" % (qs(f), qs(p), qs(m)) for f, p, m in c["outs"])
        return "xilinx %s %s %s %d %s" % (c["dev"], qs(c["clkin"]), qs(c["vm"]), len(c["outs"]), outs)

    # --- real code
    def real(self, c):
        from migen import Signal
        cls, g = c["dev"].split(":")
        prim_of = next(p for k, _, _, p in XILINX if k == cls)
        try:
            o = mk_xilinx(cls, int(g))
            o.vco_margin = c["vm"]
            reset0 = o.reset
            cds = [mk_cd(i) for i in range(len(c["outs"]))]
            bufs, wrs = self.bufs_of(c), self.resets_of(c)
            ces = [Signal() if (b or "").lower() == "bufgce" else None for b in bufs]
            do_calls(c, lambda: o.register_clkin(Signal(), c["clkin"]),
                     [lambda i=i, f=f, p=p, m=m: o.create_clkout(cds[i], f, buf=bufs[i], with_reset=wrs[i],
                                                                 **({"ce": ces[i]} if ces[i] is not None else {}),
                                                                 **kw_for(c, p, m))
                      for i, (f, p, m) in enumerate(c["outs"])], probe=lambda: o.compute_config())
            cfg = finalize_capture(o)
            again = o.compute_config() if c.get("twice") else cfg
        except Exception as e:
            return {"status": status_of(e), "exc": repr(e)}
        sym = E.Sym().add(o.clkin, "clkin").add(o.locked, "locked").add(o.power_down, "power_down").add(reset0, "reset0")
        for n, t in o.clkouts.items():
            sym.add(t[0], "clkout%d" % n)
        emit, wviol, inst = one_instance(o, (prim_of,), sym)
        if inst is not None:
            nst = E.reset_chain(o, port_expr(inst, "i", "RST"), reset0, "FDCE", "C", "D", "Q", {"CE": "c1w1", "CLR": "c0w1"},
                                o.clkin, sym)
            emit["i_RST"] = "reset0>>FDCE*%d" % nst
            wviol += E.clock_wiring(o, cds, [o.clkouts[n][0] for n in range(len(cds))], sym, bufs=bufs, with_reset=wrs)
            for i, ce in enumerate(ces):
                if ce is not None:
                    bg = [b for b in E.find_instances(o, ("BUFGCE",)) if port_expr(b, "i", "I") is o.clkouts[i][0]]
                    if len(bg) != 1 or port_expr(bg[0], "i", "CE") is not ce:
                        wviol.append("BUFGCE of clkout%d is not enabled by the given ce signal" % i)
        outs = []
        for n in range(len(c["outs"])):
            outs.append((F(cfg["clkout%d_divide" % n]), F(cfg["clkout%d_freq" % n]), F(cfg["clkout%d_phase" % n])))
        params = instance_params(o, (prim_of,)) or {}
        ports = instance_outputs(o, (prim_of,))
        if cls == "S6DCM":
            wiring = ports.get("CLKFX") is o.clkouts[0][0]
            period = params.get("CLKIN_PERIOD")
        else:
            wiring = all(ports.get("CLKOUT%d" % n) is o.clkouts[n][0] for n in range(len(c["outs"]))) and \
                not any(("CLKOUT%d" % n) in ports for n in range(len(c["outs"]), 8))
            period = params.get("CLKIN1_PERIOD")
        num = {}
        for k, v in params.items():
            if x_param_names().match(k):
                num[k] = F(v)
        return {"status": "ok", "divclk": cfg["divclk_divide"], "mult": F(cfg["clkfbout_mult"]), "vco": F(cfg["vco"]),
                "outs": outs, "params": num, "wiring": bool(wiring), "period": period, "idempotent": again == cfg,
                "cfg": cfg_numbers(cfg), "emit": emit, "wviol": wviol, "of": prim_of}

    @staticmethod
    def bufs_of(c):
        """per-output `buf` option: c["bufs"] (list) or the same c["buf"] for every output."""
        k = len(c["outs"])
        return list(c["bufs"]) if c.get("bufs") else [c.get("buf")] * k

    @staticmethod
    def resets_of(c):
        k = len(c["outs"])
        return [bool(x) for x in c["with_resets"]] if c.get("with_resets") else [bool(c.get("with_reset"))] * k

    # --- model answer
    def parse(self, c, line):
        if line == "none":
            return {"status": "rejected"}
        w = line.split()
        if w[0] != "some":
            return {"status": "bad:" + line[:60]}
        it = iter(w[1:])
        nx = lambda: next(it)
        q = lambda: F(int(nx()), int(nx()))
        divclk = int(nx())
        mult = q()
        vco = q()
        k = int(nx())
        outs = []
        for _ in range(k):
            d = q()
            fq = q()
            outs.append((d, fq))
        assert nx() == "|"
        npar = int(nx())
        params = {}
        for _ in range(npar):
            name = nx()
            params[name] = q()
        return {"status": "ok", "divclk": divclk, "mult": mult, "vco": vco, "outs": outs, "params": params}

    def compare(self, c, real, model):
        if real["status"] != model["status"]:
            return "status real=%s model=%s" % (real["status"], model["status"])
        if real["status"] != "ok":
            return None
        if real["divclk"] != model["divclk"] or real["mult"] != model["mult"]:
            return "divclk/mult real=(%s,%s) model=(%s,%s)" % (real["divclk"], real["mult"], model["divclk"], model["mult"])
        if len(real["outs"]) != len(model["outs"]):
            return "number of outputs"
        for n, ((d, fq, p), (md, mf)) in enumerate(zip(real["outs"], model["outs"])):
            if d != md:
                return "clkout%d_divide real=%s model=%s" % (n, d, md)
            if not rel_close(fq, mf):
                return "clkout%d_freq real=%s model=%s" % (n, float(fq), float(mf))
            if p != F(c["outs"][n][1]):
                return "clkout%d_phase" % n
        if not rel_close(real["vco"], model["vco"]):
            return "vco real=%s model=%s" % (float(real["vco"]), float(model["vco"]))
        if real["params"] != model["params"]:
            return "instance parameters real=%s model=%s" % (
                {k: str(v) for k, v in sorted(real["params"].items())}, {k: str(v) for k, v in sorted(model["params"].items())})
        return None

    # --- exact oracle (independent of the Lean model)
    def ranges_for(self, d, n):
        if n == 0 and d["out0"]:
            return [d["out0"]]
        rs = [d["common"]]
        if n < len(d["specific"]) and d["specific"][n] is not None:
            rs.append(d["specific"][n])
        return rs

    def window(self, d, vco, f, m):
        if d["usp"]:      # isclose: vco/d in [f(1-m), f/(1-m)]
            return (vco * (1 - m) / f, (vco / (f * (1 - m))) if m < 1 else None)
        return divider_window(vco, f, m)

    def out_ok(self, d, vco, dv, f, m, slack):
        clk = vco / dv
        if d["usp"]:
            return abs(clk - f) <= m * max(clk, f) + slack * f
        return abs(clk - f) <= f * m + slack * f

    def oracle(self, c, real):
        """-> (violations, borderline, why, first)  first = (divclk, mult) of the first exactly valid pair or None"""
        d = self.devs[c["dev"]]
        clkin, vm = F(c["clkin"]), F(c["vm"])
        outs = [(F(f), F(p), F(m)) for f, p, m in c["outs"]]
        lo, hi = d["vco"][0] * (1 + vm), d["vco"][1] * (1 - vm)
        win_exact = vm == 0
        ints = is_int(clkin) and all(is_int(f) for f, _, _ in outs)
        fl = Flags()
        first = None
        robust = None
        ma, mb, ms, mk = d["mults"]
        mults = range((mb - ma + ms - 1) // ms)
        for divclk in range(*d["divclk"]):
            # multipliers (descending) whose VCO can be inside the window, plus one neighbour on each side
            i_hi = min(len(mults) - 1, math.floor((hi * divclk / clkin * mk - ma) / ms) + 1)
            i_lo = max(0, math.ceil((lo * divclk / clkin * mk - ma) / ms) - 1)
            for mult in (F(ma + i * ms, mk) for i in range(i_hi, i_lo - 1, -1)):
                vco = clkin * mult / divclk
                if first is None:
                    in_win = fl.cmp_le(lo, vco, win_exact, "vco>=min") and fl.cmp_le(vco, hi, win_exact, "vco<=max")
                else:
                    in_win = lo <= vco <= hi
                if not in_win:
                    continue
                rob_win = rob_in(lo, vco, hi, win_exact and ints)
                all_ok, all_rob = True, rob_win
                for n, (f, p, m) in enumerate(outs):
                    dlo, dhi = self.window(d, vco, f, m)
                    ok_n, rob_n = False, False
                    nflag = fl.count
                    for r in self.ranges_for(d, n):
                        g = grid_first_ge(r, dlo)
                        if g is not None and (dhi is None or g <= dhi):
                            ok_n = True
                        if first is None:
                            for x in grid_neighbours(r, dlo) + (grid_neighbours(r, dhi) if dhi is not None else []):
                                for t in (dlo, dhi):
                                    if t is None:
                                        continue
                                    if x == t:
                                        if not ints:
                                            fl._flag("divider on the margin edge (non-integer Hz)")
                                        elif m != 0:
                                            fl._flag("divider exactly on a non-zero margin edge")
                                    elif abs(x - t) <= SLACK * t:
                                        fl._flag("divider within 2^-40 of a margin edge")
                        g2 = grid_first_ge(r, dlo * (1 + SLACK))
                        if g2 is not None and (dhi is None or g2 <= dhi * (1 - SLACK)):
                            rob_n = True
                        elif m == 0 and ints and g is not None and g == dlo:
                            rob_n = True          # exact hit at margin 0 with integer frequencies is float-exact
                    all_ok = all_ok and ok_n
                    all_rob = all_rob and rob_n
                    if not ok_n and nflag == fl.count:
                        break            # robustly invalid output: the pair is invalid whatever the others do
                if all_rob and robust is None:
                    robust = (divclk, mult)
                if all_ok and first is None:
                    first = (divclk, mult)
                if first is not None and robust is not None:
                    break
            if first is not None and (robust is not None or real["status"] == "ok"):
                break
        viol = []
        if real["status"] == "ok":
            dc, mu = real["divclk"], real["mult"]
            if not (d["divclk"][0] <= dc < d["divclk"][1]):
                viol.append("divclk_divide %s outside declared range" % dc)
            if not in_grid(d["mults"], mu):
                viol.append("clkfbout_mult %s outside declared range" % mu)
            vco = clkin * mu / dc
            if not (lo * (1 - SLACK) <= vco <= hi * (1 + SLACK)):
                viol.append("VCO %s Hz outside [%s, %s]" % (float(vco), float(lo), float(hi)))
            if not rel_close(vco, real["vco"]):
                viol.append("reported vco differs from clkin*mult/divclk")
            for n, ((dv, fq, p), (f, _, m)) in enumerate(zip(real["outs"], outs)):
                if not any(in_grid(r, dv) for r in self.ranges_for(d, n)):
                    viol.append("clkout%d divider %s outside declared ranges" % (n, dv))
                if dv > 0:
                    if not self.out_ok(d, vco, dv, f, m, SLACK):
                        viol.append("clkout%d: %s Hz vs requested %s Hz margin %s" % (n, float(vco / dv), float(f), float(m)))
                    if not rel_close(vco / dv, fq):
                        viol.append("clkout%d reported freq differs from vco/divider" % n)
            viol += self.params_check(c, real)
            viol += emit_viol(E.expect_xilinx(c["dev"].split(":")[0], real["of"], c["clkin"], real["cfg"], c["outs"]), real)
            if not real["wiring"]:
                viol.append("primitive output ports are not connected to the requested clock outputs in order")
            if real["period"] is None or not rel_close(F(real["period"]) * clkin, F(10 ** 9), F(1, 10 ** 12)):
                viol.append("CLKIN period parameter %s does not match the input frequency" % real["period"])
            if not real["idempotent"]:
                viol.append("a second compute_config() call returns a different configuration")
        elif real["status"] == "rejected":
            if robust is not None:
                viol.append("refused although divclk=%s mult=%s satisfies the request inside the declared ranges" % robust)
        else:
            viol.append("unexpected exception " + real.get("exc", ""))
        return viol, fl.borderline, fl.why, first

    def params_check(self, c, real):
        """parameters on the instance equal the configuration (independent of the model)."""
        cls = c["dev"].split(":")[0]
        prim = next(p for k, _, p, _ in XILINX if k == cls)
        exp = {}
        if prim == "s6dcm":
            exp["CLKFX_MULTIPLY"] = real["mult"]
            exp["CLKFX_DIVIDE"] = real["outs"][0][0] * real["divclk"]
        else:
            exp["CLKFBOUT_MULT_F" if prim == "mmcm" else "CLKFBOUT_MULT"] = real["mult"]
            exp["DIVCLK_DIVIDE"] = F(real["divclk"])
            for n, (dv, fq, p) in enumerate(real["outs"]):
                exp["CLKOUT%d_DIVIDE%s" % (n, "_F" if prim == "mmcm" and n == 0 else "")] = dv
                exp["CLKOUT%d_PHASE" % n] = F(c["outs"][n][1])
        if exp != real["params"]:
            return ["instance parameters %s != configuration %s" % (
                {k: str(v) for k, v in sorted(real["params"].items())}, {k: str(v) for k, v in sorted(exp.items())})]
        return []

    # --- generators
    WEIGHTS = {"S6PLL": 10, "S6DCM": 5, "S7PLL": 20, "S7MMCM": 16, "USPLL": 10, "USMMCM": 12, "USPPLL": 12, "USPMMCM": 8}

    @staticmethod
    def grid_ends(r):
        a, b, st, k = r
        n = (b - a + st - 1) // st
        return F(a, k), F(a + (n - 1) * st, k)

    def directed(self):
        """Range extremes of every class / speed grade (pinned tables): requests at margin 0 whose valid settings need the
        LAST (resp. FIRST) multiplier with the VCO on the upper (lower) edge of its window and the first (last) divider of
        output 0 — at the top corner `f = vco_max/d_first` with `clkin = vco_max·divclk/mult_last` NO other
        (divclk, mult, divider) of the declared grid reaches f (any other divider needs a VCO above the window), so a
        search that lost the end of a range must refuse; the oracle's grid search then reports the refusal.  Also the
        corners with the last input divider, a second output on the last common divider, and VCOs pinned to
        clkin·mult_last below the top of the window."""
        out = []
        for name, d in sorted(self.devs.items()):
            m_first, m_last = self.grid_ends(d["mults"])
            dc_first, dc_last = d["divclk"][0], d["divclk"][1] - 1
            r0 = self.ranges_for(d, 0)
            d_first = min(self.grid_ends(r)[0] for r in r0)
            d_last = max(self.grid_ends(r)[1] for r in r0)
            c_first, c_last = self.grid_ends(d["common"])
            vmin, vmax = d["vco"]
            corners = []
            for dc in (dc_first, dc_last):
                corners.append((vmax, m_last, dc, d_first))
                corners.append((vmin, m_first, dc, d_last))
            # VCO = clkin*mult_last strictly inside the window (reference at the bottom of the usable input range)
            for frac in (F(4, 5), F(24, 25)):
                corners.append((vmax * frac, m_last, dc_first, d_first))
            for (vco, mult, dc, dv) in corners:
                clkin = vco * dc / mult
                f0 = vco / dv
                if vco > 10 ** 12 or not is_int(clkin) or not is_int(f0) or clkin < 1:
                    continue
                for second in (False, True):
                    outs = [(float(f0), 0, 0)]
                    if second and d["nmax"] > 1:
                        f1 = vco / c_last
                        if not is_int(f1):
                            continue
                        outs.append((float(f1), 90, 0))
                    elif second:
                        continue
                    out.append({"fam": "xilinx", "dev": name, "clkin": float(clkin), "vm": 0.0, "outs": outs, "buf": None,
                                "with_reset": False, "twice": False})
        return out

    def gen(self, rng, dev=None):
        if dev is None:
            cls = rng.choices(list(self.WEIGHTS), weights=list(self.WEIGHTS.values()))[0]
            dev = "%s:%d" % (cls, rng.choice(XILINX_GRADES))
        d = self.devs[dev]
        usp = d["usp"]
        vm = 0.0 if rng.random() < 0.9 else rng.choice([0.01, 0.05, 0.1, 0.25])
        clkin = gen_clkin(rng, 10e6, 800e6) if not d["name"].startswith("S6DCM") else gen_clkin(rng, 1e6, 300e6)
        if usp and clkin < 50e6:
            clkin = type(clkin)(clkin * 8)
        nmax = d["nmax"]
        k = 1 if nmax == 1 else min(nmax, rng.choice([1, 1, 1, 2, 2, 2, 3, 3, 4, 5, 6, 7]))
        lo, hi = d["vco"][0] * (1 + F(vm)), d["vco"][1] * (1 - F(vm))
        # kind of request: satisfiable by construction / one output on a margin edge / arbitrary (mostly refused)
        r = rng.random()
        kind = "sat" if r < (0.98 if usp else 0.80) else "edge" if r < (1.0 if usp else 0.90) else "any"
        if kind != "sat" and usp:
            # a USPMMCM refusal walks ~10^7 exact divider tests in the model (5-30 s): keep them few and small
            k = 1
            clkin = type(clkin)(rng.choice([400e6, 500e6, 600e6, 625e6, 750e6, 800e6]))
        vco = None
        ma, mb, ms, mk = d["mults"]
        if rng.random() < 0.12:
            # range extremes: reference chosen so that the FIRST / LAST multiplier puts the VCO inside the window
            mult = rng.choice(self.grid_ends(d["mults"]))
            dc = rng.choice([1, 1, 2, d["divclk"][1] - 1])
            target = rng.choice([hi, lo, lo + (hi - lo) * F(rng.randrange(1, 100), 100)])
            ck = int(target * dc / mult) if rng.random() < 0.5 else math.ceil(target * dc / mult)
            if ck >= 1 and lo <= F(ck) * mult / dc <= hi and F(ck) * mult / dc < 10 ** 12:
                clkin = float(ck)
        for _ in range(60):
            divclk = rng.choice([1, 1, 1, 1, 1, 2] if usp else [1, 1, 1, 2, 3, 4, 5, rng.randrange(*d["divclk"])])
            i_lo = max(0, math.ceil((lo * divclk / F(clkin) * mk - ma) / ms))
            i_hi = min((mb - ma + ms - 1) // ms - 1, math.floor((hi * divclk / F(clkin) * mk - ma) / ms))
            if i_lo <= i_hi:
                pick = rng.choice([i_lo, i_hi]) if rng.random() < 0.25 else rng.randrange(i_lo, i_hi + 1)
                vco = F(clkin) * F(ma + pick * ms, mk) / divclk
                break
        if vco is None and usp:
            return self.gen(rng, dev)
        outs = []
        edge_at = rng.randrange(k)
        for n in range(k):
            m = rng.choice([0, 1e-6, 1e-3, 1e-2])
            p = rng.choice([0, 0, 0, 90, 180, 270, 45, 22.5, 135.0, -90])
            if vco is not None and (kind != "any" or rng.random() < 0.5):
                rs = self.ranges_for(d, n)
                rr = rng.choice(rs)
                cnt = (rr[1] - rr[0] + rr[2] - 1) // rr[2]
                dv = F(rr[0] + rng.randrange(min(cnt, rng.choice([8, 32, cnt]))) * rr[2], rr[3])
                f = vco / dv
                if kind == "edge" and n == edge_at:
                    u = rng.choice([1, -1, 1.001, -1.001, 0.9999, -0.9999, 2.5, -2.5])
                else:
                    u = rng.choice([0, 0, 0, 0.5, -0.5, 0.9, -0.9])
                if m == 0 and not is_int(f) and (usp or rng.random() < 0.9):
                    m = 1e-6                                  # margin 0 is only float-exact for integer-Hz targets
                fx = f * (1 + F(u) * F(m))
                f = float(fx)
                if m != 0 and abs(u) <= 0.9 and rng.random() < 0.6:
                    f = float(round(f)) or 1.0           # integer-Hz request (stays inside the margin)
                elif m == 0 and is_int(fx):
                    f = float(fx)
            else:
                f = rng.choice([25e6, 50e6, 100e6, 125e6, 133.333e6, 148.5e6, 200e6, 300e6, 400e6, 48e6, 12.288e6, 74.25e6,
                                float(rng.randrange(5_000_000, 700_000_000))])
            outs.append((f, p, m))
        c = {"fam": "xilinx", "dev": d["name"], "clkin": clkin, "vm": vm, "outs": outs,
             "buf": rng.choice([None, None, "bufg", "bufr", "bufh", "bufio", "BUFG"]), "with_reset": rng.random() < 0.2,
             "twice": rng.random() < 0.15 and not usp}
        if rng.random() < 0.35:       # a different buffer / reset option per output
            c["bufs"] = [rng.choice([None, "bufg", "bufr", "bufh", "bufio", "bufgce", "BUFG"]) for _ in outs]
            c["with_resets"] = [int(rng.random() < 0.5) for _ in outs]
        return gen_flags(rng, c)


COMMON_CLKIN = [8e6, 10e6, 12e6, 16e6, 19.2e6, 24e6, 25e6, 26e6, 27e6, 33e6, 33.333e6, 38.4e6, 40e6, 48e6, 50e6, 66e6,
                74.25e6, 100e6, 125e6, 133e6, 148.5e6, 156.25e6, 200e6, 250e6, 300e6, 400e6]


def gen_clkin(rng, lo, hi):
    """integer-Hz input frequency (as float or int, like LiteX targets pass it)."""
    r = rng.random()
    if r < 0.6:
        cands = [f for f in COMMON_CLKIN if lo <= f <= hi]
        f = rng.choice(cands)
        f = float(int(f))
    elif r < 0.8:
        f = float(rng.randrange(int(lo), int(hi) + 1))
    else:
        f = float(rng.randrange(int(lo) // 1000, int(hi) // 1000 + 1) * 1000)
    f = min(max(f, float(lo)), float(hi))
    if rng.random() < 0.04:
        f = float(rng.choice([lo, hi]))          # the ends of the legal input range
    return int(f) if rng.random() < 0.25 else f


def py_round(x):
    """round-half-even of an exact rational (Python round on an exact value)."""
    x = F(x)
    fl = math.floor(x)
    r = x - fl
    if r < F(1, 2):
        return fl
    if r > F(1, 2):
        return fl + 1
    return fl if fl % 2 == 0 else fl + 1


# ------------------------------------------------------------------------------------------------------------------
# Lattice ECP5
# ------------------------------------------------------------------------------------------------------------------

class Ecp5:
    fam = "ecp5"
    N2L = {0: "P", 1: "S", 2: "S2", 3: "S3"}
    EMIT_ONLY_REAL = ("a_BEL",)          # placement attribute handed through (checked by the oracle, not modelled)

    def __init__(self, T):
        self.d = T["ecp5"]

    def lean_line(self, c):
        outs = " ".join("%s %s %s %d" % (qs(f), qs(p), qs(m), int(dpa)) for f, p, m, dpa in c["outs"])
        return "ecp5 %s %d %d %s" % (qs(c["clkin"]), int(c["dpa_en"]), len(c["outs"]), outs)

    def real(self, c):
        from migen import Signal
        from litex.soc.cores.clock.lattice_ecp5 import ECP5PLL
        try:
            o = ECP5PLL(**({"bel": c["bel"]} if c.get("bel") else {}))
            if c["dpa_en"]:
                o.expose_dpa()
            cds = [mk_cd(i) for i in range(len(c["outs"]))]
            wrs = [bool(x) for x in c["with_resets"]] if c.get("with_resets") else [False] * len(cds)
            do_calls(c, lambda: o.register_clkin(Signal(), c["clkin"]),
                     [lambda i=i, f=f, p=p, m=m, dpa=dpa: o.create_clkout(cds[i], f, with_reset=wrs[i],
                                                                        **({} if c.get("defaults") and dpa else {"uses_dpa": bool(dpa)}),
                                                                        **kw_for(c, p, m))
                      for i, (f, p, m, dpa) in enumerate(c["outs"])])
            cfg = finalize_capture(o)
        except Exception as e:
            return {"status": status_of(e), "exc": repr(e)}
        nd = len(o.clkouts)
        divs = [cfg["clko%d_div" % n] for n in range(nd)]
        P = instance_params(o, ("EHXPLLL",)) or {}
        per = []
        for n in range(4):
            l = self.N2L[n]
            if ("CLKO%s_DIV" % l) in P:
                per.append((n, P.get("CLKO%s_DIV" % l), P.get("CLKO%s_FPHASE" % l), P.get("CLKO%s_CPHASE" % l),
                            P.get("CLKO%s_ENABLE" % l)))
        ports = instance_outputs(o, ("EHXPLLL",))
        wiring = all(ports.get("CLKO" + self.N2L[n]) is o.clkouts[n][0] for n in range(nd))
        sym = E.Sym().add(o.clkin, "clkin").add(o.locked, "locked").add(o.reset, "reset").add(o.stdby, "stdby")
        for nm in ("phase_sel", "phase_dir", "phase_step", "phase_load"):
            sym.add(getattr(o, nm, None), nm)
        for n, t in o.clkouts.items():
            sym.add(t[0], "clkout%d" % n)
        insts = E.find_instances(o, ("EHXPLLL",))
        if len(insts) == 1:
            sym.add(port_expr(insts[0], "o", "LOCK"), "lock_raw")
        emit, wviol, inst = one_instance(o, ("EHXPLLL",), sym)
        if inst is not None:
            wviol += E.clock_wiring(o, cds, [o.clkouts[n][0] for n in range(len(cds))], sym, with_reset=wrs)
            drv = [sym.tok(x) for x in comb_drivers(o, o.locked)]
            if drv != ["(lock_raw&~reset)"]:
                wviol.append("locked is driven by %s, expected LOCK & ~reset" % drv)
        return {"status": "ok", "clki": cfg["clki_div"], "fb": cfg["clkfb_div"], "clkfb": cfg["clkfb"], "vco": F(cfg["vco"]),
                "wiring": bool(wiring), "cfg": cfg_numbers(cfg), "emit": emit, "wviol": wviol,
                "divs": divs, "freqs": [F(cfg["clko%d_freq" % n]) for n in range(len(c["outs"]))],
                "P": {"CLKI_DIV": P.get("CLKI_DIV"), "CLKFB_DIV": P.get("CLKFB_DIV"), "FEEDBK_PATH": P.get("FEEDBK_PATH"),
                      "per": per}}

    def parse(self, c, line):
        if line == "none":
            return {"status": "rejected"}
        w = line.split()
        if w[0] != "some":
            return {"status": "bad:" + line[:60]}
        clki, fb, clkfb = int(w[1]), int(w[2]), int(w[3])
        vco = F(int(w[4]), int(w[5]))
        k = int(w[6])
        per = [(int(w[7 + 3 * i]), int(w[8 + 3 * i]), int(w[9 + 3 * i])) for i in range(k)]
        return {"status": "ok", "clki": clki, "fb": fb, "clkfb": clkfb, "vco": vco, "divs": [x[0] for x in per], "per": per}

    def compare(self, c, real, model):
        if real["status"] != model["status"]:
            return "status real=%s model=%s" % (real["status"], model["status"])
        if real["status"] != "ok":
            return None
        for k in ("clki", "fb", "clkfb", "divs"):
            if real[k] != model[k]:
                return "%s real=%s model=%s" % (k, real[k], model[k])
        if not rel_close(real["vco"], model["vco"]):
            return "vco real=%s model=%s" % (float(real["vco"]), float(model["vco"]))
        rp = [(dv, fp, cp) for (_, dv, fp, cp, _) in real["P"]["per"]]
        if rp != model["per"]:
            return "instance parameters (DIV,FPHASE,CPHASE) real=%s model=%s" % (rp, model["per"])
        if real["P"]["CLKI_DIV"] != model["clki"] or real["P"]["CLKFB_DIV"] != model["fb"] or \
                real["P"]["FEEDBK_PATH"] != "INT_O" + self.N2L.get(model["clkfb"], "?"):
            return "instance parameters CLKI_DIV/CLKFB_DIV/FEEDBK_PATH real=%s" % (real["P"],)
        return None

    def oracle(self, c, real):
        d = self.d
        clkin = F(c["clkin"])
        outs = [(F(f), F(p), F(m), bool(dpa)) for f, p, m, dpa in c["outs"]]
        k = len(outs)
        dpa_en = bool(c["dpa_en"])
        nmax = d["nmax"]
        vmin, vmax = d["vco"]
        pmin, pmax = d["pfd"]
        olo, ohi = d["clko"]
        fl = Flags()
        first = None           # first exactly valid (clki, ofb, fb) in the code's search space
        robust_code = None     # robustly valid config inside the code's search space (feedback = first dividers / spare)
        robust_any = None      # robustly valid config with feedback from any valid divider
        need_robust = real["status"] != "ok"
        for clki in range(*d["clki"]):
            exact_ctx = is_int(clkin) and int(clkin) % clki == 0 and all(is_int(f) for f, _, _, _ in outs)
            pfd = clkin / clki
            if first is None:
                pfd_ok = fl.cmp_le(pmin, pfd, exact_ctx, "pfd>=min") and fl.cmp_le(pfd, pmax, exact_ctx, "pfd<=max")
            else:
                pfd_ok = pmin <= pfd <= pmax
            if not pfd_ok:
                continue
            kmin, kmax = math.ceil(vmin / pfd), math.floor(vmax / pfd)
            for ofb in range(olo, ohi):
                f_lo = max(d["clkfb"][0], ceil_div(kmin, ofb) - 1)
                f_hi = min(d["clkfb"][1] - 1, kmax // ofb + 1)
                for fb in range(f_lo, f_hi + 1):
                    vco = pfd * fb * ofb
                    if first is None:
                        in_win = fl.cmp_le(vmin, vco, exact_ctx, "vco>=min") and fl.cmp_le(vco, vmax, exact_ctx, "vco<=max")
                    else:
                        in_win = vmin <= vco <= vmax
                    if not in_win:
                        continue
                    rob = rob_in(vmin, vco, vmax, exact_ctx) and rob_in(pmin, pfd, pmax, exact_ctx)
                    all_ok, all_rob = True, rob
                    fb_first, fb_first_rob, fb_any_rob = False, False, False
                    for n, (f, p, m, dpa) in enumerate(outs):
                        dlo, dhi = divider_window(vco, f, m)
                        nflag = fl.count
                        g = max(olo, math.ceil(dlo))
                        ok_n = g < ohi and (dhi is None or g <= dhi)
                        if first is None:
                            for x in {math.floor(dlo), math.ceil(dlo)} | ({math.floor(dhi), math.ceil(dhi)} if dhi is not None else set()):
                                if olo <= x < ohi:
                                    for t in (dlo, dhi):
                                        if t is None:
                                            continue
                                        if x == t:
                                            if not exact_ctx or m != 0:
                                                fl._flag("divider on a margin edge")
                                        elif abs(x - t) <= SLACK * t:
                                            fl._flag("divider within 2^-40 of a margin edge")
                        g2 = max(olo, math.ceil(dlo * (1 + SLACK)))
                        rob_n = g2 < ohi and (dhi is None or g2 <= dhi * (1 - SLACK))
                        if not rob_n and m == 0 and exact_ctx and ok_n and g == dlo:
                            rob_n = True
                        usable = not (dpa and dpa_en)
                        if ok_n and g == ofb and usable:
                            fb_first = True
                        if rob_n and g2 == ofb and usable and g2 == g:
                            fb_first_rob = True
                        if usable and (dlo * (1 + SLACK) <= ofb and (dhi is None or ofb <= dhi * (1 - SLACK))):
                            fb_any_rob = True
                        all_ok = all_ok and ok_n
                        all_rob = all_rob and rob_n
                        if not ok_n and nflag == fl.count:
                            break
                    spare = k < nmax
                    if all_ok and (fb_first or spare) and first is None:
                        first = (clki, ofb, fb)
                    if all_rob and (fb_first_rob or spare) and robust_code is None:
                        robust_code = (clki, ofb, fb)
                    if all_rob and (fb_any_rob or spare) and robust_any is None:
                        robust_any = (clki, ofb, fb)
                    if first is not None and (not need_robust or robust_code is not None):
                        break
                if first is not None and (not need_robust or robust_code is not None):
                    break
            if first is not None and (not need_robust or robust_code is not None):
                break
        viol = []
        region = None
        if real["status"] == "ok":
            clki, fb, cf, divs = real["clki"], real["fb"], real["clkfb"], real["divs"]
            if not (d["clki"][0] <= clki < d["clki"][1]):
                viol.append("clki_div %s outside declared range" % clki)
            if not (d["clkfb"][0] <= fb < d["clkfb"][1]):
                viol.append("clkfb_div %s outside declared range" % fb)
            for n, dv in enumerate(divs):
                if not (olo <= dv < ohi):
                    viol.append("clko%d_div %s outside declared range" % (n, dv))
            if not (len(divs) in (k, k + 1) and len(divs) <= nmax and 0 <= cf < len(divs)):
                viol.append("feedback output index %s / %d outputs" % (cf, len(divs)))
            else:
                if cf < k and outs[cf][3] and dpa_en:
                    viol.append("feedback taken from a dynamically phase-adjusted output")
                pfd = clkin / clki
                if not (pmin * (1 - SLACK) <= pfd <= pmax * (1 + SLACK)):
                    viol.append("PFD %s Hz outside declared range" % float(pfd))
                vco = pfd * fb * divs[cf]
                if not (vmin * (1 - SLACK) <= vco <= vmax * (1 + SLACK)):
                    viol.append("VCO recomputed from the returned dividers = %s Hz outside [%s, %s]" % (float(vco), float(vmin), float(vmax)))
                if not rel_close(vco, real["vco"]):
                    viol.append("reported vco %s differs from clkin/clki*clkfb_div*clko[fb]_div = %s" % (float(real["vco"]), float(vco)))
                for n, (f, p, m, dpa) in enumerate(outs):
                    if divs[n] > 0 and not (abs(vco / divs[n] - f) <= f * m + SLACK * f):
                        viol.append("clko%d: %s Hz vs requested %s Hz margin %s" % (n, float(vco / divs[n]), float(f), float(m)))
            if not real["wiring"]:
                viol.append("EHXPLLL output ports are not connected to the requested clock outputs in order")
            if not viol:
                viol += emit_viol(E.expect_ecp5(c["clkin"], real["cfg"], c["outs"], len(divs), dpa_en, c.get("bel")), real)
            # instance parameters
            P = real["P"]
            if P["CLKI_DIV"] != clki or P["CLKFB_DIV"] != fb or P["FEEDBK_PATH"] != "INT_O" + self.N2L.get(cf, "?"):
                viol.append("CLKI_DIV/CLKFB_DIV/FEEDBK_PATH %s do not equal the configuration" % (P,))
            if [x[0] for x in P["per"]] != list(range(len(divs))):
                viol.append("enabled outputs %s != configured outputs" % [x[0] for x in P["per"]])
            else:
                for (n, dv, fp, cp, en) in P["per"]:
                    p = outs[n][1] if n < k else F(0)
                    want = py_round(p * divs[n] / 45)
                    if dv != divs[n] or en != "ENABLED" or not (0 <= fp < 8) or 8 * (cp - (dv - 1)) + fp != want:
                        viol.append("CLKO%s DIV/FPHASE/CPHASE = %s/%s/%s for div %s phase %s" % (self.N2L[n], dv, fp, cp, divs[n], float(p)))
        elif real["status"] == "rejected":
            if robust_code is not None:
                viol.append("refused although clki=%s clkofb=%s clkfb_div=%s satisfies the request" % robust_code)
            elif robust_any is not None:
                region = "C20-ecp5-4out-first-divider"
        else:
            viol.append("unexpected exception " + real.get("exc", ""))
        return viol, fl.borderline, fl.why, first, region

    def directed(self):
        """range extremes (margin 0): 3.125 MHz needs the LAST output divider (128) with the VCO on the lower edge of its
        window; 400 MHz the first dividers / upper edge; the PFD on both edges of its window (10 MHz, 400 MHz)."""
        mk = lambda ck, outs: {"fam": "ecp5", "clkin": ck, "dpa_en": False, "outs": [(f, p, 0, 0) for f, p in outs]}
        return [mk(25e6, [(3.125e6, 0)]), mk(25e6, [(3.125e6, 0), (400e6, 90)]), mk(10e6, [(400e6, 0)]), mk(400e6, [(400e6, 0)]),
                mk(400e6, [(3.125e6, 0), (6.25e6, 180)]), mk(10e6, [(6.25e6, 0), (800e6 / 127, 0)][:1]), mk(8e6 + 2e6, [(100e6, 45)])]

    def gen(self, rng):
        d = self.d
        clkin = gen_clkin(rng, float(d["clki_freq"][0]), float(d["clki_freq"][1]))
        k = rng.choice([1, 1, 2, 2, 3, 3, 4, 4])
        dpa_en = rng.random() < 0.15
        vco = None
        for _ in range(60):
            clki = rng.choice([1, 1, 1, 2, 3, 4, 5, 6, rng.randrange(1, 41), int(F(clkin) / d["pfd"][0])])
            pfd = F(clkin) / max(clki, 1)
            if clki < 1 or not (d["pfd"][0] <= pfd <= d["pfd"][1]):
                continue
            K = rng.randrange(math.ceil(d["vco"][0] / pfd), math.floor(d["vco"][1] / pfd) + 1) if \
                math.ceil(d["vco"][0] / pfd) <= math.floor(d["vco"][1] / pfd) else None
            if K:
                vco = pfd * K
                break
        outs = []
        flo, fhi = d["clko_freq"]
        r = rng.random()
        kind = "sat" if r < 0.82 else "edge" if r < 0.92 else "any"
        edge_at = rng.randrange(k)
        for n in range(k):
            m = rng.choice([0, 1e-6, 1e-3, 1e-2])
            p = rng.choice([0, 0, 0, 90, 180, 270, 45, 22.5, 135.0, 30, 60])
            if vco is not None and (kind != "any" or rng.random() < 0.5):
                dv = rng.choice([rng.randrange(1, 129), rng.randrange(1, 17), rng.randrange(1, 9), 128, 127])
                while vco / dv > fhi:
                    dv += 1
                f = vco / dv
                if kind == "edge" and n == edge_at:
                    u = rng.choice([1, -1, 1.001, -1.001, 0.9999, -0.9999, 2.5, -2.5])
                else:
                    u = rng.choice([0, 0, 0, 0.5, -0.5, 0.9, -0.9])
                if m == 0 and not is_int(f) and rng.random() < 0.9:
                    m = 1e-6
                fx = f * (1 + F(u) * F(m))
                f = float(fx)
                if m != 0 and abs(u) <= 0.9 and rng.random() < 0.6:
                    f = float(round(f))
            else:
                f = rng.choice([25e6, 50e6, 100e6, 125e6, 133.333e6, 148.5e6, 200e6, 300e6, 400e6, 48e6, 12.288e6, 74.25e6,
                                float(rng.randrange(3_125_000, 400_000_001))])
            f = min(max(f, float(flo)), float(fhi))
            outs.append((f, p, m, int(rng.random() < 0.3)))
        c = {"fam": "ecp5", "clkin": clkin, "dpa_en": dpa_en, "outs": outs}
        if rng.random() < 0.4:
            c["with_resets"] = [int(rng.random() < 0.6) for _ in outs]
        if rng.random() < 0.1:
            c["bel"] = "X%d/Y%d/EHXPLL_%s" % (rng.randrange(90), rng.randrange(90), rng.choice(["LL", "UR"]))
        return gen_flags(rng, c)


# ------------------------------------------------------------------------------------------------------------------
# Running cases (worker pool; each worker owns a Lean driver process)
# ------------------------------------------------------------------------------------------------------------------

_FAMS = None
PIN_PATH = os.path.join(VERIF, "corpus", "C20", "tables.pinned.json")


def tables_jsonable(T):
    def conv(x):
        if isinstance(x, F):
            return "%d/%d" % (x.numerator, x.denominator)
        if isinstance(x, dict):
            return {k: conv(v) for k, v in x.items()}
        if isinstance(x, (list, tuple)):
            return [conv(v) for v in x]
        return x
    return conv(T)


def tables_from_json(J):
    def conv(x):
        if isinstance(x, str) and "/" in x and x.replace("/", "").replace("-", "").isdigit():
            a, b = x.split("/")
            return F(int(a), int(b))
        if isinstance(x, dict):
            return {k: conv(v) for k, v in x.items()}
        if isinstance(x, list):
            return tuple(conv(v) for v in x)
        return x
    T = conv(J)
    for fam in ("xilinx", "intel", "gowin", "gw5a"):
        if fam in T:
            T[fam] = [dict(d) for d in T[fam]]
            for d in T[fam]:
                if "specific" in d:
                    d["specific"] = list(d["specific"])
    return T


def pinned_tables():
    """The device limits the ORACLE and the generators use: a pinned copy (corpus/C20/tables.pinned.json) of the range
    tables of the reviewed tree, NOT the attributes of the classes under test — so a change of a declared range in
    the code cannot hide itself.  (The Lean model follows the regenerated tables; any difference between the two is
    reported.)  Re-pin deliberately with  C20_REPIN=1 ./check C20."""
    import json
    if os.environ.get("C20_REPIN") == "1" or not os.path.exists(PIN_PATH):
        with open(PIN_PATH, "w") as f:
            json.dump(tables_jsonable(tables()), f, indent=1, sort_keys=True)
    return tables_from_json(json.load(open(PIN_PATH)))


def table_diffs():
    """differences between the class attributes of the tree under test and the pinned tables."""
    cur, pin = tables_jsonable(tables()), tables_jsonable(pinned_tables())
    out = []

    def walk(a, b, path):
        if isinstance(a, dict) and isinstance(b, dict):
            for k in sorted(set(a) | set(b)):
                walk(a.get(k), b.get(k), path + "." + str(k))
        elif isinstance(a, list) and isinstance(b, list) and len(a) == len(b):
            for i, (x, y) in enumerate(zip(a, b)):
                nm = x.get("name", i) if isinstance(x, dict) else i
                walk(x, y, path + "[%s]" % nm)
        elif a != b:
            out.append("%s: tree=%s pinned=%s" % (path.lstrip("."), a, b))
    walk(cur, pin, "")
    return out


def fams():
    global _FAMS
    if _FAMS is None:
        T = pinned_tables()
        _FAMS = {}
        for cls in FAMILY_CLASSES:
            o = cls(T)
            _FAMS[o.fam] = o
    return _FAMS


def jsonable(x):
    if isinstance(x, F):
        return "%d/%d" % (x.numerator, x.denominator) if x.denominator != 1 else int(x)
    if isinstance(x, dict):
        return {str(k): jsonable(v) for k, v in x.items()}
    if isinstance(x, (list, tuple)):
        return [jsonable(v) for v in x]
    return x


CASE_TIMEOUT_S = int(os.environ.get("C20_CASE_TIMEOUT", "150"))


class CaseTimeout(BaseException):
    pass


def _alarm(signum, frame):
    raise CaseTimeout()


def run_real_guarded(fam, c):
    """the real code with a wall-clock limit: a hang of a changed implementation ends as status 'timeout'."""
    import signal
    try:
        old = signal.signal(signal.SIGALRM, _alarm)
    except ValueError:           # not in the main thread
        return fam.real(c)
    signal.setitimer(signal.ITIMER_REAL, CASE_TIMEOUT_S)
    try:
        return fam.real(c)
    except CaseTimeout:
        return {"status": "timeout", "exc": "no answer within %d s" % CASE_TIMEOUT_S}
    finally:
        signal.setitimer(signal.ITIMER_REAL, 0)
        signal.signal(signal.SIGALRM, old)


def run_case(fam, c, model_line):
    """-> record dict (JSON-able)."""
    import time
    t0 = time.process_time()
    real = run_real_guarded(fam, c)
    t1 = time.process_time()
    if real["status"] == "timeout":
        return {"case": c, "status": "timeout", "dis": None, "borderline": False, "region": None,
                "viol": ["the real code did not answer within %d s (hang)" % CASE_TIMEOUT_S], "real": real}
    rec = {"case": c, "status": real["status"], "dis": None, "viol": [], "borderline": False, "region": None}
    if real["status"] == "assertion" and hasattr(fam, "out_of_domain") and fam.out_of_domain(c):
        rec["out_of_domain"] = True          # input outside the declared legal ranges, refused by the helper's assert
        return rec
    try:
        orc = fam.oracle(c, real)
    except Exception as e:   # oracle failure is a machinery error, reported as such
        import traceback
        rec["error"] = "oracle: " + traceback.format_exc()[-600:]
        return rec
    viol, borderline, why, first = orc[0], orc[1], orc[2], orc[3]
    region = orc[4] if len(orc) > 4 else None
    if hasattr(fam, "region"):
        region = fam.region(c, real) or region
    rec["borderline"], rec["why"], rec["region"] = borderline, why, region
    rec["t_real"], rec["t_oracle"] = round(t1 - t0, 4), round(time.process_time() - t1, 4)
    if region is not None:
        rec["real"] = jsonable(real)
        return rec                      # known-defect region: counted, not compared
    rec["viol"] = viol
    if viol:
        rec["real"] = jsonable(real)
    if model_line is not None and not borderline:
        model_line, _, model_emit = model_line.partition(" || ")
        try:
            model = fam.parse(c, model_line)
            dis = fam.compare(c, real, model)
            if dis is None and model_emit and real["status"] == "ok" and real.get("emit") is not None:
                dis = compare_model_emit(fam, c, real, model_emit, model)
                rec["emit_compared"] = True
        except Exception as e:
            dis = "unparsable model answer %r (%r)" % (model_line[:80], e)
        if dis is None and first is not None and real["status"] == "ok" and hasattr(fam, "first_key"):
            if fam.first_key(real) != first:
                dis = "real config %s is not the first valid one %s (oracle)" % (fam.first_key(real), first)
        if dis:
            rec["dis"] = dis
            rec["real"] = jsonable(real)
            rec["model"] = model_line
    return rec


def _chunk_worker(args):
    idx, cases, use_lean = args
    import envshim
    envshim.install()
    fast_tracer()
    F_ = fams()
    all_lines = [F_[c["fam"]].lean_line(c) for c in cases]
    idx_with = [i for i, l in enumerate(all_lines) if l is not None]
    lines = [all_lines[i] for i in idx_with]
    answers = [None] * len(cases)
    drv = None
    lean_err = None
    if use_lean:
        from leanproc import LeanDriver
        try:
            drv = LeanDriver("C20")
            try:
                got = drv.call_batch(lines)
                for i, a in zip(idx_with, got):
                    answers[i] = a
            finally:
                drv.quit()
        except Exception as e:      # the oracle still runs on every case
            lean_err = repr(e)
            answers = [None] * len(cases)
    out = []
    for c, a in zip(cases, answers):
        try:
            if a is None and F_[c["fam"]].lean_line(c) is None:
                pass
            out.append(run_case(F_[c["fam"]], c, a))
            if lean_err and not out[-1].get("error") and F_[c["fam"]].lean_line(c) is not None:
                out[-1]["error"] = "lean driver: " + lean_err
        except Exception:
            import traceback
            out.append({"case": c, "status": "error", "dis": None, "viol": [], "borderline": False, "region": None,
                        "error": traceback.format_exc()[-800:]})
    return idx, out


def run_cases(cases, use_lean=True, procs=None, chunk=40):
    import multiprocessing as mp
    procs = procs or int(os.environ.get("VERIF_PROCS", "0")) or 6
    nch = max(1, (len(cases) + chunk - 1) // chunk)
    # strided chunks: every chunk gets the same mix of cheap and expensive families
    chunks = [(i, cases[i::nch], use_lean) for i in range(nch)]
    if procs <= 1 or len(chunks) <= 1:
        res = [_chunk_worker(a) for a in chunks]
    else:
        with mp.get_context("fork").Pool(min(procs, len(chunks))) as pool:
            res = pool.map(_chunk_worker, chunks, chunksize=1)
    out = [None] * len(cases)
    for i, recs in res:
        out[i::nch] = recs
    return out



# ------------------------------------------------------------------------------------------------------------------
# Lattice iCE40
# ------------------------------------------------------------------------------------------------------------------

class Ice40:
    fam = "ice40"
    FILTER = [(17e6, 1), (26e6, 2), (44e6, 3), (66e6, 4), (101e6, 5), (133e6, 6)]

    def __init__(self, T):
        self.d = T["ice40"]

    def lean_line(self, c):
        f, m = c["out"]
        return "ice40 %s %s 0 1 %s %s" % (qs(c["clkin"]), qs(f), qs(m), "pad" if c.get("prim") == "SB_PLL40_PAD" else "core")

    def real(self, c):
        from migen import Signal
        from litex.soc.cores.clock.lattice_ice40 import iCE40PLL
        try:
            o = iCE40PLL(primitive=c.get("prim", "SB_PLL40_CORE"))
            cd0 = mk_cd(0)
            do_calls(c, lambda: o.register_clkin(Signal(), c["clkin"]),
                     [lambda: o.create_clkout(cd0, c["out"][0], with_reset=bool(c.get("with_reset")),
                                              **kw_for(c, 0, c["out"][1], with_phase=False))])
            cfg = finalize_capture(o)
            again = o.compute_config() if c.get("twice") else cfg
        except Exception as e:
            return {"status": status_of(e), "exc": repr(e)}
        P = instance_params(o, ("SB_PLL40_CORE", "SB_PLL40_PAD")) or {}
        sym = E.Sym().add(o.clkin, "clkin").add(o.locked, "locked").add(o.reset, "reset").add(o.clkouts[0][0], "clkout0")
        emit, wviol, inst = one_instance(o, ("SB_PLL40_CORE", "SB_PLL40_PAD"), sym)
        if inst is not None:
            wviol += E.clock_wiring(o, [cd0], [o.clkouts[0][0]], sym, with_reset=[bool(c.get("with_reset"))])
        return {"status": "ok", "divr": cfg["divr"], "divf": cfg["divf"], "divq": cfg["divq"], "vco": F(cfg["vco"]),
                "cfg": cfg_numbers(cfg), "emit": emit, "wviol": wviol,
                "freq": F(cfg["clkout_freq"]),
                "wiring": instance_outputs(o, ("SB_PLL40_CORE", "SB_PLL40_PAD")).get("PLLOUTGLOBAL") is o.clkouts[0][0],
                "idempotent": again == cfg,
                "P": {k: P.get(k) for k in ("DIVR", "DIVF", "DIVQ", "FILTER_RANGE", "FEEDBACK_PATH")}}

    def parse(self, c, line):
        if line == "none":
            return {"status": "rejected"}
        w = line.split()
        return {"status": "ok", "divr": int(w[1]), "divf": int(w[2]), "divq": int(w[3]), "vco": F(int(w[4]), int(w[5])),
                "filter": int(w[6])}

    def compare(self, c, real, model):
        if real["status"] != model["status"]:
            return "status real=%s model=%s" % (real["status"], model["status"])
        if real["status"] != "ok":
            return None
        for k in ("divr", "divf", "divq"):
            if real[k] != model[k]:
                return "%s real=%s model=%s" % (k, real[k], model[k])
        if not rel_close(real["vco"], model["vco"]):
            return "vco"
        P = real["P"]
        if (P["DIVR"], P["DIVF"], P["DIVQ"], P["FILTER_RANGE"]) != (model["divr"], model["divf"], model["divq"], model["filter"]):
            return "instance parameters real=%s model=%s" % (P, model)
        return None

    def first_key(self, real):
        return (real["divr"], real["divf"])

    def out_of_domain(self, c):
        d = self.d
        return not (d["clki_freq"][0] <= F(c["clkin"]) <= d["clki_freq"][1]) or \
            not (d["clko_freq"][0] <= F(c["out"][0]) <= d["clko_freq"][1])

    def oracle(self, c, real):
        d = self.d
        clkin = F(c["clkin"])
        f, m = F(c["out"][0]), F(c["out"][1])
        vmin, vmax = d["vco"]
        fl = Flags()
        first, robust = None, None
        for divr in range(*d["divr"]):
            exact_ctx = is_int(clkin) and int(clkin) % (divr + 1) == 0 and is_int(f)
            for divf in range(*d["divf"]):
                vco = clkin / (divr + 1) * (divf + 1)
                if first is None:
                    in_win = fl.cmp_le(vmin, vco, exact_ctx, "vco>=min") and fl.cmp_le(vco, vmax, exact_ctx, "vco<=max")
                else:
                    in_win = vmin <= vco <= vmax
                if not in_win:
                    continue
                ok = rob = False
                for q in range(*d["divq"]):
                    diff = abs(vco / 2 ** q - f)
                    if first is None:
                        good = fl.cmp_le(diff, f * m, exact_ctx and m == 0, "margin", scale=f)
                    else:
                        good = diff <= f * m
                    ok = ok or good
                    if diff <= f * m - SLACK * f or (diff == 0 and exact_ctx):
                        rob = True
                if rob and rob_in(vmin, vco, vmax, exact_ctx) and robust is None:
                    robust = (divr, divf)
                if ok and first is None:
                    first = (divr, divf)
                if first is not None and (robust is not None or real["status"] == "ok"):
                    break
            if first is not None and (robust is not None or real["status"] == "ok"):
                break
        viol = []
        if real["status"] == "ok":
            divr, divf, divq = real["divr"], real["divf"], real["divq"]
            for nm, v, r in (("divr", divr, d["divr"]), ("divf", divf, d["divf"]), ("divq", divq, d["divq"])):
                if not (r[0] <= v < r[1]):
                    viol.append("%s %s outside declared range" % (nm, v))
            vco = clkin / (divr + 1) * (divf + 1)
            if not (vmin * (1 - SLACK) <= vco <= vmax * (1 + SLACK)):
                viol.append("VCO %s Hz outside declared range" % float(vco))
            if not rel_close(vco, real["vco"]):
                viol.append("reported vco differs from clkin/(divr+1)*(divf+1)")
            if not (abs(vco / 2 ** divq - f) <= f * m + SLACK * f):
                viol.append("output %s Hz vs requested %s Hz margin %s" % (float(vco / 2 ** divq), float(f), float(m)))
            P = real["P"]
            pfd = clkin / (divr + 1)
            want = next((v for t, v in self.FILTER if pfd < F(t)), None)
            if (P["DIVR"], P["DIVF"], P["DIVQ"]) != (divr, divf, divq) or P["FILTER_RANGE"] != want:
                viol.append("instance parameters %s do not equal the configuration (filter range %s)" % (P, want))
            if not real["wiring"]:
                viol.append("PLLOUTGLOBAL is not connected to the requested clock output")
            viol += emit_viol(E.expect_ice40(c.get("prim", "SB_PLL40_CORE"), c["clkin"], real["cfg"]), real)
            if not real["idempotent"]:
                viol.append("a second compute_config() call returns a different configuration")
        elif real["status"] == "rejected":
            if robust is not None:
                viol.append("refused although divr=%s divf=%s satisfies the request" % robust)
        else:
            viol.append("unexpected exception " + real.get("exc", ""))
        return viol, fl.borderline, fl.why, first

    def directed(self):
        """range extremes (margin 0, integer Hz): the only valid (DIVR, DIVF, DIVQ) uses the last DIVF (ratio 128/3 is
        irreducible), the last DIVR (127/16), the last DIVQ (16 MHz = 1024 MHz / 64), the first DIVR/DIVF reachable."""
        return [{"fam": "ice40", "clkin": ck, "out": (f, 0), "prim": "SB_PLL40_CORE", "twice": False, "with_reset": 0}
                for ck, f in ((24e6, 256e6), (128e6, 254e6), (16e6, 16e6), (12e6, 67.5e6), (133e6 - 1e6, 264e6), (10e6, 270e6))]

    def gen(self, rng):
        d = self.d
        # clkin strictly below the top of clki_freq_range: at exactly 133 MHz the FILTER_RANGE table has no entry
        clkin = gen_clkin(rng, float(d["clki_freq"][0]), min(float(d["clki_freq"][1]), 133e6) - 1)
        m = rng.choice([0, 1e-6, 1e-3, 1e-2])
        r = rng.random()
        if r < 0.85:
            divr = rng.choice([0, 0, 0, 1, 2, 3, rng.randrange(16)])
            pfd = F(clkin) / (divr + 1)
            lo, hi = math.ceil(d["vco"][0] / pfd), math.floor(d["vco"][1] / pfd)
            if lo <= hi and lo <= 128:
                vco = pfd * rng.randrange(lo, min(hi, 128) + 1)
                fq = vco / 2 ** rng.randrange(0, 7)
                u = rng.choice([0, 0, 0, 0.5, -0.5, 0.9, -0.9, 1, -1, 1.001, -1.001])
                if m == 0 and not is_int(fq):
                    m = 1e-6
                f = float(fq * (1 + F(u) * F(m)))
                if m != 0 and abs(u) <= 0.9 and rng.random() < 0.5:
                    f = float(round(f))
            else:
                f = 48e6
        else:
            f = rng.choice([16e6, 24e6, 48e6, 50e6, 100e6, 133.333e6, float(rng.randrange(16_000_000, 275_000_000))])
        f = min(max(f, float(d["clko_freq"][0])), float(d["clko_freq"][1]))
        c = {"fam": "ice40", "clkin": clkin, "out": (f, m), "prim": rng.choice(["SB_PLL40_CORE", "SB_PLL40_PAD"]),
             "twice": rng.random() < 0.3, "with_reset": int(rng.random() < 0.4)}
        return gen_flags(rng, c)


# ------------------------------------------------------------------------------------------------------------------
# Lattice NX  (NXPLL + NXOSCA.compute_divisor)
# ------------------------------------------------------------------------------------------------------------------

class Nx:
    fam = "nx"
    N2L = {0: "P", 1: "S", 2: "S2", 3: "S3", 4: "S4"}

    def __init__(self, T):
        self.d = T["nx"]

    def lean_line(self, c):
        outs = " ".join("%s %s %s" % (qs(f), qs(p), qs(m)) for f, p, m in c["outs"])
        return "nx %s %d %s" % (qs(c["clkin"]), len(c["outs"]), outs)

    def real(self, c):
        from migen import Signal
        from litex.soc.cores.clock.lattice_nx import NXPLL
        try:
            with quiet():
                o = NXPLL()
            cds = [mk_cd(i) for i in range(len(c["outs"]))]
            do_calls(c, lambda: o.register_clkin(Signal(), c["clkin"]),
                     [lambda i=i, f=f, p=p, m=m: o.create_clkout(cds[i], f, **kw_for(c, p, m))
                      for i, (f, p, m) in enumerate(c["outs"])], probe=lambda: o.compute_config())
            if c.get("finalize"):
                cfg = finalize_capture(o)
            else:
                cfg = o.compute_config()
                if c.get("twice") and o.compute_config() != cfg:
                    return {"status": "crash", "exc": "a second compute_config() call returns a different configuration"}
        except Exception as e:
            return {"status": status_of(e), "exc": repr(e)}
        r = {"status": "ok", "clki": cfg["clki_div"], "fb": cfg["clkfb_div"], "vco": F(cfg["vco"]),
             "divs": [cfg["clko%d_div" % n] for n in range(len(c["outs"]))], "P": None}
        if c.get("finalize"):
            P = instance_params(o, ("PLL",)) or {}
            per = []
            for n in range(len(c["outs"])):
                l = chr(65 + n)
                per.append((P.get("DIV" + l), P.get("DEL" + l), P.get("PHI" + l), P.get("ENCLK_CLKO" + self.N2L[n])))
            ports = instance_outputs(o, ("PLL",))
            r["wiring"] = all(ports.get("CLKO" + self.N2L[n]) is cds[n].clk for n in range(len(c["outs"])))
            sym = E.Sym().add(o.clkin, "clkin").add(o.locked, "locked").add(o.reset, "reset")
            for n, cd in enumerate(cds):
                sym.add(cd.clk, "clkout%d" % n)
            r["emit"], r["wviol"], inst = one_instance(o, ("PLL",), sym)
            if inst is not None and inst.name_override != o.name:
                r["wviol"].append("instance name %r differs from the helper's name %r" % (inst.name_override, o.name))
            r["cfg"] = cfg_numbers(cfg)
            r["P"] = {"REF_MMD_DIG": P.get("REF_MMD_DIG"), "DIVF": P.get("DIVF"), "DELF": P.get("DELF"),
                      "FBK_MMD_DIG": P.get("FBK_MMD_DIG"), "SEL_FBK": P.get("SEL_FBK"), "per": per}
        return r

    def parse(self, c, line):
        if line == "none":
            return {"status": "rejected"}
        w = line.split()
        clki, fb = int(w[1]), int(w[2])
        vco = F(int(w[3]), int(w[4]))
        ref, divf, k = int(w[5]), int(w[6]), int(w[7])
        per = [(int(w[8 + 3 * i]), int(w[9 + 3 * i]), int(w[10 + 3 * i])) for i in range(k)]
        return {"status": "ok", "clki": clki, "fb": fb, "vco": vco, "divs": [x[0] for x in per], "ref": ref, "divf": divf,
                "per": per}

    def compare(self, c, real, model):
        if real["status"] != model["status"]:
            return "status real=%s model=%s" % (real["status"], model["status"])
        if real["status"] != "ok":
            return None
        for k in ("clki", "fb", "divs"):
            if real[k] != model[k]:
                return "%s real=%s model=%s" % (k, real[k], model[k])
        if not rel_close(real["vco"], model["vco"]):
            return "vco"
        P = real["P"]
        if P is not None:
            mine = (str(model["ref"]), str(model["divf"]), [(str(dx), str(dl)) for _, dx, dl in model["per"]])
            theirs = (P["REF_MMD_DIG"], P["DIVF"], [(x[0], x[1]) for x in P["per"]])
            if mine != theirs:
                return "instance parameters real=%s model=%s" % (theirs, mine)
        return None

    def first_key(self, real):
        return (real["clki"], real["fb"])

    def oracle(self, c, real):
        d = self.d
        clkin = F(c["clkin"])
        outs = [(F(f), F(p), F(m)) for f, p, m in c["outs"]]
        vmin, vmax = d["vco"]
        pmin, pmax = d["pfd"]
        olo, ohi = d["clko"]
        fl = Flags()
        first, robust = None, None
        need_robust = real["status"] != "ok"
        for clki in range(*d["clki"]):
            exact_ctx = is_int(clkin) and int(clkin) % clki == 0 and all(is_int(f) for f, _, _ in outs)
            pfd = clkin / clki
            pfd_rob = rob_in(pmin, pfd, pmax, exact_ctx)
            kmin, kmax = math.ceil(vmin / pfd), math.floor(vmax / pfd)
            for fb in range(max(d["clkfb"][0], kmin - 1), min(d["clkfb"][1] - 1, kmax + 1) + 1):
                vco = pfd * fb
                if first is None:
                    in_win = fl.cmp_le(vmin, vco, exact_ctx, "vco>=min") and fl.cmp_le(vco, vmax, exact_ctx, "vco<=max")
                else:
                    in_win = vmin <= vco <= vmax
                if not in_win:
                    continue
                all_ok, all_rob = True, rob_in(vmin, vco, vmax, exact_ctx) and pfd_rob
                for n, (f, p, m) in enumerate(outs):
                    dlo, dhi = divider_window(vco, f, m)
                    nflag = fl.count
                    g = max(olo, math.ceil(dlo))
                    ok_n = g < ohi and (dhi is None or g <= dhi)
                    if first is None:
                        for x in {math.floor(dlo), math.ceil(dlo)} | ({math.floor(dhi), math.ceil(dhi)} if dhi is not None else set()):
                            if olo <= x < ohi:
                                for t in (dlo, dhi):
                                    if t is None:
                                        continue
                                    if x == t:
                                        if not exact_ctx or m != 0:
                                            fl._flag("divider on a margin edge")
                                    elif abs(x - t) <= SLACK * t:
                                        fl._flag("divider within 2^-40 of a margin edge")
                    g2 = max(olo, math.ceil(dlo * (1 + SLACK)))
                    rob_n = g2 < ohi and (dhi is None or g2 <= dhi * (1 - SLACK))
                    if not rob_n and m == 0 and exact_ctx and ok_n and g == dlo:
                        rob_n = True
                    all_ok = all_ok and ok_n
                    all_rob = all_rob and rob_n
                    if not ok_n and nflag == fl.count:
                        break
                if all_ok and first is None:
                    first = (clki, fb)
                if all_rob and robust is None:
                    robust = (clki, fb)
                if first is not None and (not need_robust or robust is not None):
                    break
            if first is not None and (not need_robust or robust is not None):
                break
        viol = []
        region = None
        if real["status"] == "ok":
            clki, fb, divs = real["clki"], real["fb"], real["divs"]
            if not (d["clki"][0] <= clki < d["clki"][1]):
                viol.append("clki_div %s outside declared range" % clki)
            if not (d["clkfb"][0] <= fb < d["clkfb"][1]):
                viol.append("clkfb_div %s outside declared range" % fb)
            for n, dv in enumerate(divs):
                if not (olo <= dv < ohi):
                    viol.append("clko%d_div %s outside declared range" % (n, dv))
            pfd = clkin / clki
            vco = pfd * fb
            if not (vmin * (1 - SLACK) <= vco <= vmax * (1 + SLACK)):
                viol.append("VCO %s Hz outside declared range" % float(vco))
            if not rel_close(vco, real["vco"]):
                viol.append("reported vco differs from clkin/clki_div*clkfb_div")
            for n, (f, p, m) in enumerate(outs):
                if divs[n] > 0 and not (abs(vco / divs[n] - f) <= f * m + SLACK * f):
                    viol.append("clko%d: %s Hz vs requested %s Hz margin %s" % (n, float(vco / divs[n]), float(f), float(m)))
            if not (pmin * (1 - SLACK) <= pfd <= pmax * (1 + SLACK)):
                region = "C20-nx-pfd-range-unchecked"          # PFD (vco_in_freq_range) violated: open finding
            P = real["P"]
            if P is not None:
                if not real.get("wiring", True):
                    viol.append("PLL output ports are not connected to the requested clock domains in order")
                if P["DIVF"] != str(fb - 1) or P["FBK_MMD_DIG"] != "1" or P["SEL_FBK"] != "FBKCLK5":
                    viol.append("feedback parameters %s do not equal clkfb_div %s" % (P, fb))
                for n, (dx, dl, phi, en) in enumerate(P["per"]):
                    want_del = int((1 + outs[n][1] / 360) * divs[n]) - 1
                    if dx != str(divs[n] - 1) or dl != str(want_del) or en != "ENABLED":
                        viol.append("CLKO%s DIV/DEL = %s/%s for div %s phase %s" % (self.N2L[n], dx, dl, divs[n], float(outs[n][1])))
                want = E.expect_nx(real["cfg"], c["outs"])
                got = dict(real.get("emit") or {})
                got.pop("p_REF_MMD_DIG", None)          # handled below (open finding)
                viol += E.diff_dicts(want, got, "emitted PLL") + list(real.get("wviol") or [])
                if P["REF_MMD_DIG"] != str(clki):
                    region = region or "C20-nx-clki-div-not-placed"   # input divider not placed: open finding
        elif real["status"] == "rejected":
            if robust is not None:
                viol.append("refused although clki=%s clkfb_div=%s satisfies the request" % robust)
        else:
            viol.append("unexpected exception " + real.get("exc", ""))
        if viol:
            region = None          # anything beyond the two listed findings is reported
        return viol, fl.borderline, fl.why, first, region

    def directed(self):
        """range extremes (margin 0): 10 MHz -> 640 MHz needs the LAST feedback divider (VCO 1280 MHz = 10 MHz * 128, the
        only VCO in the window that 640 MHz divides); 6.25 MHz needs the LAST output divider with the VCO on its lower
        edge; 800 MHz the first dividers."""
        mk = lambda ck, outs: {"fam": "nx", "clkin": ck, "outs": [(f, p, 0) for f, p in outs], "finalize": False, "twice": False}
        return [mk(10e6, [(640e6, 0)]), mk(25e6, [(6.25e6, 0)]), mk(25e6, [(800e6, 0)]), mk(12.5e6, [(800e6, 0), (12.5e6, 90)]),
                mk(500e6, [(6.25e6, 0), (800e6, 0)]), mk(10e6, [(6.25e6, 180)])]

    def gen(self, rng):
        d = self.d
        clkin = gen_clkin(rng, float(d["clki_freq"][0]), float(d["clki_freq"][1]))
        k = rng.choice([1, 1, 2, 2, 3, 4, 5])
        vco = None
        for _ in range(60):
            clki = rng.choice([1, 1, 1, 1, 2, 3, 4, rng.randrange(1, 20), rng.randrange(1, 129)])
            pfd = F(clkin) / clki
            lo, hi = math.ceil(d["vco"][0] / pfd), min(128, math.floor(d["vco"][1] / pfd))
            if lo <= hi:
                vco = pfd * (rng.choice([lo, hi]) if rng.random() < 0.25 else rng.randrange(lo, hi + 1))
                break
        r = rng.random()
        kind = "sat" if r < 0.82 else "edge" if r < 0.92 else "any"
        edge_at = rng.randrange(k)
        flo, fhi = d["clko_freq"]
        outs = []
        for n in range(k):
            m = rng.choice([0, 1e-6, 1e-3, 1e-2])
            p = rng.choice([0, 0, 0, 90, 180, 270, 45, 22.5, 135.0, 225])
            if vco is not None and (kind != "any" or rng.random() < 0.5):
                dv = rng.choice([rng.randrange(1, 129), rng.randrange(1, 17), rng.randrange(2, 9), 128])
                while vco / dv > fhi:
                    dv += 1
                f = vco / dv
                if kind == "edge" and n == edge_at:
                    u = rng.choice([1, -1, 1.001, -1.001, 0.9999, -0.9999, 2.5, -2.5])
                else:
                    u = rng.choice([0, 0, 0, 0.5, -0.5, 0.9, -0.9])
                if m == 0 and not is_int(f) and rng.random() < 0.9:
                    m = 1e-6
                f = float(f * (1 + F(u) * F(m)))
                if m != 0 and abs(u) <= 0.9 and rng.random() < 0.6:
                    f = float(round(f))
            else:
                f = rng.choice([25e6, 50e6, 100e6, 125e6, 133.333e6, 148.5e6, 200e6, 300e6, 400e6, 48e6, 12.288e6, 74.25e6,
                                float(rng.randrange(6_250_000, 800_000_001))])
            f = min(max(f, float(flo)), float(fhi))
            outs.append((f, p, m))
        return gen_flags(rng, {"fam": "nx", "clkin": clkin, "outs": outs, "finalize": rng.random() < 0.12,
                               "twice": rng.random() < 0.2})


class NxOsc:
    fam = "nxosc"

    def __init__(self, T):
        self.d = T["nxosc"]

    def lean_line(self, c):
        return "nxosc %s %s" % (qs(c["f"]), qs(c["m"]))

    def real(self, c):
        from litex.soc.cores.clock.lattice_nx import NXOSCA
        try:
            o = NXOSCA()
            for (pf, pm) in c.get("pre", ()):          # earlier calls on the SAME object (may refuse): no state may survive
                try:
                    with quiet():
                        o.compute_divisor(pf, pm)
                except ValueError:
                    pass
            return {"status": "ok", "div": int(o.compute_divisor(c["f"], c["m"]))}
        except Exception as e:
            return {"status": status_of(e), "exc": repr(e)}

    def parse(self, c, line):
        return {"status": "rejected"} if line == "none" else {"status": "ok", "div": int(line.split()[1])}

    def compare(self, c, real, model):
        if real["status"] != model["status"] or real.get("div") != model.get("div"):
            return "real=%s model=%s" % (real, model)
        return None

    def oracle(self, c, real):
        d = self.d
        f, m, hf = F(c["f"]), F(c["m"]), d["hf"]
        fl = Flags()
        exists = None
        for dv in range(*d["div"]):
            diff = abs(hf / (dv + 1) - f)
            if exists is None or real.get("div", 10 ** 9) >= dv:
                fl.cmp_le(diff, f * m, False, "margin", scale=f)
            if diff <= f * m - SLACK * f and exists is None:
                exists = dv
        viol = []
        if real["status"] == "ok":
            dv = real["div"]
            if not (d["div"][0] <= dv < d["div"][1]):
                viol.append("divisor outside declared range")
            if not (abs(hf / (dv + 1) - f) <= f * m + SLACK * f):
                viol.append("oscillator output %s vs requested %s margin %s" % (float(hf / (dv + 1)), float(f), float(m)))
        elif real["status"] == "rejected":
            if exists is not None:
                viol.append("refused although divisor %d satisfies the request" % exists)
        else:
            viol.append("unexpected exception " + real.get("exc", ""))
        return viol, fl.borderline, fl.why, None

    def gen(self, rng):
        d = self.d
        m = rng.choice([0.0, 1e-3, 1e-2, 0.05, 0.05])
        dv = rng.randrange(0, 256)
        u = rng.choice([0, 0, 0.5, -0.5, 0.9, -0.9, 1.2, -1.2, 3])
        f = float(d["hf"] / (dv + 1) * (1 + F(u) * F(m)))
        f = min(max(f, 1.76), 450e6)
        c = {"fam": "nxosc", "f": f, "m": m}
        if rng.random() < 0.5:       # history: satisfiable and unsatisfiable calls before this one
            c["pre"] = [(float(d["hf"] / rng.choice([rng.randrange(1, 256), rng.randrange(1, 8) + 0.5])), rng.choice([0.0, 0.01, 0.05]))
                        for _ in range(rng.choice([1, 1, 2]))]
        return c



class NxOscFin:
    """NXOSCA.do_finalize with an HF and an HFSDC clock: each placed divisor must serve its own request."""
    fam = "nxoscfin"

    def __init__(self, T):
        self.d = T["nxosc"]

    def lean_line(self, c):
        hf = c.get("hf") or (1.0, 0.0)
        return "nxoscfin %d %s %s %s %s %d" % (int(bool(c.get("hf"))), qs(hf[0]), qs(hf[1]), qs(c["hfsdc"][0]), qs(c["hfsdc"][1]),
                                                int(bool(c.get("lf"))))

    def real(self, c):
        from litex.soc.cores.clock.lattice_nx import NXOSCA
        try:
            o = NXOSCA()
            cds = [mk_cd(0), mk_cd(1), mk_cd(2)]
            if c.get("hf"):
                o.create_hf_clk(cds[0], c["hf"][0], margin=c["hf"][1])
            o.create_hfsdc_clk(cds[1], c["hfsdc"][0], margin=c["hfsdc"][1])
            if c.get("lf"):
                o.create_lf_clk(cds[2])
            o.finalize()
            P = instance_params(o, ("OSCA",)) or {}
            sym = E.Sym()
            if c.get("hf"):
                sym.add(o.hf_clk_out[0], "hf")
            sym.add(o.hfsdc_clk_out[0], "hfsdc")
            if c.get("lf"):
                sym.add(o.lf_clk_out, "lf")
            emit, wviol, inst = one_instance(o, ("OSCA",), sym)
            for i, (sig, on) in enumerate(((o.hf_clk_out[0] if c.get("hf") else None, c.get("hf")),
                                           (o.hfsdc_clk_out[0], True), (o.lf_clk_out, c.get("lf")))):
                if on and comb_drivers(o, cds[i].clk) != [sig]:
                    wviol.append("clock domain %d is not driven from its oscillator output" % i)
            return {"status": "ok", "hf_div": P.get("HF_CLK_DIV"), "div": int(P.get("HF_SED_SEC_DIV")), "emit": emit,
                    "wviol": wviol}
        except Exception as e:
            return {"status": status_of(e), "exc": repr(e)}

    def parse(self, c, line):
        return {"status": "rejected"} if line == "none" else {"status": "ok", "div": int(line.split()[1])}

    def compare(self, c, real, model):
        if real["status"] != model["status"] or real.get("div") != model.get("div"):
            return "HF_SED_SEC_DIV real=%s model=%s" % (real, model)
        return None

    def oracle(self, c, real):
        hf = self.d["hf"]
        viol = []
        fl = Flags()
        if real["status"] == "ok":
            for nm, key, req in (("HF_CLK_DIV", "hf_div", c.get("hf")), ("HF_SED_SEC_DIV", "div", c["hfsdc"])):
                if req is None:
                    continue
                f, m = F(req[0]), F(req[1])
                dv = int(real[key])
                for x in range(*self.d["div"]):
                    fl.cmp_le(abs(hf / (x + 1) - f), f * m, False, "margin", scale=f)
                if not (abs(hf / (dv + 1) - f) <= f * m + SLACK * f):
                    viol.append("%s=%d gives %s Hz, requested %s Hz margin %s" % (nm, dv, float(hf / (dv + 1)), float(f), float(m)))
            # every placed item: the divisors are taken from the instance (checked against their requests above)
            viol += emit_viol(E.expect_nxosc(real["hf_div"] if c.get("hf") else None, real["div"], c.get("lf")), real)
        elif real["status"] == "rejected":
            # refused only if one of the requests has no divisor (each request judged on its own, robustly)
            sat = []
            for req in (c.get("hf"), c["hfsdc"]):
                if req is not None:
                    f, m = F(req[0]), F(req[1])
                    for x in range(*self.d["div"]):
                        fl.cmp_le(abs(hf / (x + 1) - f), f * m, False, "margin", scale=f)
                    sat.append(any(abs(hf / (x + 1) - f) <= f * m - SLACK * f for x in range(*self.d["div"])))
            if all(sat):
                viol.append("refused although every requested oscillator clock has a divisor")
        else:
            viol.append("unexpected exception " + real.get("exc", ""))
        return viol, fl.borderline, fl.why, None

    def gen(self, rng):
        hf = self.d["hf"]
        def mk():
            if rng.random() < 0.25:      # between two dividers: unsatisfiable for small margins (must be REFUSED)
                return (float(hf / (rng.randrange(1, 12) + 0.5)), rng.choice([0.005, 0.01, 0.02]))
            return (float(hf / rng.randrange(1, 256)), rng.choice([0.01, 0.05]))
        return {"fam": "nxoscfin", "hf": mk() if rng.random() < 0.8 else None, "hfsdc": mk(), "lf": int(rng.random() < 0.4)}


# ------------------------------------------------------------------------------------------------------------------
# Intel (best-of search)
# ------------------------------------------------------------------------------------------------------------------

class Intel:
    fam = "intel"

    def __init__(self, T):
        self.devs = {d["name"]: d for d in T["intel"]}

    def lean_line(self, c):
        outs = " ".join("%s %s %s" % (qs(f), qs(p), qs(m)) for f, p, m in c["outs"])
        return "intel %s %s %s %d %s" % (c["dev"], qs(c["clkin"]), qs(c["vm"]), len(c["outs"]), outs)

    def real(self, c):
        from migen import Signal
        cls, g = c["dev"].split(":")
        try:
            o = mk_intel(cls, g)
            o.vco_margin = c["vm"]
            reset0 = o.reset
            cds = [mk_cd(i) for i in range(len(c["outs"]))]
            wrs = [bool(x) for x in c["with_resets"]] if c.get("with_resets") else [False] * len(cds)
            do_calls(c, lambda: o.register_clkin(Signal(), c["clkin"]),
                     [lambda i=i, f=f, p=p, m=m: o.create_clkout(cds[i], f, with_reset=wrs[i], **kw_for(c, p, m))
                      for i, (f, p, m) in enumerate(c["outs"])], probe=lambda: o.compute_config())
            cfg = finalize_capture(o)
        except Exception as e:
            return {"status": status_of(e), "exc": repr(e)}
        P = instance_params(o, ("ALTPLL",)) or {}
        sym = E.Sym().add(o.clkin, "clkin").add(o.locked, "locked").add(reset0, "reset0")
        for n, t in o.clkouts.items():
            sym.add(t[0], "clkout%d" % n)
        insts = E.find_instances(o, ("ALTPLL",))
        if len(insts) == 1:
            sym.add(port_expr(insts[0], "o", "CLK"), "clks")
        emit, wviol, inst = one_instance(o, ("ALTPLL",), sym)
        if inst is not None:
            nst = E.reset_chain(o, port_expr(inst, "i", "ARESET"), reset0, "DFFE", "clk", "d", "q",
                                {"ena": "c1w1", "clrn": "c1w1", "prn": "c1w1"}, o.clkin, sym)
            emit["i_ARESET"] = "reset0>>DFFE*%d" % nst
            clks = port_expr(inst, "o", "CLK")
            if clks is None or len(clks) != len(cds):
                wviol.append("CLK port is %s bits wide for %d outputs" % (None if clks is None else len(clks), len(cds)))
            for n in range(len(cds)):
                drv = [sym.tok(x) for x in comb_drivers(o, o.clkouts[n][0])]
                if drv != ["clks[%d:%d]" % (n, n + 1)]:
                    wviol.append("clkout%d is driven by %s, expected CLK[%d]" % (n, drv, n))
            wviol += E.clock_wiring(o, cds, [o.clkouts[n][0] for n in range(len(cds))], sym, with_reset=wrs)
        if P.get("INCLK0_INPUT_FREQUENCY") != int(1e12 / c["clkin"]):
            return {"status": "crash", "exc": "INCLK0_INPUT_FREQUENCY %s for clkin %s" % (P.get("INCLK0_INPUT_FREQUENCY"), c["clkin"])}
        k = len(c["outs"])
        return {"status": "ok", "m": cfg["m"], "vco": F(cfg["vco"]),
                "divs": [F(cfg["clk%d_divide" % n]) for n in range(k)], "freqs": [F(cfg["clk%d_freq" % n]) for n in range(k)],
                "P": [(P.get("CLK%d_DIVIDE_BY" % n), P.get("CLK%d_MULTIPLY_BY" % n), P.get("CLK%d_PHASE_SHIFT" % n)) for n in range(k)],
                "extra": sorted(x for x in P if x.startswith("CLK") and x.endswith("_DIVIDE_BY") and int(x[3:-10]) >= k),
                "cfg": cfg_numbers(cfg), "emit": emit, "wviol": wviol}

    def parse(self, c, line):
        if line == "none":
            return {"status": "rejected"}
        w = line.split()
        n, m, k = int(w[1]), int(w[2]), int(w[3])
        return {"status": "ok", "n": n, "m": m, "divs": [F(int(w[4 + 3 * i]), int(w[5 + 3 * i])) for i in range(k)],
                "phase_ps": [int(w[6 + 3 * i]) for i in range(k)]}

    def compare(self, c, real, model):
        if real["status"] != model["status"]:
            return "status real=%s model=%s" % (real["status"], model["status"])
        if real["status"] != "ok":
            return None
        if real["m"] != model["m"] or real["divs"] != model["divs"]:
            # Exactly tied optima (the same ratio m/(c*n) written with other factors) are ordered by float noise in
            # the real code (the dict key is a float geometric mean): accept iff both reach the same exact optimum.
            if self.key(c, real["m"], real["divs"]) == self.key(c, model["m"], model["divs"]) != 0:
                return None
            return "m/divides real=(%s,%s) model=(%s,%s)" % (real["m"], real["divs"], model["m"], model["divs"])
        if [(F(a), b) for a, b, _ in real["P"]] != [(dv, model["m"]) for dv in model["divs"]]:
            return "instance parameters real=%s" % (real["P"],)
        # CLKn_PHASE_SHIFT = int(period_ps * phase / 360): float truncation may differ by one only when the exact value is
        # within 1e-6 of an integer
        for i, ((_, _, ps), mps) in enumerate(zip(real["P"], model["phase_ps"])):
            f, p, _m = c["outs"][i]
            exact = F(10 ** 12) * real["divs"][i] / (F(c["clkin"]) * real["m"]) * F(p) / 360
            near_int = abs(exact - round(exact)) < F(1, 10 ** 6)
            if ps != mps and not (near_int and abs(ps - mps) <= 1):
                return "CLK%d_PHASE_SHIFT real=%s model=%s" % (i, ps, mps)
        return None

    def emit_skip(self, c, real, model):
        """an exactly tied optimum written with other factors (accepted by compare): the per-output multiplier/divider
        items then legitimately differ from the model's (the oracle still checks them against the real configuration)."""
        if model and (real["m"] != model["m"] or real["divs"] != model["divs"]):
            return ["p_CLK%d_%s" % (n, x) for n in range(len(c["outs"])) for x in ("DIVIDE_BY", "MULTIPLY_BY")]
        return []

    def key(self, c, m, divs):
        k = F(1)
        for (f, p, mg), dv in zip(c["outs"], divs):
            k *= abs(F(c["clkin"]) * m / dv - F(f)) / F(f)
        return k

    def n_range(self, d, clkin):
        pmin, pmax = d["pfd"]
        min_n = max(math.ceil(clkin / pmax), d["n"][0])
        max_n = min(math.floor(clkin / pmin) + 1, d["n"][1])
        return range(min_n, max_n)

    def oracle(self, c, real):
        d = self.devs[c["dev"]]
        clkin, vm = F(c["clkin"]), F(c["vm"])
        outs = [(F(f), F(p), F(m)) for f, p, m in c["outs"]]
        lo, hi = d["vco"][0] * (1 + vm), d["vco"][1] * (1 - vm)
        ca, cb, cs_, ck = d["c"]
        assert cs_ == 1 and ck == 1
        ints = is_int(clkin) and all(is_int(f) for f, _, _ in outs)
        fl = Flags()
        pmin, pmax = d["pfd"]
        # the n range itself is computed with float ceil/floor of clkin/pfd
        for q in (clkin / pmax, clkin / pmin):
            if q.denominator != 1 and min(q - math.floor(q), math.ceil(q) - q) <= SLACK * q:
                fl._flag("n range bound within 2^-40 of an integer")
        cands = []          # (key product, (m, divides))
        robust = None
        for n in self.n_range(d, clkin):
            m_lo = max(d["m"][0], math.ceil(lo * n / clkin) - 1)
            m_hi = min(d["m"][1] - 1, math.floor(hi * n / clkin) + 1)
            for m in range(m_lo, m_hi + 1):
                vco = clkin * m / n
                if not (fl.cmp_le(lo, vco, vm == 0, "vco>=min") and fl.cmp_le(vco, hi, vm == 0, "vco<=max")):
                    continue
                key = F(1)
                divs = []
                ok = True
                rob = rob_in(lo, vco, hi, vm == 0 and ints)
                for (f, p, mg) in outs:
                    x = vco / f
                    best = None
                    for cc in (math.floor(x), math.ceil(x)):
                        if ca <= cc < cb:
                            diff = abs(vco / cc - f)
                            if 0 < diff <= SLACK * f:
                                fl._flag("output within 2^-40 of the request (float diff may be exactly 0)")
                            if fl.cmp_le(diff, f * mg, ints and mg == 0, "margin", scale=f):
                                if best is None or diff < best[1]:
                                    if best is not None and abs(diff - best[1]) <= SLACK * f:
                                        fl._flag("two dividers equally good")
                                    best = (cc, diff)
                                elif abs(diff - best[1]) <= SLACK * f and diff != best[1]:
                                    fl._flag("two dividers equally good")
                    if best is None:
                        ok = False
                        break
                    if not (best[1] <= f * mg - SLACK * f or (best[1] == 0 and ints)):
                        rob = False
                    key *= best[1] / f
                    divs.append(F(best[0] * n))
                if ok:
                    cands.append((key, (m, divs)))
                    if rob and robust is None:
                        robust = (n, m)
        first = None
        if cands:
            bestkey = min(k for k, _ in cands)
            winners = [cfg for k, cfg in cands if k == bestkey]
            first = winners[-1]
            for k, cfg in cands:
                if k != bestkey and k - bestkey <= F(1, 10 ** 6) * k and cfg != first:
                    fl._flag("runner-up configuration within 1e-6 of the best geometric mean")
                    break
            if bestkey == 0 and not ints:
                fl._flag("exact hit with non-integer frequencies")
        viol = []
        if real["status"] == "ok":
            m = real["m"]
            if not (d["m"][0] <= m < d["m"][1]):
                viol.append("m %s outside declared range" % m)
            good_n = None
            for n in self.n_range(d, clkin):
                if all(dv % n == 0 and ca <= dv / n < cb for dv in real["divs"]):
                    vco = clkin * m / n
                    if lo * (1 - SLACK) <= vco <= hi * (1 + SLACK):
                        good_n = n
                        break
            if good_n is None:
                viol.append("no input divider n in the declared/PFD range explains divides %s with m=%s inside the VCO window" % (
                    [str(x) for x in real["divs"]], m))
            for i, ((f, p, mg), dv) in enumerate(zip(outs, real["divs"])):
                fo = clkin * m / dv
                if not (abs(fo - f) <= f * mg + SLACK * f):
                    viol.append("clk%d: %s Hz vs requested %s Hz margin %s" % (i, float(fo), float(f), float(mg)))
                if not rel_close(fo, real["freqs"][i]):
                    viol.append("clk%d reported freq differs from clkin*m/divide" % i)
                dby, mby, ps = real["P"][i]
                if F(dby) != dv or mby != m:
                    viol.append("CLK%d_DIVIDE_BY/MULTIPLY_BY = %s/%s, configuration %s/%s" % (i, dby, mby, dv, m))
                want_ps = (F(10 ** 12) / fo) * p / 360
                if abs(ps - want_ps) > 1:
                    viol.append("CLK%d_PHASE_SHIFT %s ps, expected %s" % (i, ps, float(want_ps)))
            if real["extra"]:
                viol.append("parameters for unrequested outputs " + str(real["extra"]))
            if not viol:
                viol += emit_viol(E.expect_intel(c["clkin"], real["cfg"], c["outs"], d["nmax"]), real)
        elif real["status"] == "rejected":
            if robust is not None:
                viol.append("refused although n=%s m=%s satisfies the request" % robust)
        else:
            viol.append("unexpected exception " + real.get("exc", ""))
        return viol, fl.borderline, fl.why, first

    def gen(self, rng, dev=None):
        d = self.devs[dev] if dev else rng.choice(list(self.devs.values()))
        vm = 0.0 if rng.random() < 0.9 else rng.choice([0.01, 0.05, 0.1])
        clkin = gen_clkin(rng, 5e6, 400e6)
        k = min(d["nmax"], rng.choice([1, 1, 1, 1, 2, 2, 2, 3, 3, 4, 4, 5, 5, 5, 9, 18]))
        lo, hi = d["vco"][0] * (1 + F(vm)), d["vco"][1] * (1 - F(vm))
        vco = None
        ns = list(self.n_range(d, F(clkin)))
        for _ in range(40):
            if not ns:
                break
            n = rng.choice(ns[:4] + [rng.choice(ns)])
            m_lo, m_hi = max(1, math.ceil(lo * n / F(clkin))), min(512, math.floor(hi * n / F(clkin)))
            if m_lo <= m_hi:
                vco = F(clkin) * rng.randrange(m_lo, m_hi + 1) / n
                break
        r = rng.random()
        kind = "sat" if r < 0.85 else "edge" if r < 0.93 else "any"
        edge_at = rng.randrange(k)
        outs = []
        for i in range(k):
            m = rng.choice([0, 1e-6, 1e-3, 1e-2])
            p = rng.choice([0, 0, 0, 90, 180, 270, 45, -90])
            if vco is not None and (kind != "any" or rng.random() < 0.5):
                cc = rng.choice([rng.randrange(1, 513), rng.randrange(1, 33), rng.randrange(2, 9)])
                f = vco / cc
                if kind == "edge" and i == edge_at:
                    u = rng.choice([1, -1, 1.001, -1.001, 0.9999, -0.9999, 2.5, -2.5])
                else:
                    u = rng.choice([0, 0, 0, 0.5, -0.5, 0.9, -0.9])
                if m == 0 and not is_int(f) and rng.random() < 0.9:
                    m = 1e-6
                f = float(f * (1 + F(u) * F(m)))
                if m != 0 and abs(u) <= 0.9 and rng.random() < 0.9:
                    f = float(round(f)) or 1.0
            else:
                f = rng.choice([25e6, 50e6, 100e6, 125e6, 133.333e6, 148.5e6, 200e6, 300e6, 48e6, 12.288e6, 74.25e6,
                                float(rng.randrange(2_000_000, 450_000_000))])
            outs.append((f, p, m))
        c = {"fam": "intel", "dev": d["name"], "clkin": clkin, "vm": vm, "outs": outs}
        if rng.random() < 0.4:
            c["with_resets"] = [int(rng.random() < 0.6) for _ in outs]
        return gen_flags(rng, c)


# ------------------------------------------------------------------------------------------------------------------
# Gowin GW1N / GW2A (+ GW1NOSC)
# ------------------------------------------------------------------------------------------------------------------

class Gw1n:
    fam = "gw1n"
    PINS = ["CLKOUT", "CLKOUTP", "CLKOUTD3", "CLKOUTD"]
    ODIVS = [2, 4, 8, 16, 32, 48, 64, 80, 96, 112, 128]

    def __init__(self, T):
        self.devs = {d["name"]: d for d in T["gowin"]}

    def lean_line(self, c):
        outs = " ".join("%s %s %s" % (qs(f), qs(p), qs(m)) for f, p, m in c["outs"])
        _, _, _, devname, device = next(g for g in GOWIN if g[0] == c["dev"])
        return "gw1n %s %s %s %d %s %s %s" % (c["dev"], qs(c["clkin"]), qs(c["vm"]), len(c["outs"]), outs, devname, device)

    def real(self, c):
        from migen import Signal
        try:
            o = mk_gowin(c["dev"])
            o.vco_margin = c["vm"]
            cds = [mk_cd(i) for i in range(len(c["outs"]))]
            wrs = [bool(x) for x in c["with_resets"]] if c.get("with_resets") else [False] * len(cds)
            do_calls(c, lambda: o.register_clkin(Signal(), c["clkin"]),
                     [lambda i=i, f=f, p=p, m=m: o.create_clkout(cds[i], f, with_reset=wrs[i], **kw_for(c, p, m))
                      for i, (f, p, m) in enumerate(c["outs"])], probe=lambda: o.compute_config())
            cfg = finalize_capture(o)
        except Exception as e:
            return {"status": status_of(e), "exc": repr(e)}
        P = instance_params(o, ("rPLL", "PLLVR")) or {}
        sym = E.Sym().add(o.clkin, "clkin").add(o.locked, "locked").add(o.reset, "reset")
        for n, t in o.clkouts.items():
            sym.add(t[0], "clkout%d" % n)
        emit, wviol, inst = one_instance(o, ("rPLL", "PLLVR"), sym)
        if inst is not None:
            wviol += E.clock_wiring(o, cds, [o.clkouts[n][0] for n in range(len(cds))], sym, with_reset=wrs, rst_tok="reset")
        if P.get("FCLKIN") != str(c["clkin"] / 1e6):
            return {"status": "crash", "exc": "FCLKIN %s for clkin %s" % (P.get("FCLKIN"), c["clkin"])}
        ports = instance_outputs(o, ("rPLL", "PLLVR"))
        for pin in self.PINS:
            if pin in cfg and ports.get(pin) is not cfg[pin]:
                return {"status": "crash", "exc": "primitive port %s is not connected to the clock the configuration assigns" % pin}
        pinmap = {}
        for pin in self.PINS:
            sig = cfg.get(pin)
            for i, (clk, _, _, _) in o.clkouts.items():
                if sig is clk:
                    pinmap[pin] = i
        return {"status": "ok", "idiv": cfg["idiv"], "fdiv": cfg["fdiv"], "odiv": cfg["odiv"], "sdiv": cfg["SDIV_SEL"],
                "psda": int(cfg["PSDA_SEL"], 2), "vco": F(cfg["vco"]), "pinmap": pinmap,
                "cfg": cfg_numbers(cfg), "emit": emit, "wviol": wviol,
                "P": {k: P.get(k) for k in ("IDIV_SEL", "FBDIV_SEL", "ODIV_SEL", "DYN_SDIV_SEL", "PSDA_SEL")}}

    def parse(self, c, line):
        w = line.split()
        if w[0] != "ok":
            return {"status": w[0]}
        k = int(w[6])
        pins = [int(x) for x in w[7:7 + k]]
        assert w[7 + k] == "|"
        mparams = tuple(int(x) for x in w[8 + k:12 + k])
        pinmap = {}
        for i, pn in enumerate(pins):
            pinmap[self.PINS[pn]] = i
        return {"status": "ok", "idiv": int(w[1]), "fdiv": int(w[2]), "odiv": int(w[3]), "sdiv": int(w[4]), "psda": int(w[5]),
                "pinmap": pinmap, "params": mparams}

    def compare(self, c, real, model):
        if real["status"] != model["status"]:
            return "status real=%s (%s) model=%s" % (real["status"], real.get("exc"), model["status"])
        if real["status"] != "ok":
            return None
        for k in ("idiv", "fdiv", "odiv", "sdiv", "psda", "pinmap"):
            if real[k] != model[k]:
                return "%s real=%s model=%s" % (k, real[k], model[k])
        P = real["P"]
        if (P["IDIV_SEL"], P["FBDIV_SEL"], P["ODIV_SEL"], P["DYN_SDIV_SEL"]) != model["params"] or \
                int(P["PSDA_SEL"], 2) != model["psda"]:
            return "instance parameters real=%s" % (P,)
        return None

    def oracle(self, c, real):
        d = self.devs[c["dev"]]
        clkin, vm = F(c["clkin"]), F(c["vm"])
        outs = [(F(f), F(p), F(m)) for f, p, m in c["outs"]]
        lo, hi = d["vco"][0] * (1 + vm), d["vco"][1] * (1 - vm)
        pmin, pmax = d["pfd"]
        fmax, _, mmax = max(outs, key=lambda o: o[0])
        ints = is_int(clkin) and all(is_int(f) for f, _, _ in outs)
        fl = Flags()
        region = None
        cands = []
        robust = None
        robs = []            # every robustly valid (idiv, fdiv, odiv, CLKOUT frequency) for the highest request
        for idiv in range(1, 64):
            pfd = clkin / idiv
            ex = ints and int(clkin) % idiv == 0
            if not (fl.cmp_le(pmin, pfd, ex, "pfd>=min") and fl.cmp_le(pfd, pmax, ex, "pfd<=max")):
                continue
            for fdiv in range(1, 64):
                of = clkin * fdiv / idiv
                diff = abs(of - fmax)
                if diff > fmax * mmax * 2 + 1:
                    continue
                good = fl.cmp_le(diff, fmax * mmax, ints and mmax == 0, "margin", scale=fmax)
                for odiv in self.ODIVS:
                    vco = of * odiv
                    if abs(vco - lo) > lo / 2 and abs(vco - hi) > hi / 2 and not (lo <= vco <= hi):
                        continue
                    if fl.cmp_le(lo, vco, vm == 0 and ints, "vco>=min") and fl.cmp_le(vco, hi, vm == 0 and ints, "vco<=max") and good:
                        cands.append((diff, idiv, fdiv, odiv))
                        if (diff <= fmax * mmax - SLACK * fmax or (diff == 0 and ints)) and \
                                rob_in(lo, vco, hi, vm == 0 and ints) and rob_in(pmin, pfd, pmax, ex):
                            if robust is None:
                                robust = (idiv, fdiv, odiv)
                            robs.append((idiv, fdiv, odiv, of))
        first = None
        if cands:
            best = min(x[0] for x in cands)
            first = next(x[1:] for x in cands if x[0] == best)
            for x in cands:
                if x[0] != best and x[0] - best <= SLACK * fmax and x[1:3] != first[0:2]:
                    fl._flag("two candidates with nearly equal diff")
                    break
        # floor divisions freq_max // f on floats
        for f, p, m in outs:
            q = fmax / f
            if q.denominator != 1 and min(q - math.floor(q), math.ceil(q) - q) <= SLACK * q:
                fl._flag("freq_max // f within 2^-40 of an integer")
        viol = []
        if real["status"] == "ok":
            idiv, fdiv, odiv = real["idiv"], real["fdiv"], real["odiv"]
            if not (1 <= idiv <= 64 and 1 <= fdiv <= 64 and odiv in self.ODIVS):
                viol.append("idiv/fdiv/odiv %s/%s/%s outside the primitive's ranges" % (idiv, fdiv, odiv))
            else:
                pfd = clkin / idiv
                of = clkin * fdiv / idiv
                vco = of * odiv
                if not (pmin * (1 - SLACK) <= pfd <= pmax * (1 + SLACK)):
                    viol.append("PFD %s Hz outside declared range" % float(pfd))
                if not (lo * (1 - SLACK) <= vco <= hi * (1 + SLACK)):
                    viol.append("VCO %s Hz outside declared range" % float(vco))
                if not rel_close(vco, real["vco"]):
                    viol.append("reported vco differs from clkin*fdiv/idiv*odiv")
                inv = {}
                for pin, i in real["pinmap"].items():
                    inv.setdefault(i, []).append(pin)
                for i, (f, p, m) in enumerate(outs):
                    for pin in inv.get(i, []):
                        fo = of if pin in ("CLKOUT", "CLKOUTP") else of / 3 if pin == "CLKOUTD3" else of / real["sdiv"] if real["sdiv"] else None
                        # the code's own acceptance test is |r - f| <= r*m (relative to the obtained frequency)
                        if fo is None or not (abs(fo - f) <= max(f, fo) * m + SLACK * f):
                            viol.append("clock %d on %s: %s Hz vs requested %s Hz margin %s" % (
                                i, pin, None if fo is None else float(fo), float(f), float(m)))
                P = real["P"]
                if (P["IDIV_SEL"], P["FBDIV_SEL"], P["ODIV_SEL"], P["DYN_SDIV_SEL"]) != (idiv - 1, fdiv - 1, odiv, real["sdiv"]):
                    viol.append("instance parameters %s do not equal the configuration" % (P,))
                _, _, _, devname, device = next(g for g in GOWIN if g[0] == c["dev"])
                viol += emit_viol(E.expect_gw1n(devname, device, c["clkin"], real["cfg"], real["pinmap"], c["outs"]), real)
                # the source selector the configuration carries must itself follow the request's phase
                for pin in ("CLKOUTD", "CLKOUTD3"):
                    if pin in real["pinmap"]:
                        want = "CLKOUT" if outs[real["pinmap"][pin]][1] == 0 else "CLKOUTP"
                        if real["cfg"].get(pin + "_SRC") != want:
                            viol.append("configuration %s_SRC=%s for a clock requested with phase %s" % (
                                pin, real["cfg"].get(pin + "_SRC"), float(outs[real["pinmap"][pin]][1])))
                # the phase of every clock recomputed from the emitted taps: PSDA_SEL*22.5 on CLKOUTP, 0 on CLKOUT
                em = real.get("emit") or {}
                try:
                    shift = int(em.get("p_PSDA_SEL", "0"), 2) * F(45, 2)
                except (TypeError, ValueError):
                    shift = None
                for pin, i in real["pinmap"].items():
                    tap = {"CLKOUT": "CLKOUT", "CLKOUTP": "CLKOUTP"}.get(pin) or em.get("p_%s_SRC" % pin)
                    ph = F(0) if tap == "CLKOUT" else shift
                    if ph is None or abs(ph - outs[i][1]) >= F(45, 2):
                        viol.append("clock %d on %s is taken from the %s tap (%s deg), requested phase %s" % (
                            i, pin, tap, None if ph is None else float(ph), float(outs[i][1])))
        elif real["status"] == "rejected":
            if "No PLL config found" in real.get("exc", "") and robust is not None:
                viol.append("refused although idiv=%s fdiv=%s odiv=%s satisfies the request" % robust)
            elif "Can't obtain requested frequency" in real.get("exc", "") and len(outs) > 1:
                # open finding C20-gw1n-best-only-incomplete: only the pair closest to the highest request is tried
                # against the slower clocks; region = the best pair misses a slower clock while ANOTHER in-margin pair
                # serves every clock (with the code's own dividers th = freq_max // f) robustly
                ths = [math.floor(fmax / f) for f, _, _ in outs]
                best_of = clkin * first[1] / first[0] if first is not None else None
                def serves(of, slack):
                    return all(th >= 1 and abs(of / th - f) <= (of / th) * m - slack * f or (abs(of / th - f) == 0 and ints)
                               for th, (f, _, m) in zip(ths, outs))
                if best_of is not None and min(ths) >= 1 and not serves(best_of, -SLACK) and \
                        any(serves(of, SLACK) for (_, _, _, of) in robs):
                    region = "C20-gw1n-best-only-incomplete"
                elif best_of is not None and min(ths) >= 1 and serves(best_of, SLACK):
                    viol.append("refused although the best pair idiv=%s fdiv=%s serves every requested clock" % (first[0], first[1]))
        elif real["status"] == "assertion":
            pass
        else:
            viol.append("unexpected exception " + real.get("exc", ""))
        if viol:
            region = None
        return viol, fl.borderline, fl.why, first, region

    def first_key(self, real):
        return (real["idiv"], real["fdiv"], real["odiv"])

    def gen(self, rng, dev=None):
        d = self.devs[dev] if dev else rng.choice(list(self.devs.values()))
        vm = 0.0 if rng.random() < 0.9 else rng.choice([0.01, 0.05])
        clkin = gen_clkin(rng, 3e6, 400e6)
        r = rng.random()
        k = rng.choice([1, 1, 2, 2, 3, 4])
        base = None
        for _ in range(40):
            idiv = rng.choice([1, 1, 1, 2, 3, 4, rng.randrange(1, 64)])
            fdiv = rng.randrange(1, 64)
            of = F(clkin) * fdiv / idiv
            if d["pfd"][0] <= F(clkin) / idiv <= d["pfd"][1] and any(d["vco"][0] <= of * od <= d["vco"][1] for od in self.ODIVS):
                base = of
                break
        outs = []
        m0 = rng.choice([0, 1e-6, 1e-3, 1e-2])
        divs = [1] + [rng.choice([1, 2, 3, 3, 4, 6, 8, 5, 128, rng.randrange(2, 130)]) for _ in range(k - 1)]
        if rng.random() < 0.5:
            rng.shuffle(divs)
        phase_pool = [0, 0, 0, rng.choice([90, 180, 45, 22.5, 270, 337.5])] if rng.random() < 0.85 else [0, 90, 180]
        for i in range(k):
            m = m0 if rng.random() < 0.7 else rng.choice([0, 1e-6, 1e-3, 1e-2])
            p = rng.choice(phase_pool)
            if base is not None and r < 0.9:
                f = base / divs[i]
                u = rng.choice([0, 0, 0, 0.5, -0.5, 0.9, -0.9, 1.001, -1.001]) if r > 0.75 else rng.choice([0, 0, 0.5, -0.5])
                if m == 0 and not is_int(f):
                    m = 1e-6
                f = float(f * (1 + F(u) * F(m)))
                if m != 0 and abs(u) <= 0.9 and rng.random() < 0.5:
                    f = float(round(f)) or 1.0
            else:
                f = rng.choice([27e6, 54e6, 108e6, 50e6, 100e6, 25e6, 125e6, 36e6, 72e6, float(rng.randrange(3_000_000, 400_000_000))])
            outs.append((f, p, m))
        c = {"fam": "gw1n", "dev": d["name"], "clkin": clkin, "vm": vm, "outs": outs}
        if rng.random() < 0.4:
            c["with_resets"] = [int(rng.random() < 0.6) for _ in outs]
        return gen_flags(rng, c)

    def directed(self):
        """every output pin (CLKOUT, CLKOUTP, CLKOUTD, CLKOUTD3) in every combination with every phase class, on an rPLL
        and a PLLVR device: 27 MHz in, 90 / 108 MHz base (GW1NR / GW1NS)."""
        out = []
        for dev, base in (("GW1NR", 90e6), ("GW1NS:C7/I6", 108e6), ("GW2A", 90e6), ("GW1N", 90e6)):
            for ph in (90, 180, 22.5):
                for use_p in (0, 1):
                    for dph in (None, 0, ph):            # CLKOUTD absent / unshifted / shifted   (/2)
                        for d3ph in (None, 0, ph):       # CLKOUTD3 absent / unshifted / shifted (/3)
                            outs = [(base, 0, 1e-2)]
                            if use_p:
                                outs.append((base, ph, 1e-2))
                            if dph is not None:
                                outs.append((base / 2, dph, 1e-2))
                            if d3ph is not None:
                                outs.append((base / 3, d3ph, 1e-2))
                            if len(outs) > 1 and (dev == "GW1NR" or ph == 90):
                                out.append({"fam": "gw1n", "dev": dev, "clkin": 27e6, "vm": 0.0, "outs": outs,
                                            "with_resets": [int((i + len(outs)) % 2) for i in range(len(outs))]})
        # range extremes (margin 0): FBDIV 63 (3 MHz * 63, ratio irreducible), IDIV 63 (252 MHz * 62 / 63), PFD on its lower edge
        for dev in ("GW1NR", "GW2A", "GW1NS:C7/I6"):
            for ck, f in ((3e6, 189e6), (252e6, 248e6), (189e6, 3e6 * 62), (3e6, 3e6 * 63 / 3)):
                out.append({"fam": "gw1n", "dev": dev, "clkin": ck, "vm": 0.0, "outs": [(f, 0, 0)]})
        return out


class GwOsc:
    fam = "gwosc"
    DEVS = ["GW1N-4", "GW1NR-4B", "GW1N-9", "GW1NR-9C", "GW2A-18"]

    def __init__(self, T):
        self.d = T["gwosc"]

    def osc(self, c):
        return F(210e6) if c["device"] in ["GW1N-4", "GW1NR-4", "GW1N-4B", "GW1NR-4B", "GW1NRF-4B", "GW1N-4C", "GW1NR-4C"] else F(250e6)

    def lean_line(self, c):
        return "gwosc %s %s %s %s" % (qs(self.osc(c)), qs(c["f"]), qs(c["m"]), c["device"])

    def real(self, c):
        from litex.soc.cores.clock.gowin_gw1n import GW1NOSC
        try:
            o = GW1NOSC(c["device"], c["f"], margin=c["m"])
            P = instance_params(o, ("OSC",)) or {}
            emit, wviol, _ = one_instance(o, ("OSC",), E.Sym().add(o.clk, "clk"))
            return {"status": "ok", "div": P.get("FREQ_DIV"), "dev": P.get("DEVICE"), "emit": emit, "wviol": wviol}
        except Exception as e:
            return {"status": status_of(e), "exc": repr(e)}

    def parse(self, c, line):
        return {"status": "rejected"} if line == "none" else {"status": "ok", "div": int(line.split()[1])}

    def compare(self, c, real, model):
        if real["status"] != model["status"] or real.get("div") != model.get("div"):
            return "real=%s model=%s" % (real, model)
        return None

    def oracle(self, c, real):
        f, m, osc = F(c["f"]), F(c["m"]), self.osc(c)
        fl = Flags()
        exists = None
        for dv in range(*self.d["div"]):
            cf = osc / dv
            fl.cmp_le(f * (1 - m), cf, False, "lower edge")
            fl.cmp_le(cf, f * (1 + m), False, "upper edge")
            if f * (1 - m) * (1 + SLACK) <= cf <= f * (1 + m) * (1 - SLACK):
                exists = dv
        viol = []
        if real["status"] == "ok":
            dv = real["div"]
            if not (self.d["div"][0] <= dv < self.d["div"][1]):
                viol.append("divider outside declared range")
            elif not (abs(osc / dv - f) <= f * m + SLACK * f):
                viol.append("oscillator output %s vs requested %s margin %s" % (float(osc / dv), float(f), float(m)))
            viol += emit_viol(E.expect_gwosc(c["device"], dv), real)
        elif real["status"] == "rejected":
            if exists is not None:
                viol.append("refused although divider %d satisfies the request" % exists)
        else:
            viol.append("unexpected exception " + real.get("exc", ""))
        return viol, fl.borderline, fl.why, None

    def gen(self, rng):
        m = rng.choice([1e-3, 1e-2, 1e-2, 0.05])
        device = rng.choice(self.DEVS)
        osc = self.osc({"device": device})
        dv = rng.randrange(2, 130)
        u = rng.choice([0, 0, 0.5, -0.5, 0.9, -0.9, 1.2, -1.2, 3])
        f = float(osc / dv * (1 + F(u) * F(m)))
        return {"fam": "gwosc", "device": device, "f": f, "m": m}



# ------------------------------------------------------------------------------------------------------------------
# Gowin GW5A (oracle only: no Lean model)
# ------------------------------------------------------------------------------------------------------------------

class Gw5a:
    fam = "gw5a"

    def __init__(self, T):
        self.devs = {d["name"]: d for d in T["gw5a"]}
        self.products = sorted({a * b for a in range(1, 64) for b in range(2, 128)})

    def lean_line(self, c):
        _, devname, dev = next(g for g in GW5A if g[0] == c["dev"])
        outs = " ".join("%s %s %s" % (qs(f), qs(p), qs(m)) for f, p, m in c["outs"])
        return "gw5a %s %s %s %d %s %s" % (c["dev"], qs(c["clkin"]), qs(c["vm"]), len(c["outs"]), outs, dev)

    def real(self, c):
        from migen import Signal
        from litex.soc.cores.clock.gowin_gw5a import GW5APLL
        _, devname, dev = next(g for g in GW5A if g[0] == c["dev"])
        try:
            o = GW5APLL(devname, dev)
            o.vco_margin = c["vm"]
            cds = [mk_cd(i) for i in range(len(c["outs"]))]
            wrs = [bool(x) for x in c["with_resets"]] if c.get("with_resets") else [False] * len(cds)
            do_calls(c, lambda: o.register_clkin(Signal(), c["clkin"]),
                     [lambda i=i, f=f, p=p, m=m: o.create_clkout(cds[i], f, with_reset=wrs[i], **kw_for(c, p, m))
                      for i, (f, p, m) in enumerate(c["outs"])], probe=lambda: o.compute_config())
            cfg = finalize_capture(o)
        except Exception as e:
            return {"status": status_of(e), "exc": repr(e)}
        P = instance_params(o, ("PLLA", "PLL")) or {}
        sym = E.Sym().add(o.clkin, "clkin").add(o.locked, "locked").add(o.reset, "reset")
        for n, t in o.clkouts.items():
            sym.add(t[0], "clkout%d" % n)
        emit, wviol, inst = one_instance(o, ("PLLA", "PLL"), sym)
        if inst is not None:
            wviol += E.clock_wiring(o, cds, [o.clkouts[n][0] for n in range(len(cds))], sym, with_reset=wrs)
        ports = instance_outputs(o, ("PLLA", "PLL"))
        k = len(c["outs"])
        return {"status": "ok", "idiv": cfg["idiv"], "fdiv": cfg["fdiv"], "mdiv": cfg["mdiv"], "vco": F(cfg["vco"]),
                "odivs": [cfg["odiv%d" % n] for n in range(k)],
                "P": {"IDIV_SEL": P.get("IDIV_SEL"), "FBDIV_SEL": P.get("FBDIV_SEL"), "MDIV_SEL": P.get("MDIV_SEL"),
                      "FCLKIN": P.get("FCLKIN"),
                      "per": [(P.get("ODIV%d_SEL" % n), P.get("CLKOUT%d_EN" % n), P.get("CLKOUT%d_PE_COARSE" % n),
                               P.get("CLKOUT%d_PE_FINE" % n)) for n in range(7)]},
                "wiring": all(ports.get("CLKOUT%d" % n) is o.clkouts[n][0] for n in range(k)),
                "cfg": cfg_numbers(cfg), "emit": emit, "wviol": wviol, "device": dev}

    def parse(self, c, line):
        w = line.split()
        if w[0] != "ok":
            return {"status": w[0]}
        k = int(w[4])
        per = [(int(w[5 + 3 * i]), int(w[6 + 3 * i]), int(w[7 + 3 * i])) for i in range(k)]
        return {"status": "ok", "idiv": int(w[1]), "fdiv": int(w[2]), "mdiv": int(w[3]), "per": per}

    def compare(self, c, real, model):
        if real["status"] != model["status"]:
            return "status real=%s (%s) model=%s" % (real["status"], real.get("exc"), model["status"])
        if real["status"] != "ok":
            return None
        for k in ("idiv", "fdiv", "mdiv"):
            if real[k] != model[k]:
                return "%s real=%s model=%s" % (k, real[k], model[k])
        rp = [(real["cfg"]["odiv%d" % n], real["cfg"]["pe%d" % n], real["cfg"]["pe%d_fine" % n]) for n in range(len(c["outs"]))]
        if rp != model["per"]:
            return "(odiv, pe, pe_fine) real=%s model=%s" % (rp, model["per"])
        return None

    def first_key(self, real):
        return (real["idiv"], real["fdiv"], real["mdiv"])

    def exact_search(self, c, fl):
        """the search over exact rationals with float-borderline flags -> ('ok', (idiv,fdiv,mdiv)) | ('rejected',) |
        ('crash',)   (independent of the Lean model: candidates from the window equations, not the triple loop)"""
        d = self.devs[c["dev"]]
        clkin, vm = F(c["clkin"]), F(c["vm"])
        outs = [(F(f), F(p), F(m)) for f, p, m in c["outs"]]
        lo, hi = d["vco"][0] * (1 + vm), d["vco"][1] * (1 - vm)
        pmin, pmax = d["pfd"]
        ints = is_int(clkin) and all(is_int(f) for f, _, _ in outs)
        cands = []
        crash = False
        may_crash = any(f * (1 + F(1, 10 ** 6)) >= 2 * lo or f == 0 for f, _, _ in outs)
        fouts = [(float(f), float(m)) for f, _, m in outs]
        for idiv in range(1, 64):
            pfd = clkin / idiv
            ex = is_int(clkin) and int(clkin) % idiv == 0
            if not (fl.cmp_le(pmin, pfd, ex, "pfd>=min") and fl.cmp_le(pfd, pmax, ex, "pfd<=max")):
                continue
            for fdiv in range(1, 64):
                base = pfd * fdiv
                m_lo = max(2, math.ceil(lo / base) - 1)
                m_hi = min(127, math.floor(hi / base) + 1)
                for mdiv in range(m_lo, m_hi + 1):
                    vco = base * mdiv
                    if not (fl.cmp_le(lo, vco, ex and vm == 0, "vco>=min") and fl.cmp_le(vco, hi, ex and vm == 0, "vco<=max")):
                        continue
                    if not may_crash:
                        # float pre-filter: an output that misses its margin by more than 0.1 % away from any rounding tie
                        # decides the candidate (rejected) without exact arithmetic and without any borderline flag
                        vf, far = float(vco), False
                        for ff, mf in fouts:
                            xf = vf / ff
                            if abs((xf - math.floor(xf)) - 0.5) > 1e-6 and round(xf) >= 1 and \
                                    abs(vf / round(xf) - ff) / ff > mf * 1.001 + 1e-12:
                                far = True
                                break
                        if far:
                            continue
                    okay, total = True, F(0)
                    for (f, p, m) in outs:
                        if f == 0:
                            crash = True
                            break
                        x = vco / f
                        if abs((x - math.floor(x)) - F(1, 2)) <= SLACK * max(x, 1) and not (ex and ints and x - math.floor(x) == F(1, 2)):
                            fl._flag("vco/f within 2^-40 of a rounding tie")
                        odiv = py_round(x)
                        if odiv == 0:
                            crash = True
                            break
                        diff = abs(vco / odiv - f) / f
                        y = p * odiv / 360
                        if y.denominator != 1 and abs((y - math.floor(y)) - F(1, 2)) <= SLACK * max(abs(y), 1) and y - math.floor(y) != F(1, 2):
                            fl._flag("phase step within 2^-40 of a rounding tie")
                        y8 = p * odiv * 8 / 360
                        if abs((y8 - math.floor(y8)) - F(1, 2)) <= SLACK * max(abs(y8), 1) and y8 - math.floor(y8) != F(1, 2):
                            fl._flag("fine phase step within 2^-40 of a rounding tie")
                        if y != 0 and abs(y - round(y)) <= SLACK * abs(y) and y.denominator != 1:
                            fl._flag("coarse phase step within 2^-40 of an integer")
                        perr = abs(F(360) * py_round(y) / odiv - p) / 360
                        if not fl.cmp_le(perr, m, perr == 0, "phase error", scale=1):
                            okay = False
                        if not fl.cmp_le(diff, m, diff == 0 and ex and ints, "margin", scale=1):
                            okay = False
                        total += diff
                    if crash:
                        return ("crash",)
                    if okay:
                        cands.append((total, (idiv, fdiv, mdiv), ex, vco))
        if not cands:
            return ("rejected",)
        best = min(x[0] for x in cands)
        first = next(x for x in cands if x[0] == best)
        for x in cands:
            if x[1] != first[1] and x[0] - best <= SLACK:
                # an exact tie is decided identically by the float code when both VCOs are float-exact and either equal
                # (same float computation) or both sums are exactly zero with integer frequencies
                safe = x[0] == best and x[2] and first[2] and (x[3] == first[3] or (best == 0 and ints))
                if not safe:
                    fl._flag("two candidates with (nearly) equal diff sums")
                    break
        return ("ok", first[1])

    def out_checks(self, vco, f, p, m, slack_sign):
        """exact acceptance test of one output at this VCO; slack_sign=+1 tolerant, -1 robust."""
        x = vco / f
        odiv = py_round(x)
        if odiv < 1:
            return None
        near_half = abs((x - math.floor(x)) - F(1, 2)) <= SLACK * max(x, 1)
        diff = abs(vco / odiv - f) / f
        pe = py_round(p * odiv / 360)
        perr = abs(F(360) * pe / odiv - p) / 360
        tol = m + slack_sign * SLACK
        return odiv, diff <= tol and perr <= tol, near_half

    def oracle(self, c, real):
        d = self.devs[c["dev"]]
        clkin, vm = F(c["clkin"]), F(c["vm"])
        outs = [(F(f), F(p), F(m)) for f, p, m in c["outs"]]
        lo, hi = d["vco"][0] * (1 + vm), d["vco"][1] * (1 - vm)
        pmin, pmax = d["pfd"]
        viol, region = [], None
        fl = Flags()
        ex = self.exact_search(c, fl)
        first = ex[1] if ex[0] == "ok" else None
        if real["status"] == "ok":
            idiv, fdiv, mdiv = real["idiv"], real["fdiv"], real["mdiv"]
            if not (1 <= idiv <= 64 and 1 <= fdiv <= 64 and 2 <= mdiv <= 128):
                viol.append("idiv/fdiv/mdiv %s/%s/%s outside the primitive's ranges" % (idiv, fdiv, mdiv))
            else:
                pfd = clkin / idiv
                vco = pfd * fdiv * mdiv
                if not (pmin * (1 - SLACK) <= pfd <= pmax * (1 + SLACK)):
                    viol.append("PFD %s Hz outside declared range" % float(pfd))
                if not (lo * (1 - SLACK) <= vco <= hi * (1 + SLACK)):
                    viol.append("VCO %s Hz outside declared range" % float(vco))
                if not rel_close(vco, real["vco"]):
                    viol.append("reported vco differs from clkin/idiv*fdiv*mdiv")
                P = real["P"]
                if (P["IDIV_SEL"], P["FBDIV_SEL"], P["MDIV_SEL"]) != (idiv, fdiv, mdiv) or P["FCLKIN"] != str(c["clkin"] / 1e6):
                    viol.append("IDIV_SEL/FBDIV_SEL/MDIV_SEL/FCLKIN %s do not equal the configuration" % (P,))
                for n, (f, p, m) in enumerate(outs):
                    od = real["odivs"][n]
                    if od < 1:
                        viol.append("odiv%d = %s" % (n, od))
                        continue
                    if od > 128:
                        region = "C20-gw5a-odiv-unchecked"
                    if not (abs(vco / od - f) <= f * m + SLACK * f):
                        viol.append("clkout%d: %s Hz vs requested %s Hz margin %s" % (n, float(vco / od), float(f), float(m)))
                    sel, en, pc, pf = P["per"][n]
                    want_pc = math.floor(p * od / 360) if p >= 0 else -math.floor(-p * od / 360)
                    if sel != od or en != "TRUE" or pc != want_pc or pf != py_round(p * od * 8 / 360) % 8:
                        viol.append("ODIV%d_SEL/EN/PE_COARSE/PE_FINE = %s/%s/%s/%s for odiv %s phase %s" % (n, sel, en, pc, pf, od, float(p)))
                for n in range(len(outs), 7):
                    if P["per"][n][1] != "FALSE":
                        viol.append("unrequested output %d enabled" % n)
                if not real["wiring"]:
                    viol.append("PLL output ports are not connected to the requested clock outputs in order")
                if not viol:
                    viol += emit_viol(E.expect_gw5a(real["device"], c["clkin"], real["cfg"], c["outs"]), real)
        elif real["status"] == "rejected":
            found = None
            for idiv in range(1, 64):
                pfd = clkin / idiv
                if not rob_in(pmin, pfd, pmax, False):
                    continue
                klo, khi = math.ceil(lo * (1 + SLACK) / pfd), math.floor(hi * (1 - SLACK) / pfd)
                import bisect
                for K in self.products[bisect.bisect_left(self.products, klo):bisect.bisect_right(self.products, khi)]:
                    vco = pfd * K
                    good = True
                    for (f, p, m) in outs:
                        r = self.out_checks(vco, f, p, m, -1)
                        if r is None or not r[1] or r[2]:
                            good = False
                            break
                    if good:
                        found = (idiv, K)
                        break
                if found:
                    break
            if found:
                viol.append("refused although idiv=%s fdiv*mdiv=%s satisfies the request" % found)
        elif real["status"] == "crash" and ex[0] == "crash" and "ZeroDivisionError" in real.get("exc", ""):
            pass           # an output above 2*VCO: round(vco/f) = 0 (out of every device's range; modelled as crash)
        else:
            viol.append("unexpected exception " + real.get("exc", ""))
        if viol:
            region = None
        return viol, fl.borderline, fl.why, first, region

    def gen(self, rng):
        d = rng.choice(list(self.devs.values()))
        vm = 0.0 if rng.random() < 0.85 else rng.choice([0.01, 0.05])
        clkin = gen_clkin(rng, 10e6, 400e6)
        k = rng.choice([1, 1, 2, 2, 3, 4, 7])
        lo, hi = d["vco"][0] * (1 + F(vm)), d["vco"][1] * (1 - F(vm))
        vco = None
        for _ in range(40):
            idiv = rng.choice([1, 1, 2, 3, rng.randrange(1, 20)])
            pfd = F(clkin) / idiv
            if not (d["pfd"][0] <= pfd <= d["pfd"][1]):
                continue
            ks = [K for K in self.products if lo <= pfd * K <= hi]
            if ks:
                vco = pfd * rng.choice(ks)
                break
        kind = rng.random()
        outs = []
        for n in range(k):
            m = rng.choice([1e-6, 1e-3, 1e-2, 1e-2])
            p = rng.choice([0, 0, 0, 90, 180, 270, 45])
            if vco is not None and kind < 0.85:
                od = rng.choice([rng.randrange(1, 129), rng.randrange(2, 33)])
                if p:
                    od = max(8, od - od % 8)             # phases realisable exactly
                f = float(vco / od * (1 + F(rng.choice([0, 0, 0.5, -0.5, 0.9])) * F(m)))
            else:
                f = rng.choice([25e6, 50e6, 100e6, 125e6, 27e6, 74.25e6, 5e6, float(rng.randrange(5_000_000, 400_000_000))])
            outs.append((f, p, m))
        c = {"fam": "gw5a", "dev": d["name"], "clkin": clkin, "vm": vm, "outs": outs}
        if rng.random() < 0.4:
            c["with_resets"] = [int(rng.random() < 0.6) for _ in outs]
        return gen_flags(rng, c)


# ------------------------------------------------------------------------------------------------------------------
# Efinix Trion (oracle only; built through a stub platform the way EFINIXPLL uses it)
# ------------------------------------------------------------------------------------------------------------------

class _IfaceWriter:
    def __init__(self):
        self.blocks = []

    def get_block(self, name):
        return next(b for b in self.blocks if b["name"] == name)


class _EfxToolchain:
    def __init__(self):
        self.ifacewriter = _IfaceWriter()
        self.excluded_ios = []
        self.additional_sdc_commands = []


class _EfxPlatform:
    family = "Trion"
    device = "T120F324"

    def __init__(self):
        self.toolchain = _EfxToolchain()
        self.clks = {}
        self.pll_used = []
        self.pll_available = ["PLL_TL0"]

    def add_iface_io(self, name, size=1):
        from migen import Signal
        return Signal(size)

    def get_pin_name(self, sig):
        return None

    def get_pin_location(self, sig):
        return None

    def get_free_pll_resource(self):
        return "PLL_TL0"


class Trion:
    fam = "trion"

    def __init__(self, T):
        self.d = T["trion"]

    def lean_line(self, c):
        if not (0 <= c["fb"] < len(c["outs"])):
            return None
        outs = " ".join("%s %s" % (qs(f), qs(p)) for f, p in c["outs"])
        return "trion %s %d %d %s" % (qs(c["clkin"]), c["fb"], len(c["outs"]), outs)

    def parse(self, c, line):
        w = line.split()
        if w[0] != "ok":
            return {"status": w[0]}
        k = int(w[5])
        return {"status": "ok", "N": int(w[1]), "M": int(w[2]), "O": int(w[3]), "cfb": int(w[4]), "cs": [int(x) for x in w[6:6 + k]]}

    def compare(self, c, real, model):
        if real["status"] != model["status"]:
            return "status real=%s (%s) model=%s" % (real["status"], real.get("exc"), model["status"])
        if real["status"] != "ok":
            return None
        for k in ("N", "M", "O", "cs"):
            if real[k] != model[k]:
                return "%s real=%s model=%s" % (k, real[k], model[k])
        if real["cs"][c["fb"]] != model["cfb"]:
            return "Cfbk real=%s model=%s" % (real["cs"][c["fb"]], model["cfb"])
        return None

    def float_borderline(self, c):
        """the code compares floats with == : the exact model is only comparable when every quantity that can take part
        in a match is float-exact: integer output frequencies, and every exactly valid setting has an integer PFD."""
        fin = F(c["clkin"])
        if not is_int(fin) or any(not is_int(f) for f, _ in c["outs"]):
            return "non-integer frequencies"
        if any(F(p) != 0 and str(int(p)) not in self.d["c_phase"] for _, p in c["outs"] if F(p).denominator == 1) or \
                any(F(p).denominator != 1 for _, p in c["outs"]):
            return None          # KeyError path: exact
        for (N, M, O, cfb, cs) in self.solutions(c):
            if int(fin) % N != 0:
                return "a valid setting has a non-integer PFD frequency"
        return None

    def c_list(self, phase):
        if phase == 0:
            lo, hi, n = self.d["c0"]
            return list(range(lo, hi + 1))
        return list(self.d["c_phase"].get(str(int(phase)), []))

    def real(self, c):
        from litex.soc.cores.clock.efinix import TRIONPLL
        try:
            plat = _EfxPlatform()
            o = TRIONPLL(plat)
            do_calls(c, lambda: o.register_clkin(None, c["clkin"], name="clk_in"),
                     [lambda i=i, f=f, p=p: o.create_clkout(None, f, name="out%d" % i, is_feedback=(i == c["fb"]),
                                                            **({} if c.get("defaults") and p == 0 else {"phase": p}))
                      for i, (f, p) in enumerate(c["outs"])])
            with quiet():
                o.finalize()
            b = plat.toolchain.ifacewriter.get_block(o.name)
        except Exception as e:
            return {"status": status_of(e), "exc": repr(e)}
        if "M" not in b:
            return {"status": "crash", "exc": "no configuration written to the interface block"}
        return {"status": "ok", "M": b["M"], "N": b["N"], "O": b["O"], "vco": F(b["VCO_FREQ"]), "name": o.name,
                "block": {k: v for k, v in b.items()},
                "cs": [b.get("CLKOUT%d_DIV" % i) for i in range(len(c["outs"]))], "input_freq": b.get("input_freq"),
                "clk_out": [(x[1], x[2]) for x in b["clk_out"]], "feedback": b["feedback"]}

    def solutions(self, c):
        """all exactly valid (N, M, O, Cfb, [C...]) — the declared Trion limits, by solving the equations."""
        d = self.d
        fin = F(c["clkin"])
        outs = [(F(f), p) for f, p in c["outs"]]
        k = len(outs)
        ffb, pfb = outs[c["fb"]]
        o_fact = [2, 4, 8] if k > 1 else [1, 2, 4, 8]
        sols = []
        for N in range(1, 16):
            pfd = fin / N
            if not (d["pfd"][0] <= pfd <= d["pfd"][1]):
                continue
            M = ffb / pfd
            if M.denominator != 1 or not (1 <= M <= 255):
                continue
            M = int(M)
            for cfb in self.c_list(pfb):
                fpll = ffb * cfb
                if not (d["pll"][0] <= fpll <= d["pll"][1]):
                    continue
                cs = []
                for i, (f, p) in enumerate(outs):
                    cx = fpll / f
                    if cx.denominator != 1 or int(cx) not in self.c_list(p) or (i == c["fb"] and cx != cfb):
                        cs = None
                        break
                    cs.append(int(cx))
                if cs is None:
                    continue
                for O in o_fact:
                    vco = fpll * O
                    if d["vco"][0] <= vco <= d["vco"][1] and M * O * cfb <= 255:
                        sols.append((N, M, O, cfb, cs))
        return sols

    def oracle(self, c, real):
        d = self.d
        fin = F(c["clkin"])
        outs = [(F(f), p) for f, p in c["outs"]]
        k = len(outs)
        viol = []
        region = None
        tol = F(1, 10 ** 12)
        if real["status"] == "ok":
            N, M, O, cs = real["N"], real["M"], real["O"], real["cs"]
            o_fact = [2, 4, 8] if k > 1 else [1, 2, 4, 8]
            if not (1 <= N <= 15 and 1 <= M <= 255 and O in o_fact):
                viol.append("N/M/O = %s/%s/%s outside the declared ranges" % (N, M, O))
            elif any(cx is None for cx in cs):
                viol.append("missing output divider %s" % (cs,))
            else:
                cfb = cs[c["fb"]]
                pfd = fin / N
                vco = pfd * M * O * cfb
                fpll = vco / O
                if not (d["pfd"][0] * (1 - SLACK) <= pfd <= d["pfd"][1] * (1 + SLACK)):
                    viol.append("PFD %s Hz outside declared range" % float(pfd))
                if not (d["vco"][0] * (1 - SLACK) <= vco <= d["vco"][1] * (1 + SLACK)):
                    viol.append("VCO %s Hz outside declared range" % float(vco))
                if not (d["pll"][0] * (1 - SLACK) <= fpll <= d["pll"][1] * (1 + SLACK)):
                    viol.append("PLL output frequency %s Hz (before the C dividers) outside declared range" % float(fpll))
                if M * O * cfb > 255:
                    viol.append("M*O*Cfbk = %d > 255" % (M * O * cfb))
                if not rel_close(vco, real["vco"], tol):
                    viol.append("reported VCO_FREQ differs from fin/N*M*O*Cfbk")
                for i, ((f, p), cx) in enumerate(zip(outs, cs)):
                    if cx not in self.c_list(p):
                        viol.append("CLKOUT%d_DIV %s not allowed for phase %s" % (i, cx, p))
                    elif not rel_close(fpll / cx, f, tol):
                        viol.append("clkout%d: %s Hz vs requested %s Hz" % (i, float(fpll / cx), float(f)))
                if real["input_freq"] != c["clkin"] or real["feedback"] != c["fb"] or \
                        [tuple(x) for x in real["clk_out"]] != [tuple(x) for x in c["outs"]]:
                    viol.append("interface block does not carry the request (input_freq/feedback/clk_out)")
                # every entry of the interface-designer block (what EFINIXPLL "emits")
                nm = real["name"]
                want = {"type": "PLL", "name": nm, "locked": nm + "_locked", "rstn": nm + "_rstn", "version": "V1_V2",
                        "feedback": c["fb"], "input_clock_name": None, "input_clock": "CORE", "resource": "PLL_TL0",
                        "input_signal": "clk_in", "input_freq": c["clkin"], "M": M, "N": N, "O": O,
                        "VCO_FREQ": E.Approx(vco),
                        "clk_out": [["out%d" % i, f_, p_, 0, False] for i, (f_, p_) in enumerate(c["outs"])]}
                for i, cx in enumerate(cs):
                    want["CLKOUT%d_DIV" % i] = cx
                if not viol:
                    viol += E.diff_dicts(want, real["block"], "interface block")
        elif real["status"] == "assertion":
            if c.get("exact") and self.solutions(c):
                viol.append("refused although N,M,O,Cfbk,C = %s satisfies the request" % (self.solutions(c)[0],))
        else:
            viol.append("unexpected exception " + real.get("exc", ""))
        if viol:
            region = None
        why = self.float_borderline(c) if 0 <= c["fb"] < len(c["outs"]) else None
        return viol, why is not None, why, None, region

    def gen(self, rng):
        d = self.d
        k = rng.choice([1, 1, 2, 2, 3])
        fb = rng.randrange(k)
        for _ in range(200):
            N = rng.choice([1, 1, 2, 3, 4, 5])
            pfd = rng.randrange(10, 101) * 1_000_000
            fin = pfd * N
            o_fact = [2, 4, 8] if k > 1 else [1, 2, 4, 8]
            O = rng.choice(o_fact)
            phases = [rng.choice([0, 0, 0, 90, 180, 270, 45, 135]) for _ in range(k)]
            cfb = rng.choice(self.c_list(phases[fb]))
            mmax = 255 // (O * cfb)
            if mmax < 1:
                continue
            M = rng.randrange(1, mmax + 1)
            fpll = pfd * M * cfb
            vco = fpll * O
            if not (d["vco"][0] <= vco <= d["vco"][1] and d["pll"][0] <= fpll <= d["pll"][1]):
                continue
            outs = []
            for i in range(k):
                cx = cfb if i == fb else rng.choice(self.c_list(phases[i]))
                outs.append((float(F(fpll, cx)), phases[i]))
            exact = all(F(f) * cx == fpll for (f, _), cx in zip(outs, [cfb if i == fb else None for i in range(k)]) if cx)
            c = {"fam": "trion", "clkin": float(fin), "outs": outs, "fb": fb, "exact": True}
            c["exact"] = all(F(f).denominator == 1 for f, _ in outs)
            if rng.random() < 0.12:          # unsatisfiable variant
                f0, p0 = outs[0]
                outs[0] = (f0 + 1000.0, p0)
            return gen_flags(rng, c)
        return gen_flags(rng, {"fam": "trion", "clkin": 50e6, "outs": [(100e6, 0)], "fb": 0, "exact": True})


class GateMate:
    """CologneChip CC_PLL (colognechip.py): no divider search - the helper checks that the request fits the primitive
    (CLK0/CLK90 at the base frequency, CLK180/CLK270 at 1x or 2x) and emits REF_CLK/OUT_CLK/CLKxxx_DOUB."""
    fam = "gatemate"
    MAXF = {"undefined": 250e6, "lowpower": 250e6, "economy": 312.5e6, "speed": 416.75e6}

    def __init__(self, T):
        pass

    def lean_line(self, c):
        if any(int(ph) != ph or ph < 0 for ph, _ in c["outs"]):
            return None
        outs = " ".join("%d %s" % (ph, qs(f)) for ph, f in c["outs"])
        return "gatemate %s %s %d %d %d %d %s" % (qs(c["clkin"]), c["perf"], c["lj"], c["lr"], c["usr"], len(c["outs"]), outs)

    def parse(self, c, line):
        return {"status": line.split()[0]}

    def compare(self, c, real, model):
        if real["status"] != model["status"]:
            return "status real=%s (%s) model=%s" % (real["status"], real.get("exc"), model["status"])
        return None

    def real(self, c):
        from migen import Signal
        from litex.soc.cores.clock.colognechip import GateMatePLL
        try:
            o = GateMatePLL(perf_mode=c["perf"], low_jitter=c["lj"], lock_req=c["lr"])
            cds = [mk_cd(i) for i in range(len(c["outs"]))]
            sigs = {}

            def mk(i, ph, f):
                o.create_clkout(cds[i], f, with_reset=bool(c["with_resets"][i]), **({} if c.get("defaults") and ph == 0 else {"phase": ph}))
                sigs[ph] = o._clkouts[ph][0]
            do_calls(c, lambda: o.register_clkin(Signal(), c["clkin"], **({"usr_clk_ref": True} if c["usr"] else {})),
                     [lambda i=i, ph=ph, f=f: mk(i, ph, f) for i, (ph, f) in enumerate(c["outs"])])
            with quiet():
                o.finalize()
        except Exception as e:
            return {"status": status_of(e), "exc": repr(e)}
        sym = E.Sym().add(o._clkin, "clkin").add(o.locked, "locked").add(o.reset, "reset")
        for ph, sg in sigs.items():
            sym.add(sg, "clk%d" % ph)
        insts = E.find_instances(o, ("CC_PLL",))
        if len(insts) == 1:
            sym.add(port_expr(insts[0], "o", "USR_PLL_LOCKED"), "lock_raw")
        emit, wviol, inst = one_instance(o, ("CC_PLL",), sym)
        if inst is not None:
            wviol += E.clock_wiring(o, cds, [sigs[ph] for ph, _ in c["outs"]], sym, with_reset=[bool(x) for x in c["with_resets"]])
            drv = [sym.tok(x) for x in comb_drivers(o, o.locked)]
            if drv != ["(lock_raw&~reset)"]:
                wviol.append("locked is driven by %s, expected USR_PLL_LOCKED & ~reset" % drv)
        return {"status": "ok", "emit": emit, "wviol": wviol}

    def legal(self, c):
        phs = [ph for ph, _ in c["outs"]]
        if not c["outs"] or any(ph not in (0, 90, 180, 270) for ph in phs) or len(set(phs)) != len(phs):
            return False
        if any(f > self.MAXF[c["perf"]] for _, f in c["outs"]):
            return False
        fmin = min(F(f) for _, f in c["outs"])
        for ph, f in c["outs"]:
            if ph in (0, 90) and F(f) != fmin:
                return False
            if ph in (180, 270) and F(f) not in (fmin, 2 * fmin):
                return False
        return True

    def oracle(self, c, real):
        viol = []
        legal = self.legal(c)
        if real["status"] == "ok":
            if not legal:
                viol.append("a request the CC_PLL cannot realise was accepted")
            else:
                viol += emit_viol(E.expect_gatemate(c["clkin"], {ph: f for ph, f in c["outs"]}, c["perf"], c["lj"], c["lr"],
                                                    c["usr"]), real)
        elif real["status"] == "assertion":
            if legal:
                viol.append("a realisable request was refused: " + real.get("exc", ""))
        else:
            viol.append("unexpected exception " + real.get("exc", ""))
        return viol, False, None, None

    def gen(self, rng):
        perf = rng.choice(list(self.MAXF))
        base = float(rng.choice([10e6, 25e6, 48e6, 50e6, 100e6, 125e6, 156.25e6, float(rng.randrange(1_000_000, 208_000_000))]))
        phs = rng.sample([0, 90, 180, 270], rng.choice([1, 1, 2, 2, 3, 4]))
        outs = []
        for ph in phs:
            f = base * 2 if ph in (180, 270) and rng.random() < 0.5 else base
            outs.append((ph, f))
        r = rng.random()
        if r < 0.08:
            i = rng.randrange(len(outs))
            outs[i] = (outs[i][0], outs[i][1] * rng.choice([0.5, 2, 3, 1.5]))       # mostly unrealisable
        elif r < 0.12:
            outs.append((rng.choice(phs), base))                                     # duplicate phase
        c = {"fam": "gatemate", "clkin": float(rng.choice([10e6, 25e6, 48e6, 100e6])), "perf": perf, "lj": rng.choice([0, 1]),
             "lr": rng.choice([0, 1]), "usr": int(rng.random() < 0.3), "outs": outs,
             "with_resets": [int(rng.random() < 0.5) for _ in outs]}
        return gen_flags(rng, c)


Xilinx.first_key = lambda self, real: (real["divclk"], real["mult"])
FAMILY_CLASSES = [Xilinx, Ecp5, Ice40, Nx, NxOsc, NxOscFin, Intel, Gw1n, GwOsc, Gw5a, Trion, GateMate]
