"""C08 additions on top of harness/axilib.py (which is shared with other AXI properties and left untouched):

  * make_soc_axi      — an AXI(-Lite) bus built end to end through `soc.SoCBusHandler` whose MODEL is chosen by the Lean
                        side (`open socaxi …` = `SocAxi.fabric`, lean/LitexModel/Axi/LiteSoc.lean) instead of by the
                        harness: the glue's class selection, region decoders, timeout and register arguments are all on
                        the compared path;
  * soc_fabric_cases  — the class `do_finalize` instantiates against `SocAxi.fabric` on a grid (pure comparison);
  * check_params_cases— `get_check_parameters` against `checkParameters`;
  * local_rules_cases — the local legality rules of the closed-system theorems (`LocalOK`, served by `open localmon …`)
                        against the harness's own AXI-legal environments (must hold in every cycle) and against the
                        witnesses of the open findings / the saturation run (must fail).
"""
import random
import axilib as X
from axilib import (AxiFabric, WidthMismatch, _build_ports, _classes, _SpecBus, _tag, m_part, s_part,
                    make_shared, make_xbar)
from explore import impl_step


F_SAT = "C08-request-counter-saturation"
SAT_AT = 256          # accepted and unanswered requests of one direction that an 8-bit lock counter no longer counts


class SatAwareMonitor(X.AxiMonitor):
    """AxiMonitor that classifies histories inside the region of the open finding C08-request-counter-saturation: once
    some lock counter of the fabric has been asked to hold >= 256 unanswered requests of one direction (shared /
    arbiter / decoder: the bus total; crossbar: one slave's queue or one master's queue — exactly the quantities the
    counters count), everything AFTER that cycle belongs to the finding and is not judged.  The cycle of the 256th
    acceptance itself and every history below 256 are judged in full: any other mis-delivery stays a fresh violation."""

    def __init__(self, inst, hyp=True):
        super().__init__(inst, hyp=hyp)
        self.saturated = None

    def _deepest(self):
        best = 0
        for d in (0, 1):
            if self.kind == "xbar":
                best = max([best] + [len(q) for q in self.fifo[d]] + [len(q) for q in self.mq[d]])
            else:
                best = max(best, sum(len(q) for q in self.fifo[d]))
        return best

    def observe(self, letter, outs):
        if self.saturated is not None:
            return None
        msg = super().observe(letter, outs)
        if self._deepest() >= SAT_AT:
            self.saturated = "%d unanswered requests of one direction on one lock counter (%s)" % (self._deepest(), F_SAT)
        return msg


def arm(inst):
    """Give the instance the saturation-aware monitor (instance attribute shadows AxiFabric.monitor)."""
    inst.monitor = lambda: (SatAwareMonitor(inst) if inst.monitored else X.NullMonitor())
    return inst


def saturation_witness(full=False, xbar=False):
    """(instance, trace) of the 2x1 witness: master 0 gets 256 read addresses accepted, 255 are answered, master 1 asks,
    the 256th response arrives with both masters ready."""
    import wblib
    mk = make_xbar if xbar else make_shared
    inst = mk(2, [wblib.DecAll()], full=full, data_width=32, address_width=32)
    idle = m_part()
    tr = [tuple(m_part(ar=(4 * k & 0xffff, 2)) + idle + s_part(ar_ready=1)) for k in range(256)]
    tr += [tuple(m_part(r_ready=1) + idle + s_part(r=(1, k & 0xff))) for k in range(255)]
    tr += [tuple(idle + m_part(ar=(0x40, 2)) + s_part())]
    tr += [tuple(m_part(r_ready=1) + m_part(ar=(0x40, 2), r_ready=1) + s_part(r=(1, 0x99)))]
    return inst, tr


def probe_saturation():
    """Replay the witness on the real netlist (compiled evaluator).  still_fails = the 256th response is shown to
    master 1 and not to master 0 (its issuer).  Also reported: what the plain monitor says, and that the saturation-aware
    monitor classifies the tail of the run under the finding (stays silent)."""
    res = []
    for full, xbar in ((False, False), (True, True)):
        inst, tr = saturation_witness(full, xbar)
        plain, aware = X.AxiMonitor(inst), SatAwareMonitor(inst)
        pmsg = amsg = None
        outs = None
        for l in tr:
            outs = impl_step(inst, l)
            pmsg = pmsg or plain.observe(l, outs)
            amsg = amsg or aware.observe(l, outs)
        _, to_m = X.split_outs(outs, 2, 1)
        fails = bool(to_m[1][X.RV]) and not to_m[0][X.RV]
        res.append((fails, "%s%s 2x1: 256th R delivered to master %s; plain monitor: %s; saturation-aware monitor: %s" % (
            _tag(full), "Crossbar" if xbar else "Shared", "1, not to its issuer 0" if fails else "0 (issuer)",
            pmsg or "silent", amsg or ("silent (classified: %s)" % aware.saturated))))
    return res


def soc_words(n, regions, interconnect, full, data_width, address_width, timeout):
    t = "none" if timeout is None else str(int(timeout))
    return "%d %s %s %d %d %d %s" % (int(full), interconnect, t, n, data_width, address_width,
                                     " ".join("%d:%d" % (o, sz) for o, sz in regions))


def build_soc_handler(n, regions, interconnect, full, data_width, address_width, timeout, register=True):
    """`SoCBusHandler(standard, …)` + add_master/add_slave(region=SoCRegion) + finalize(), the way `SoC` does it."""
    from litex.soc.integration.soc import SoCBusHandler, SoCRegion
    m = len(regions)
    masters, slaves, maw = _build_ports(n, m, data_width, address_width, full)
    h = SoCBusHandler(standard="axi" if full else "axi-lite", data_width=data_width, address_width=address_width,
                      timeout=timeout, interconnect=interconnect, interconnect_register=register)
    for i, p in enumerate(masters):
        h.add_master("m%d" % i, p)
    for j, (p, (o, sz)) in enumerate(zip(slaves, regions)):
        h.add_slave("s%d" % j, p, region=SoCRegion(origin=o, size=sz))
    h.finalize()
    got_m, got_s = list(h.masters.values()), list(h.slaves.values())
    if any(a is not b for a, b in zip(masters + slaves, got_m + got_s)):
        raise WidthMismatch("SoCBusHandler inserted adapters between equal-standard, equal-width ports")
    return h, masters, slaves


def fabric_name(h, full):
    """What `do_finalize` built, in the vocabulary of `SocAxi.fabricName`."""
    ic = h._interconnect
    if ic is None:
        return "none"
    arb, dec, shared, xbar, p2p = _classes(full)
    if type(ic) is p2p:
        return "p2p"
    if type(ic) is shared:
        return "sharedt" if hasattr(ic, "timeout") else "shared"
    if type(ic) is xbar:
        return "xbar"
    return type(ic).__name__


def make_soc_axi(n, regions, interconnect="shared", full=False, data_width=32, address_width=32, timeout=1e6, **kw):
    import wblib
    h, masters, slaves = build_soc_handler(n, regions, interconnect, full, data_width, address_width, timeout)
    # instance kind / address map for the MONITOR come from the specification of the glue (not from what was built):
    # one master + one slave at origin 0 is wired through, everything else is decoded by the slaves' regions
    kind = "p2p" if (n == 1 and len(regions) == 1 and regions[0][0] == 0) else ("shared" if interconnect == "shared" else "xbar")
    decs = [wblib.DecRegion(o, sz) for (o, sz) in regions]
    if kind == "p2p":
        decs = [wblib.DecAll()]
    name = kw.pop("name", None) or "SoCBusHandler(%s) %s %dx%d/%db" % (_tag(full), interconnect, n, len(regions), data_width)
    lean_open = "socaxi " + soc_words(n, regions, interconnect, full, data_width, address_width, timeout)
    inst = AxiFabric(name, kind, h, masters, slaves, decs, lean_open, full=full, data_width=data_width,
                     address_width=address_width, bus=_SpecBus(data_width, address_width), **kw)
    inst.timeout = "none" if timeout is None else int(timeout)
    arm(inst)
    inst.soc_spec = {"kind": "soc", "n": n, "regions": [list(r) for r in regions], "interconnect": interconnect, "full": full,
                     "data_width": data_width, "address_width": address_width,
                     "timeout": None if timeout is None else int(timeout)}
    return inst


def make_from_soc_spec(spec):
    return make_soc_axi(spec["n"], [tuple(r) for r in spec["regions"]], spec["interconnect"], full=spec["full"],
                        data_width=spec["data_width"], address_width=spec["address_width"], timeout=spec["timeout"])


def soc_directed_cases(ctx):
    """Directed one-cycle inputs through real SoCBusHandler fabrics (the glue on the monitored path, not only on the
    compared one): master 0 presents a write and a read address with every slave ready — addresses inside each region
    (first / last word) must be accepted by that region's slave only, addresses outside every region (0, just below an
    origin, just above a window, far away) must not be accepted at all (AxiMonitor rule A).  The one-master-one-slave-at-
    origin-0 case is wired through by design (instance kind p2p: every address is the slave's)."""
    from axilib import AxiMonitor
    dis = []
    shapes = [(1, [(0x1000, 0x1000)], "shared", False), (1, [(0x1000, 0x1000)], "crossbar", True),
              (1, [(0x40000000, 0x10000)], "shared", True), (2, [(0, 0x1000)], "shared", False),
              (1, [(0, 0x1000), (0x40000000, 0x2000)], "crossbar", False),
              (2, [(0x10000000, 0x1000), (0x40000000, 0x10000)], "crossbar", False), (1, [(0, 0x10000)], "shared", False)]
    total = 0
    for n, regs, ic, full in shapes:
        try:
            inst = make_soc_axi(n, regs, ic, full=full)
        except Exception as e:
            dis.append({"instance": "SoCBusHandler directed %r" % (regs,), "kind": "correspondence-exception",
                        "what": "building the bus raised %r" % (e,)})
            continue
        addrs = {0, 0x2000_0000, 0xffff_fffc}
        for o, sz in regs:
            p2 = 1 << (sz - 1).bit_length()
            addrs |= {o, o + p2 - 4, (o + p2) & 0xffff_fffc, (o - 4) & 0xffff_fffc, (o + 2 * p2) & 0xffff_fffc}
        nl = inst.netlist
        root = nl.snapshot()
        for a in sorted(addrs):
            nl.restore(root)
            mon = SatAwareMonitor(inst)
            letter = m_part(aw=(a, 1), ar=(a, 1))
            for _ in range(n - 1):
                letter += m_part()
            for _ in regs:
                letter += s_part(aw_ready=1, ar_ready=1)
            outs = impl_step(inst, letter)
            msg = mon.observe(letter, outs)
            total += 1
            if msg:
                dis.append({"instance": inst.name, "make": inst.soc_spec, "kind": "monitor:" + msg, "monitor": msg,
                            "trace": [list(letter)]})
                break
        nl.restore(root)
    ctx.cov.add_cases("SoCBusHandler fabrics, directed in-region / out-of-region addresses (monitor)", total, total)
    return dis


def soc_fabric_cases(ctx):
    """Class selection of `do_finalize` vs `SocAxi.fabric`: masters 1..3, slaves 1..3, first origin zero / non-zero,
    both interconnect kinds, both standards, with / without timeout."""
    dis, lines, got = [], [], []
    region_sets = [[(0, 0x10000)], [(0, 1 << 32)], [(0x1000, 0x1000)], [(0, 0x1000), (0x40000000, 0x2000)],
                   [(0x10000000, 0x1000), (0, 0x800)], [(0x10000000, 0x1000), (0x40000000, 0x10000), (0x80000000, 0x3000)]]
    quick = ctx.tier == "quick"
    for n in (1, 2) if quick else (1, 2, 3):
        for k, regs in enumerate(region_sets):
            for ic in ("shared", "crossbar"):
                for full in (False, True):
                    for to in (1e6, None, 64):
                        if to == 64 and (n == 3 or full):
                            continue
                        if quick and ((full and (to is None or k in (1, 4, 5))) or (to == 64 and k != 3)):
                            continue        # quick tier: the AXI4 twin on the class-deciding corners only
                        try:
                            h, _, _ = build_soc_handler(n, regs, ic, full, 32, 32, to)
                            name = fabric_name(h, full)
                        except Exception as e:          # a changed glue that no longer builds this bus
                            name = "exception %r" % (e,)
                        lines.append("socfabric " + soc_words(n, regs, ic, full, 32, 32, to))
                        got.append(name)
    res = ctx.lean.call_batch(lines)
    nontriv = 0
    for l, r, g in zip(lines, res, got):
        ctx.cov.count("socfabric_" + g.split()[0])
        nontriv += g in ("p2p", "sharedt", "xbar", "shared")
        if r.strip() != g:
            dis.append({"instance": "SoCBusHandler.do_finalize (axi-lite/axi)", "kind": "correspondence", "case": l,
                        "impl": g, "model": r})
            if len(dis) >= 3:
                break
    ctx.cov.add_cases("SoCBusHandler.do_finalize fabric class vs SocAxi.fabric", len(lines), nontriv, exhaustive=False)
    return dis


def check_params_cases(ctx):
    from litex.soc.interconnect.axi import axi_lite, axi_full
    dis, lines, got = [], [], []
    rng = random.Random(ctx.seed * 3 + 1)
    cases = [[32], [32, 32, 32], [32, 64], [64, 64, 32], [8, 8], [128, 128, 128, 128], [16, 32, 16]]
    cases += [[rng.choice((8, 16, 32, 64)) for _ in range(rng.randrange(1, 5))] for _ in range(5 if ctx.tier == "quick" else 40)]
    for mod, mk in ((axi_lite, lambda w: axi_lite.AXILiteInterface(data_width=w, address_width=32)),
                    (axi_full, lambda w: axi_full.AXIInterface(data_width=w, address_width=32))):
        pool = {}           # one interface object per width (the function only reads `.data_width`)
        for ws in cases:
            try:
                for w in ws:
                    if w not in pool:
                        pool[w] = mk(w)
                r = "ok %d" % mod.get_check_parameters([pool[w] for w in ws])
            except AssertionError:
                r = "rej"
            lines.append("checkparams " + " ".join(map(str, ws)))
            got.append(r)
    res = ctx.lean.call_batch(lines)
    for l, r, g in zip(lines, res, got):
        if r.strip() != g:
            dis.append({"instance": "get_check_parameters", "kind": "correspondence", "case": l, "impl": g, "model": r})
    ctx.cov.add_cases("get_check_parameters vs checkParameters", len(lines), sum(g == "rej" for g in got), exhaustive=False)
    return dis


def spec_of(inst):
    """Replayable description of an instance (same keys as props/c08._spec_of)."""
    return {"kind": inst.kind, "n": inst.n, "decs": [d.word() for d in inst.decs], "full": inst.full,
            "data_width": inst.data_width, "address_width": inst.address_width, "domain": inst.domain,
            "m_address_widths": inst.m_address_widths, "id_width": inst.id_width,
            "timeout": getattr(inst, "timeout", "none")}


def _localmon_open(inst):
    w = inst.lean_open.split()
    assert w[0] in ("shared", "xbar"), inst.lean_open
    return "localmon " + inst.lean_open


def _legal_trace(inst, rng, cycles):
    """Letters of an AXI-legal in-domain run of the real fabric (the environment reacts to the real outputs); the
    property monitor is armed: a firing monitor ends the run and is reported."""
    n = inst.netlist
    root = n.snapshot()
    mon = inst.monitor()
    trace, msg = [], None
    for t in range(cycles):
        letter = inst.gen(rng, t)
        outs = impl_step(inst, letter)
        trace.append(tuple(letter))
        msg = mon.observe(letter, outs)
        if msg:
            break
    n.restore(root)
    return trace, msg


def local_rules_cases(ctx, MAPS, _region_map, quick=True):
    """(1) The hypotheses of `axl_closed_*` are what the harness calls an AXI-legal in-domain environment: `LocalOK`
    (Lean, `localOKb`) must hold in every cycle, both directions, of such runs.  (2) It must fail on the witnesses of the
    two open decoder findings (second address to another slave) and on the 256th acceptance of the saturation run."""
    import wblib
    dis = []
    rng = random.Random(ctx.seed * 977 + 5)
    cyc = 1500 if quick else 12000
    insts = [
        ("AXILiteShared 2x2 cover", lambda: make_shared(2, MAPS[2][0][1], env_kw={"max_out": 3})),
        ("AXICrossbar 3x3 cover", lambda: make_xbar(3, MAPS[3][0][1], full=True, env_kw={"max_out": 2})),
        ("AXILiteCrossbar 3x3 regions/32b", lambda: make_xbar(3, _region_map(rng, 3), data_width=32, address_width=32)),
        ("AXIShared 3x2 regions/64b", lambda: make_shared(3, _region_map(rng, 2), full=True, data_width=64, address_width=32)),
        ("AXILiteShared 2x3 hole", lambda: make_shared(2, MAPS[3][1][1], env_kw={"max_out": 4})),
    ]
    for label, mk in insts:
        inst = mk()
        trace, msg = _legal_trace(inst, rng, cyc)
        if msg:
            dis.append({"instance": label, "make": spec_of(inst), "kind": "monitor:" + msg, "monitor": msg,
                        "trace": [list(l) for l in trace]})
            continue
        ctx.lean.open(_localmon_open(inst))
        flags = ctx.lean.run(trace)
        ctx.lean.close_session()
        bad = [t for t, f in enumerate(flags) if list(f) != [1, 1]]
        if bad:
            dis.append({"instance": label, "kind": "correspondence",
                        "what": "the harness's AXI-legal in-domain environment violates LocalOK (w, r) = %r in cycle %d" % (
                            list(flags[bad[0]]), bad[0]), "trace": [list(l) for l in trace[:bad[0] + 1]]})
        ctx.cov.add_cases("LocalOK holds along AXI-legal run: " + label, len(trace), len(trace))
    # witnesses of the excluded regions
    decs = MAPS[2][0][1]
    wit = []
    for mk, lab in ((make_shared, "shared"), (make_xbar, "xbar")):
        for d in ("w", "r"):
            if d == "w":
                tr = [m_part(aw=(0, 1)) + s_part(aw_ready=1) + s_part(aw_ready=1),
                      m_part(aw=(2, 1)) + s_part(aw_ready=1) + s_part(aw_ready=1)]
            else:
                tr = [m_part(ar=(0, 1)) + s_part(ar_ready=1) + s_part(ar_ready=1),
                      m_part(ar=(2, 1)) + s_part(ar_ready=1) + s_part(ar_ready=1)]
            wit.append(("second address to another slave (%s, %s)" % (lab, d), mk(1, decs), tr, 1, 0 if d == "w" else 1))
    inst = make_shared(2, [wblib.DecAll()], data_width=32, address_width=32)
    tr = [m_part(ar=(4 * k & 0xffff, 2)) + m_part() + s_part(ar_ready=1) for k in range(256)]
    wit.append(("256th acceptance (saturation)", inst, tr, 255, 1))
    for label, inst, tr, at, which in wit:
        ctx.lean.open(_localmon_open(inst))
        flags = ctx.lean.run([tuple(l) for l in tr])
        ctx.lean.close_session()
        first_bad = next((t for t, f in enumerate(flags) if f[which] != 1), None)
        if first_bad != at:
            dis.append({"instance": label, "kind": "correspondence",
                        "what": "LocalOK expected to fail first in cycle %d of the witness, model says %r" % (at, first_bad)})
        ctx.cov.add_cases("LocalOK fails on witness: " + label, len(tr), 1)
    return dis


def id_width_cases(ctx):
    """Masters with DIFFERENT id widths (the AXI4 fabrics size their internal interfaces with the maximum): every master's
    AWID/ARID must reach the slave unchanged and the slave's BID/RID must come back unchanged to the issuer — checked
    directly on the real netlist (no model involved: the instance of `axl_id_preserved` for the id field).  A fabric sized
    from the narrowest master (or from a default) truncates the wide masters' ids."""
    from litex.soc.interconnect.axi.axi_full import AXIInterface, AXIInterconnectShared, AXICrossbar
    from netlist import Netlist
    dis, total = [], 0
    for cls, label, args in ((AXIInterconnectShared, "AXIInterconnectShared", {"timeout_cycles": None}),
                             (AXICrossbar, "AXICrossbar", {})):
        for widths in ([2, 4], [4, 2], [1, 3, 2]):
            wmax = max(widths)
            masters = [AXIInterface(data_width=32, address_width=32, id_width=w) for w in widths]
            slaves = [AXIInterface(data_width=32, address_width=32, id_width=wmax) for _ in range(2)]
            mod = cls(masters, [(lambda a: a[20] == 0, slaves[0]), (lambda a: a[20] == 1, slaves[1])], **args)
            nl = Netlist(mod)
            root = nl.snapshot()
            for i, (m, w) in enumerate(zip(masters, widths)):
                for j, s in enumerate(slaves):
                    for a_ch, r_ch in (("aw", "b"), ("ar", "r")):
                        nl.restore(root)
                        idv = ((1 << w) - 2) if w > 1 else 1
                        ma, sa, mr, sr = getattr(m, a_ch), getattr(s, a_ch), getattr(m, r_ch), getattr(s, r_ch)
                        addr = j << 22
                        got = None
                        for _ in range(len(masters) + 1):       # the grant may need a cycle per master to reach `i`
                            nl.set(ma.valid, 1); nl.set(ma.addr, addr); nl.set(ma.id, idv); nl.set(sa.ready, 1)
                            nl.settle()
                            if nl.getu(sa.valid):
                                got = nl.getu(sa.id)
                                nl.tick()
                                break
                            nl.tick()
                        total += 1
                        what = None
                        if got != idv:
                            what = "%s id %#x of master %d (id_width %d) reaches slave %d as %r" % (a_ch, idv, i, w, j, got)
                        else:
                            nl.set(ma.valid, 0); nl.set(sa.ready, 0)
                            nl.set(sr.valid, 1); nl.set(sr.id, idv); nl.set(mr.ready, 1)
                            if r_ch == "r":
                                nl.set(sr.last, 1)
                            nl.settle()
                            back = nl.getu(mr.id) if nl.getu(mr.valid) else None
                            if back != idv:
                                what = "%s id %#x given by slave %d comes back to master %d (id_width %d) as %r" % (
                                    r_ch, idv, j, i, w, back)
                        if what:
                            dis.append({"instance": "%s master id widths %r" % (label, widths), "kind": "monitor:I: " + what,
                                        "monitor": "I: " + what,
                                        "input": {"class": label, "master_id_widths": widths, "slave_id_width": wmax,
                                                  "master": i, "slave": j, "channel": a_ch, "id": idv, "addr": addr}})
                            break
                    if dis and dis[-1]["instance"].startswith(label):
                        break
    ctx.cov.add_cases("AXI4 fabrics with unequal master id widths: ids preserved both ways (direct check)", total, total)
    return dis


# ---------------------------------------------------------------------------------------------------------
# fabrics whose finite bus timeout FIRES: service after a forced response

class TimeoutServiceMonitor:
    """C08 clause `every requesting master is eventually served` on a shared interconnect whose AXI(Lite)Timeout fires
    (the routing rules of AxiMonitor do not apply there: the watchdog answers in place of the slave — property C11).
    Port level only, independent of the model.  Per direction it keeps: requests held by each slave (real handshakes at
    the slave ports), forced transactions (address handshake at a master with no slave handshake in that cycle =
    accepted by the watchdog; response handshake at a master with no slave response handshake = the forced response).
    Rule S, armed once a forced response has completed: in a cycle in which no slave holds a request, no forced
    transaction is open, no response is offered to anybody and exactly one master requests, that master's address is
    shown to the slave of its region within n+1 such consecutive cycles (round-robin bound: the locks are released and
    the grant reaches it)."""

    def __init__(self, inst):
        self.inst, self.n, self.m, self.full = inst, inst.n, inst.m, inst.full
        self.out = [[0] * self.m for _ in (0, 1)]
        self.forced = [[0] * self.n for _ in (0, 1)]
        self.events = [0, 0]
        self.wait = [[0] * self.n for _ in (0, 1)]

    def observe(self, letter, outs):
        inst, n, m = self.inst, self.n, self.m
        ms, ss = X.split_letter(letter, n, m)
        to_s, to_m = X.split_outs(outs, n, m)
        for d in (0, 1):
            AV, AA, AR_, XV, XR = (X.AWV, X.AWA, X.AWR, X.BV, X.BR) if d == 0 else (X.ARV, X.ARA, X.ARR, X.RV, X.RR)
            dn = "write" if d == 0 else "read"
            req = [i for i in range(n) if ms[i][AV] or (d == 0 and ms[i][X.WV])]
            quiet = (self.events[d] > 0 and not any(self.out[d]) and not any(self.forced[d]) and
                     not any(to_m[i][XV] for i in range(n)) and not any(ss[j][XV] for j in range(m)))
            for i in range(n):
                tg = inst.target(ms[i][AA]) if (quiet and req == [i] and ms[i][AV]) else []
                if len(tg) == 1 and not (to_s[tg[0]][AV] and to_s[tg[0]][AA] == ms[i][AA]):
                    self.wait[d][i] += 1
                    if self.wait[d][i] > n:
                        return ("S: after a forced (timeout) %s response completed, master %d presents %s address %#x for %d "
                                "cycles with no slave holding a request, no response offered and nobody else requesting, and "
                                "slave %d (its region) still does not see it: grant / slave select not released"
                                % (dn, i, dn, ms[i][AA], self.wait[d][i], tg[0]))
                else:
                    self.wait[d][i] = 0
            MA = [i for i in range(n) if ms[i][AV] and to_m[i][AR_]]
            SA = [j for j in range(m) if to_s[j][AV] and ss[j][AR_]]
            for j in SA:
                self.out[d][j] += 1
            if MA and not SA:
                for i in MA:
                    self.forced[d][i] += 1
            MR = [i for i in range(n) if to_m[i][XV] and ms[i][XR]]
            SR = [j for j in range(m) if ss[j][XV] and to_s[j][XR]]
            for j in SR:
                if d == 0 or not self.full or ss[j][X.RL]:
                    self.out[d][j] = max(0, self.out[d][j] - 1)
            if MR and not SR:
                for i in MR:
                    if self.forced[d][i] > 0:
                        self.forced[d][i] -= 1
                        self.events[d] += 1
        return None


def replay_timeout_service(inst, trace):
    mon = TimeoutServiceMonitor(inst)
    nl = inst.netlist
    root = nl.snapshot()
    res = None
    for t, l in enumerate(trace):
        msg = mon.observe(l, impl_step(inst, l))
        if msg:
            res = (t, msg)
            break
    nl.restore(root)
    return res


def timeout_service_cases(ctx):
    """Directed histories on real shared interconnects with a small finite timeout: slave 0 is silent, master 0's read
    (write) to it times out — the watchdog accepts the address (and data) and gives the forced response —, then master 1
    asks for the live slave 1.  TimeoutServiceMonitor judges: the forced response must release the locks."""
    import wblib
    dis, total = [], 0
    dcor = [wblib.DecRegion(0, 0x10000), wblib.DecRegion(0x90000000, 0x3000)]
    A0, A1 = 0x100, 0x90000010
    for full, n, t, d in ((False, 2, 4, "r"), (True, 2, 8, "r"), (True, 3, 8, "r"), (False, 3, 4, "w"), (True, 2, 8, "w")):
        inst = make_shared(n, dcor, full=full, timeout=t, data_width=32, address_width=32, domain=False, monitored=False)
        mon = TimeoutServiceMonitor(inst)
        wpay = ((1 << (X.pay_width(True, "w", 32, 32) - 1)) | 0x55) if full else 0x155
        s0, s1 = s_part(), s_part(aw_ready=1, w_ready=1, ar_ready=1)
        idle = m_part()
        trace, phase, a_done, w_done, left = [], 0, False, d == "r", None
        msg = None
        for cyc in range(6 * t + 4 * n + 30):
            if phase == 0:
                if d == "r":
                    m0 = m_part(ar=None if a_done else (A0, 0), r_ready=1)
                else:
                    m0 = m_part(aw=None if a_done else (A0, 0), w=None if w_done else wpay, b_ready=1)
                parts = [m0] + [idle] * (n - 1)
            elif phase == 1:
                parts = [m_part(r_ready=1, b_ready=1)] + [idle] * (n - 1)
            else:
                m1 = m_part(ar=(A1, 0), r_ready=1) if d == "r" else m_part(aw=(A1, 0), w=wpay, b_ready=1)
                parts = [idle, m1] + [idle] * (n - 2)
            letter = tuple(sum(parts, ()) + s0 + s1)
            outs = impl_step(inst, letter)
            trace.append(letter)
            total += 1
            msg = mon.observe(letter, outs)
            if msg:
                break
            to_s, to_m = X.split_outs(outs, n, 2)
            if phase == 0:
                if d == "r":
                    a_done = a_done or bool(to_m[0][X.ARR])
                else:
                    a_done = a_done or bool(to_m[0][X.AWR])
                    w_done = w_done or bool(to_m[0][X.WR])
                if a_done and w_done:
                    phase = 1
            elif phase == 1:
                if to_m[0][X.RV if d == "r" else X.BV]:
                    phase, left = 2, 2 * n + 6
            else:
                left -= 1
                if to_s[1][X.ARV if d == "r" else X.AWV] or left <= 0:
                    break
        label = "%sShared %dx2 timeout_cycles=%d silent slave, timed-out %s then another master" % (
            _tag(full), n, t, "read" if d == "r" else "write")
        if msg:
            dis.append({"instance": label, "make": spec_of(inst), "kind": "monitor:" + msg, "monitor": msg,
                        "monitor_kind": "timeout-service", "trace": [list(l) for l in trace]})
        elif phase < 2:
            ctx.cov.notes.append("%s: the watchdog did not answer within %d cycles (property C11), service rule not reached" % (label, len(trace)))
        ctx.cov.add_cases(label, len(trace), len(trace))
    return dis
