"""C11 — instances, environments and property monitors for the bus timeouts.

Real code driven: `WaitTimer`, `wishbone.Timeout`, `wishbone.InterconnectShared/Crossbar`,
`AXILiteTimeout/AXITimeout`, `AXILiteInterconnectShared/AXIInterconnectShared` (+ crossbars in probes),
`SoCController` (bus error counter).  Letter / output formats are those of `lean/LitexModel/Timeout/Num.lean`.

The monitors are the property itself, written over port observations only (plus the arbiter's `grant`, which the
property names: "after it has been granted the bus"); they do not use the Lean model.
"""
import itertools
from migen import Module, Signal
from netlist import Netlist
from litex.gen.genlib.misc import WaitTimer
from litex.soc.interconnect import wishbone, axi
from litex.soc.interconnect.axi import axi_lite, axi_full


class LazyNetlist(Netlist):
    """`tick` commits the registers; the comb re-evaluation is left to the next `settle()`."""
    def tick(self, cds=("sys",)):
        ev = self.ev
        for cd in cds:
            if cd in self.sync:
                ev.execute(self.sync[cd])
        ev.commit()


def _error_sig(module, t):
    """`interconnect.timeout.error` — what SoC.finalize wires to the bus error counter.  An interconnect that has
    no `timeout` although one is configured reads as error = 0 (and then disagrees with the model)."""
    tm = getattr(module, "timeout", None)
    return tm.error if (t is not None and tm is not None) else None


class Base:
    """Instance protocol of explore.py with flat signal lists."""
    monitor_cls = None

    def _finish(self, module, ins, outs):
        self.netlist = LazyNetlist(module)
        self._in, self._out = ins, outs
        self.inputs = None
        self.outputs = None
        self.last = None
        self.env = None

    def apply(self, letter):
        n = self.netlist
        for s, v in zip(self._in, letter):
            n.set(s, v)
        n.settle()

    def sample(self):
        n = self.netlist
        outs = [n.getu(s) if s is not None else 0 for s in self._out]
        self.last = outs
        return outs

    def nontrivial(self, letter, outs):
        return any(letter)

    def gen(self, rng, t):
        if t == 0 or self.env is None:
            self.env = self.make_env(rng)
            self.last = None
        return self.env.letter(rng, t, self.last)

    def monitor(self):
        return self.make_monitor()


# ---------------------------------------------------------------------------------------------------------
# WaitTimer

class WaitTimerInst(Base):
    def __init__(self, t):
        m = WaitTimer(t)                      # as passed (the SoC default is the float 1e6)
        self.name = "WaitTimer(%r)" % (t,)
        t = self.t = int(t)                   # documented meaning: `int(t)` cycles
        self.lean_open = "waittimer %d" % t
        self.qual = [None]
        self.alphabet = [(0,), (1,)]
        self._finish(m, [m.wait], [m.done])

    def make_env(self, rng):
        t = self.t

        class Env:
            def __init__(self):
                self.left = 0
                self.val = 0

            def letter(self, rng, c, last):
                if self.left == 0:
                    self.val = 1 if rng.random() < 0.7 else 0
                    self.left = rng.choice((1, 2, t - 1, t, t + 1, t + 3, rng.randint(1, 2 * t + 2))) if self.val \
                        else rng.randint(1, 3)
                    self.left = max(1, self.left)
                self.left -= 1
                return (self.val,)
        return Env()

    def make_monitor(self):
        t = self.t

        class Mon:
            """done exactly when `wait` has been held for the t preceding cycles."""
            def __init__(self):
                self.streak = 0

            def observe(self, letter, outs):
                exp = 1 if self.streak >= t else 0
                msg = None
                if outs[0] != exp:
                    msg = "WaitTimer(%d): done=%d after %d consecutive waiting cycles" % (t, outs[0], self.streak)
                self.streak = self.streak + 1 if letter[0] else 0
                return msg
        return Mon()

    def nontrivial(self, letter, outs):
        return bool(letter[0])


# ---------------------------------------------------------------------------------------------------------
# SoCController bus error counter

class BusErrInst(Base):
    """`SoCController(with_reset=False, with_scratch=False)`; the counter register can be preloaded (the only
    sync-driven 32-bit register of the module) so that the saturation region is reachable."""
    def __init__(self, init=0):
        from litex.soc.integration.soc import SoCController
        m = SoCController(with_reset=False, with_scratch=False, with_errors=True)
        self.init = init
        self.name = "SoCController.bus_errors(init=%#x)" % init
        self.lean_open = "buserr 32 %d" % init
        self.qual = [None]
        self.alphabet = [(0,), (1,)]
        self._finish(m, [m.bus_error], [m._bus_errors.status])
        # the module has one register (the counter); it is preloaded through the netlist, which truncates to the
        # implementation's width -- model and monitor keep the property's 32 bits, so a mis-sized counter shows
        regs = sorted(self.netlist.regs, key=lambda r: -r.nbits)
        if regs:
            self.netlist.set(regs[0], init)
        self.netlist.settle()

    def make_env(self, rng):
        class Env:
            def letter(self, rng, c, last):
                return (1 if rng.random() < 0.6 else 0,)
        return Env()

    def make_monitor(self):
        init = self.init

        class Mon:
            def __init__(self):
                self.pulses = 0

            def observe(self, letter, outs):
                exp = min(init + self.pulses, 2 ** 32 - 1)
                msg = None
                if outs[0] != exp:
                    msg = "bus_errors=%d, expected min(%d+%d, 2^32-1)" % (outs[0], init, self.pulses)
                self.pulses += 1 if letter[0] else 0
                return msg
        return Mon()


# ---------------------------------------------------------------------------------------------------------
# wishbone.Timeout alone (bus as environment)

class _WbTimeoutWrap(Module):
    """The watched bus: request and the decoder's answer are harness inputs; `Timeout` overrides on top
    (its statements come after ours, exactly as after the Decoder's in InterconnectShared)."""
    def __init__(self, t, dw):
        self.bus = bus = wishbone.Interface(data_width=dw, adr_width=4)
        self.s_ack = Signal()
        self.s_dat = Signal(dw)
        self.comb += [bus.ack.eq(self.s_ack), bus.dat_r.eq(self.s_dat)]
        self.submodules.timeout = wishbone.Timeout(bus, t)


class WbTimeoutInst(Base):
    def __init__(self, t, dw=8, dats=(0x00, 0xa5)):
        self.t, self.dw = t, dw
        m = _WbTimeoutWrap(t, dw)
        self.name = "wishbone.Timeout(%d)/%db" % (t, dw)
        self.lean_open = "wbtimeout %d %d" % (t, dw)
        self.qual = [None, 0, None]
        self.alphabet = [(c, s, a, d) for c in (0, 1) for s in (0, 1) for a in (0, 1) for d in dats]
        self._finish(m, [m.bus.cyc, m.bus.stb, m.s_ack, m.s_dat], [m.bus.ack, m.bus.dat_r, m.timeout.error])

    def make_env(self, rng):
        inst = WbSharedInst.__new__(WbSharedInst)
        inst.n, inst.k, inst.t, inst.dw, inst.sh = 1, 1, self.t, self.dw, 1
        inner = WbEnv(inst, rng)

        class Env:
            def letter(self, rng, c, last):
                fake = None
                if last is not None:
                    fake = [0, 0, 0, last[0], 0, last[1], last[2], 0]
                    fake[0:3] = self.prev[0:3]
                l = inner.letter(rng, c, fake)
                self.prev = l
                return (l[0], l[1], l[3], l[5])
        e = Env()
        e.prev = (0, 0, 0)
        return e

    def make_monitor(self):
        mon = WbMonitor(1, 1, self.t, self.dw, 1, reg=False)

        class Mon:
            def observe(self, letter, outs):
                cyc, stb, ack, d = letter
                return mon.observe((cyc, stb, 0, ack, 0, d), [cyc, stb, 0, outs[0], 0, outs[1], outs[2], 0])
        return Mon()



# ---------------------------------------------------------------------------------------------------------
# SoC glue: interconnect + SoCController bus error counter, wired by the very statement of SoC.finalize

class _SocGlue(Module):
    """`SoC.finalize`:  if hasattr(ctrl, "bus_error") and hasattr(interconnect, "timeout"):
                            comb += ctrl.bus_error.eq(interconnect.timeout.error)"""
    def __init__(self, ic):
        from litex.soc.integration.soc import SoCController
        self.submodules.ic = ic
        self.submodules.ctrl = ctrl = SoCController(with_reset=False, with_scratch=False, with_errors=True)
        if hasattr(ctrl, "bus_error") and hasattr(ic, "timeout"):
            self.comb += ctrl.bus_error.eq(ic.timeout.error)


def _preload_counter(netlist, init, exclude_bits=()):
    """Preload `bus_errors` (the widest register of the glue module; data widths of these instances are < 32)."""
    regs = sorted(netlist.regs, key=lambda r: -r.nbits)
    if regs and init:
        netlist.set(regs[0], init)
    netlist.settle()


class SocMonitor:
    """Base monitor of the interconnect on the interconnect's part of letter/outputs, plus: `bus_errors` equals
    min(init + number of expiry events so far, 2^32-1), the events being recognised by the base monitor from port
    observations (Wishbone: expiry cycles; AXI: cycles with a write and/or a read expiry -- one pulse as coded), and
    (AXI) every slave sees the id/len/last of the owner of the respective direction."""
    def __init__(self, base, nl, no, init, events, pay=None):
        self.base, self.nl, self.no, self.init, self.events, self.pay = base, nl, no, init, events, pay
        self.count = 0

    def observe(self, letter, outs):
        forced_w = self.pay and self.base.w.forced           # forced-response phase (before this cycle's step)
        forced_r = self.pay and self.base.r.forced
        msg = self.base.observe(tuple(letter[:self.nl]), list(outs[:self.no]))
        if msg:
            return msg
        exp = min(self.init + self.count, 2 ** 32 - 1)
        if outs[-1] != exp:
            return "bus_errors=%d, expected min(%d + %d timeout events, 2^32-1)" % (outs[-1], self.init, self.count)
        self.count += self.events()
        if self.pay:
            n, k = self.pay
            gw, gr = outs[self.no - 2], outs[self.no - 1]
            pm = [letter[self.nl + 5 * i: self.nl + 5 * i + 5] for i in range(n)]
            for j in range(k):
                see = list(outs[self.no + 5 * j: self.no + 5 * j + 5])
                want = list(pm[gw][0:3]) + list(pm[gr][3:5])
                if see != want:
                    return "slave %d sees awid/awlen/wlast/arid/arlen = %r, the owners (write: master %d, read: master %d) drive %r" % (
                        j, see, gw, gr, want)
            # response ids.  A FORCED B/R carries the decoder's id mux instead of the request's id: known finding
            # C11-axi-forced-response-id (replayed by its probe), not judged here.  The id of an ANSWERED request is
            # the answering slave's: anything else is a fresh violation.
            ps = [letter[self.nl + 5 * n + 2 * j: self.nl + 5 * n + 2 * j + 2] for j in range(k)]
            pb = self.no + 5 * k
            bv_g = outs[4 * k + 4 * gw + 2]
            rv_g = outs[4 * k + 4 * n + 3 * k + 5 * gr + 1]
            drv_b = [j for j in range(k) if letter[4 * n + 4 * j + 2]]
            drv_r = [j for j in range(k) if letter[4 * n + 4 * k + 3 * n + 5 * j + 1]]
            if bv_g and not forced_w and len(drv_b) == 1 and outs[pb + 2 * gw] != ps[drv_b[0]][0]:
                return "answered write: master %d sees b.id=%d, slave %d answers with b.id=%d" % (
                    gw, outs[pb + 2 * gw], drv_b[0], ps[drv_b[0]][0])
            if rv_g and not forced_r and len(drv_r) == 1 and outs[pb + 2 * gr + 1] != ps[drv_r[0]][1]:
                return "answered read: master %d sees r.id=%d, slave %d answers with r.id=%d" % (
                    gr, outs[pb + 2 * gr + 1], drv_r[0], ps[drv_r[0]][1])
        return None

# ---------------------------------------------------------------------------------------------------------
# wishbone InterconnectShared / Crossbar

class WbSharedInst(Base):
    """n masters x k slaves; slave j answers iff adr >> sh == j (slots >= k are unmapped).
    letter: per master cyc stb adr ; per slave ack err dat_r
    outs  : per slave cyc stb adr ; per master ack err dat_r ; [shared: error grant]"""
    def __init__(self, n, k, t, dw=8, sh=1, reg=False, kind="shared", alphabet=None, m_aws=None, soc_init=None):
        """t: cycles (int or float, as users pass it), None (no timeout) or "default" (argument omitted: 1e6).
        soc_init: not None = with the SoCController error counter attached as SoC.finalize does (preloaded).
        m_aws: per-master adr widths (default sh + 2 everywhere): the shared bus is sized by the widest master."""
        aw = sh + 2
        self.m_aws = list(m_aws) if m_aws else [aw] * n
        ms = [wishbone.Interface(data_width=dw, adr_width=w) for w in self.m_aws]
        ss = [wishbone.Interface(data_width=dw, adr_width=aw) for _ in range(k)]
        slaves = [((lambda a, j=j: a[sh:] == j), s) for j, s in enumerate(ss)]
        cls = wishbone.InterconnectShared if kind == "shared" else wishbone.Crossbar
        if t == "default":
            m = cls(ms, slaves, register=reg)
        else:
            m = cls(ms, slaves, register=reg, timeout_cycles=t)
        self.module, self.masters, self.slaves = m, ms, ss
        self.name = "wishbone.%s(%dx%d,timeout=%r%s%s)/%db" % (cls.__name__, n, k, t, ",register" if reg else "",
                                                            ",adr_widths=%s" % self.m_aws if m_aws else "", dw)
        t = 10 ** 6 if t == "default" else (None if t is None else int(t))
        self.n, self.k, self.t, self.dw, self.sh, self.reg, self.kind = n, k, t, dw, sh, reg, kind
        tt = "none" if t is None else str(t)
        if kind == "shared":
            self.lean_open = "wbshared %d %d %d %s %d %d" % (n, k, int(reg), tt, dw, sh)
        else:
            self.lean_open = "wbxbar %d %d %d %d %d" % (n, k, int(reg), dw, sh)
        ins = [getattr(p, f) for p in ms for f in ("cyc", "stb", "adr")] + \
              [getattr(p, f) for p in ss for f in ("ack", "err", "dat_r")]
        outs = [getattr(p, f) for p in ss for f in ("cyc", "stb", "adr")] + \
               [getattr(p, f) for p in ms for f in ("ack", "err", "dat_r")]
        q = []
        for j in range(k):
            q += [None, 3 * j, 3 * j]
        for i in range(n):
            q += [None, None, 3 * k + 3 * i]
        if kind == "shared":
            outs += [_error_sig(m, t), m.arbiter.rr.grant]
            q += [None, None]
        self.soc_init = soc_init
        top = m
        if soc_init is not None:
            assert kind == "shared" and dw < 32
            top = _SocGlue(m)
            outs += [top.ctrl._bus_errors.status]
            q += [None]
            self.name += "+SoCController(bus_errors=%#x)" % soc_init
            self.lean_open = "wbsoc %d %d %d %s %d %d %d" % (n, k, int(reg), tt, dw, sh, soc_init)
        self.qual = q
        self.alphabet = alphabet or []
        self._finish(top, ins, outs)
        if soc_init is not None:
            _preload_counter(self.netlist, soc_init)

    def nontrivial(self, letter, outs):
        n, k = self.n, self.k
        return any(outs[3 * k + 3 * i] for i in range(n)) or any(letter[3 * i] and letter[3 * i + 1] for i in range(n))

    def make_env(self, rng):
        return WbEnv(self, rng)

    def make_monitor(self):
        if self.kind != "shared" or self.t is None:
            return NullMonitor()
        mon = WbMonitor(self.n, self.k, self.t, self.dw, self.sh, self.reg)
        if self.soc_init is None:
            return mon
        seen = [0]

        def events():
            d = mon.stats["timeouts"] - seen[0]
            seen[0] = mon.stats["timeouts"]
            return d
        return SocMonitor(mon, 3 * self.n + 3 * self.k, 3 * self.k + 3 * self.n + 2, self.soc_init, events)


class NullMonitor:
    def observe(self, letter, outs):
        return None


def wb_alphabet(n, k, sh, m_parts=None, s_parts=None):
    """Product alphabet.  Master part: idle, cyc without stb, stb without cyc, request to every slot 0..k
    (slot k is unmapped).  Slave part: silent, silent with garbage data, ack(0xa5), ack(0x3c)+err, err."""
    if m_parts is None:
        m_parts = [(0, 0, 0), (1, 0, 0), (0, 1, 0)] + [(1, 1, slot << sh) for slot in range(k + 1)]
    if s_parts is None:
        s_parts = [(0, 0, 0), (0, 0, 0x3c), (1, 0, 0xa5), (1, 1, 0x3c), (0, 1, 0)]
    out = []
    per_master = m_parts if isinstance(m_parts[0], list) else [m_parts] * n       # per-master parts allowed
    for combo in itertools.product(*(per_master + [s_parts] * k)):
        out.append(tuple(itertools.chain.from_iterable(combo)))
    return out


class WbEnv:
    """Protocol-following masters (hold cyc/stb/adr until ack; occasionally withdraw) and slaves with a random
    mode per request: answer after L cycles (L chosen around the timeout so that coincidences with the expiry
    cycle happen), or stay silent.  Feedback from the previous cycle's outputs."""
    def __init__(self, inst, rng):
        self.i = inst
        n, k = inst.n, inst.k
        self.m = [dict(st="idle", adr=0, gap=rng.randint(0, 3)) for _ in range(n)]
        self.s = [dict(seen=0, lat=self._lat(rng)) for _ in range(k)]
        self.prev_letter = None

    def amask(self, i):
        """Address range of master i, from the adr width given to ITS constructor."""
        aws = getattr(self.i, "m_aws", None)
        return (1 << (aws[i] if aws else self.i.sh + 2)) - 1

    def _lat(self, rng):
        t = min(self.i.t or 4, 300)
        r = rng.random()
        if r < 0.25:
            return None                                    # silent for this request
        if r < 0.65:
            return max(0, rng.choice((t - 2, t - 1, t, t + 1, t + 2)))
        return rng.randint(0, max(1, min(t, 6)))

    def letter(self, rng, c, last):
        inst = self.i
        n, k, sh = inst.n, inst.k, inst.sh
        # feedback
        if last is not None and self.prev_letter is not None:
            for i in range(n):
                ack = last[3 * k + 3 * i]
                m = self.m[i]
                if m["st"] == "req" and ack:
                    m["st"] = "idle"
                    m["gap"] = rng.choice((0, 0, 0, 1, 2, 5))
            for j in range(k):
                cyc, stb = last[3 * j], last[3 * j + 1]
                s = self.s[j]
                if cyc and stb:
                    if self.prev_letter[3 * n + 3 * j]:       # we acked last cycle: request done
                        s["seen"] = 0
                        s["lat"] = self._lat(rng)
                    else:
                        s["seen"] += 1
                else:
                    if s["seen"]:
                        s["lat"] = self._lat(rng)
                    s["seen"] = 0
        out = []
        for i in range(n):
            m = self.m[i]
            if m["st"] == "idle":
                if m["gap"] > 0:
                    m["gap"] -= 1
                elif rng.random() < 0.7:
                    m["st"] = "req"
                    slot = k if rng.random() < 0.15 else rng.randrange(k)
                    m["adr"] = ((slot << sh) | rng.getrandbits(sh)) & self.amask(i)
            if m["st"] == "req":
                r = rng.random()
                if r < 0.01:                                   # withdraw
                    m["st"] = "idle"
                    m["gap"] = rng.randint(0, 2)
                    out += [0, 0, m["adr"]]
                elif r < 0.03:                                 # wait state: cyc without stb
                    out += [1, 0, m["adr"]]
                else:
                    out += [1, 1, m["adr"]]
            else:
                out += [1 if rng.random() < 0.05 else 0, 0, rng.getrandbits(sh + 2) & self.amask(i)]
        dmask = (1 << inst.dw) - 1
        for j in range(k):
            s = self.s[j]
            if s["lat"] is not None and s["seen"] >= s["lat"] and (s["seen"] > 0 or s["lat"] == 0):
                # lat == 0: combinational ack whenever addressed is not knowable before settle; ack blindly
                out += [1, 1 if rng.random() < 0.03 else 0, rng.getrandbits(inst.dw) & dmask]
            else:
                out += [0, 0, rng.getrandbits(inst.dw) & dmask if rng.random() < 0.3 else 0]
        self.prev_letter = tuple(out)
        return self.prev_letter


class WbMonitor:
    """C11 on the Wishbone shared interconnect, from port observations.

    `waited` = number of consecutive preceding cycles in which the bus owner had cyc & stb and saw no ack.
      * waited == t (expiry cycle): a still-pending request must be terminated now: ack = 1, dat_r all ones,
        error = 1.
      * waited < t: error = 0; no forced ack (the owner sees ack only if some slave acks); a slave's ack reaches
        the owner, with the addressed slave's data (combinational decoder only); nobody else sees ack."""
    def __init__(self, n, k, t, dw, sh, reg):
        self.n, self.k, self.t, self.dw, self.sh, self.reg = n, k, t, dw, sh, reg
        self.waited = 0
        self.stats = {"timeouts": 0, "answered_in_time": 0, "slave_ack_in_expiry_cycle": 0,
                      "answered_in_last_cycle_before_expiry": 0, "withdrawn_in_expiry_cycle": 0}

    def observe(self, letter, outs):
        n, k, t = self.n, self.k, self.t
        ms = [letter[3 * i:3 * i + 3] for i in range(n)]
        ss = [letter[3 * n + 3 * j:3 * n + 3 * j + 3] for j in range(k)]
        to_m = [outs[3 * k + 3 * i:3 * k + 3 * i + 3] for i in range(n)]
        error, g = outs[3 * k + 3 * n], outs[3 * k + 3 * n + 1]
        cyc, stb, adr = ms[g]
        req = bool(cyc and stb)
        ack_g, _, dat_g = to_m[g]
        ones = (1 << self.dw) - 1
        msg = None
        for i in range(n):
            if i != g and to_m[i][0]:
                msg = "master %d sees ack while master %d owns the bus" % (i, g)
        any_ack = any(s[0] for s in ss)
        slot = adr >> self.sh
        for j in range(k):
            want = 1 if (cyc and slot == j) else 0
            if outs[3 * j] != want and not msg:
                msg = "slave %d sees cyc=%d while the owner (master %d) drives cyc=%d adr=%#x (%s)" % (
                    j, outs[3 * j], g, cyc, adr, "unmapped" if slot >= k else "slave %d" % slot)
        st = self.stats
        if self.waited >= t:
            st["timeouts"] += 1
            st["slave_ack_in_expiry_cycle"] += 1 if any_ack else 0
            st["withdrawn_in_expiry_cycle"] += 0 if req else 1
        elif req and any_ack:
            st["answered_in_time"] += 1
            st["answered_in_last_cycle_before_expiry"] += 1 if self.waited == t - 1 else 0
        if msg:
            pass
        elif self.waited >= t:
            if self.waited > t:
                msg = "request pending for %d cycles, timeout is %d" % (self.waited, t)
            elif req and not (ack_g and dat_g == ones and error):
                msg = ("request unanswered for %d cycles is not terminated with ack/all-ones/error: ack=%d dat_r=%#x "
                       "error=%d" % (t, ack_g, dat_g, error))
            elif req and not error:
                msg = "no error pulse in the expiry cycle"
        else:
            if error:
                msg = "error pulse after only %d waiting cycles (timeout %d)" % (self.waited, t)
            elif req and ack_g and not any_ack:
                msg = "owner acknowledged after %d waiting cycles although no slave acked (timeout %d)" % (self.waited, t)
            elif req and any_ack and not ack_g:
                msg = "slave ack in time did not reach the bus owner"
            elif req and ack_g and not self.reg:
                slot = adr >> self.sh
                if slot < k and ss[slot][0] and dat_g != ss[slot][2]:
                    msg = "request answered in time: owner reads %#x, slave %d drove %#x" % (dat_g, slot, ss[slot][2])
        self.waited = self.waited + 1 if (req and not ack_g) else 0
        return msg


# ---------------------------------------------------------------------------------------------------------
# AXILiteTimeout / AXITimeout alone (bus as environment)

AX_T_IN = ("awv", "wv", "br", "awr", "wr", "bv", "bresp", "arv", "rr", "arr", "rv", "rresp", "rdata", "rlast")


class _AxTimeoutWrap(Module):
    def __init__(self, full, t, dw):
        I = axi_full.AXIInterface if full else axi_lite.AXILiteInterface
        self.bus = bus = I(data_width=dw, address_width=8)
        self.i = {nm: Signal(dw if nm == "rdata" else (2 if nm.endswith("resp") else 1)) for nm in AX_T_IN}
        i = self.i
        self.comb += [
            bus.aw.valid.eq(i["awv"]), bus.w.valid.eq(i["wv"]), bus.b.ready.eq(i["br"]),
            bus.aw.ready.eq(i["awr"]), bus.w.ready.eq(i["wr"]), bus.b.valid.eq(i["bv"]), bus.b.resp.eq(i["bresp"]),
            bus.ar.valid.eq(i["arv"]), bus.r.ready.eq(i["rr"]),
            bus.ar.ready.eq(i["arr"]), bus.r.valid.eq(i["rv"]), bus.r.resp.eq(i["rresp"]), bus.r.data.eq(i["rdata"]),
            bus.r.last.eq(i["rlast"]),
        ]
        cls = axi_full.AXITimeout if full else axi_lite.AXILiteTimeout
        self.submodules.timeout = cls(bus, t)


class AxTimeoutInst(Base):
    """in : awv wv br awr wr bv bresp  arv rr arr rv rresp rdata rlast
       out: awr wr bv bresp  arr rv rresp rdata rlast  error"""
    def __init__(self, full, t, dw=8, direction="w"):
        self.full, self.t, self.dw = full, t, dw
        m = _AxTimeoutWrap(full, t, dw)
        self.name = "%s(%d)/%s" % ("AXITimeout" if full else "AXILiteTimeout", t, direction)
        self.lean_open = "axtimeout %d %d %d" % (int(full), t, dw)
        self.qual = [None, None, None, 2, None, None, 5, 5, 5, None]
        z7 = (0,) * 7
        if direction == "w":
            self.alphabet = [(a, w, br, ar, wr, bv, 1 if bv else 0) + z7
                             for a in (0, 1) for w in (0, 1) for br in (0, 1) for ar in (0, 1) for wr in (0, 1)
                             for bv in (0, 1)]
        else:
            self.alphabet = [z7 + (a, rr, ar, rv, 1 if rv else 0, 0x5a if rv else 0, l)
                             for a in (0, 1) for rr in (0, 1) for ar in (0, 1) for rv in (0, 1)
                             for l in ((0, 1) if full else (0,))]
        b = m.bus
        self._finish(m, [m.i[nm] for nm in AX_T_IN],
                     [b.aw.ready, b.w.ready, b.b.valid, b.b.resp, b.ar.ready, b.r.valid, b.r.resp, b.r.data, b.r.last,
                      m.timeout.error])

    def make_env(self, rng):
        dw = self.dw

        class Env:
            def letter(self, rng, c, last):
                regime = (c // 97) % 3
                p = (0.5, 0.15, 0.85)[regime]
                b = lambda q=p: 1 if rng.random() < q else 0
                return (b(0.7), b(0.7), b(0.5), b(), b(), b(), rng.getrandbits(2),
                        b(0.7), b(0.5), b(), b(), rng.getrandbits(2), rng.getrandbits(dw), b(0.5))
        return Env()

    def make_monitor(self):
        mon = AxMonitor(1, 1, self.t, self.dw, 4, self.full)

        class Mon:
            def observe(self, letter, outs):
                (awv, wv, br, awr, wr, bv, bresp, arv, rr, arr, rv, rresp, rdata, rlast) = letter
                l = (awv, 0, wv, br, awr, wr, bv, bresp, arv, 0, rr, arr, rv, rresp, rdata, rlast)
                o = [awv, 0, wv, br] + list(outs[0:4]) + [arv, 0, rr] + list(outs[4:9]) + [outs[9], 0, 0]
                return mon.observe(l, o)
        return Mon()


# ---------------------------------------------------------------------------------------------------------
# AXI-Lite / AXI shared interconnect

class AxSharedInst(Base):
    """letter: per master awv awa wv br ; per slave awr wr bv bresp ; per master arv ara rr ;
               per slave arr rv rresp rdata rlast
       outs  : per slave awv awa wv br ; per master awr wr bv bresp ; per slave arv ara rr ;
               per master arr rv rresp rdata rlast ; error grant_w grant_r"""
    def __init__(self, full, n, k, t, dw=8, sh=4, alphabet=None, tag="", kind="shared", m_aws=None, soc_init=None,
                 idw=2):
        """soc_init: not None = with the SoCController error counter attached as SoC.finalize does (preloaded) and
        with the pass-through payload (AXI: ids of `idw` bits, len, w.last) in letter and outputs (`axsoc`)."""
        self.full, self.n, self.k, self.t, self.dw, self.sh, self.kind = full, n, k, t, dw, sh, kind
        I = axi_full.AXIInterface if full else axi_lite.AXILiteInterface
        if soc_init is not None and full:
            I = lambda **kw: axi_full.AXIInterface(id_width=idw, **kw)
        aw = sh + 2
        self.m_aws = list(m_aws) if m_aws else [aw] * n
        if m_aws:
            tag += "/address_widths=%s" % self.m_aws
        ms = [I(data_width=dw, address_width=w) for w in self.m_aws]
        ss = [I(data_width=dw, address_width=aw) for _ in range(k)]
        ash = (dw // 8).bit_length() - 1
        assert sh >= ash
        slaves = [((lambda a, j=j: a[sh - ash:] == j), s) for j, s in enumerate(ss)]
        if kind == "shared":
            cls = axi_full.AXIInterconnectShared if full else axi_lite.AXILiteInterconnectShared
        else:
            cls = axi_full.AXICrossbar if full else axi_lite.AXILiteCrossbar
        m = cls(ms, slaves, timeout_cycles=t)
        self.module, self.masters, self.slaves = m, ms, ss
        self.name = "%s(%dx%d,timeout=%s)/%db%s" % (cls.__name__, n, k, t, dw, tag)
        if kind == "shared":
            self.lean_open = "axshared %d %d %d %s %d %d" % (int(full), n, k, "none" if t is None else t, dw, sh)
        else:
            self.lean_open = "axxbar %d %d %d %d %d" % (int(full), n, k, dw, sh)
        ins = [s for p in ms for s in (p.aw.valid, p.aw.addr, p.w.valid, p.b.ready)] + \
              [s for p in ss for s in (p.aw.ready, p.w.ready, p.b.valid, p.b.resp)] + \
              [s for p in ms for s in (p.ar.valid, p.ar.addr, p.r.ready)] + \
              [s for p in ss for s in (p.ar.ready, p.r.valid, p.r.resp, p.r.data, p.r.last)]
        outs = [s for p in ss for s in (p.aw.valid, p.aw.addr, p.w.valid, p.b.ready)] + \
               [s for p in ms for s in (p.aw.ready, p.w.ready, p.b.valid, p.b.resp)] + \
               [s for p in ss for s in (p.ar.valid, p.ar.addr, p.r.ready)] + \
               [s for p in ms for s in (p.ar.ready, p.r.valid, p.r.resp, p.r.data, p.r.last)]
        if kind == "shared":
            outs += [_error_sig(m, t), m.arbiter.rr_write.grant, m.arbiter.rr_read.grant]
        q = []
        for j in range(k):
            q += [None, 4 * j, None, None]
        for i in range(n):
            b = 4 * k + 4 * i
            q += [None, None, None, b + 2]
        base = 4 * k + 4 * n
        for j in range(k):
            q += [None, base + 3 * j, None]
        for i in range(n):
            b = base + 3 * k + 5 * i
            q += [None, None, b + 1, b + 1, b + 1]
        if kind == "shared":
            q += [None, None, None]
        self.soc_init = soc_init
        top = m
        if soc_init is not None:
            assert kind == "shared" and dw < 32 and t is not None
            top = _SocGlue(m)
            self.pay_dummies = []

            def psig(port, ch, nm, bits):
                if full:
                    return getattr(getattr(port, ch), nm)
                d = Signal(bits)                       # AXI-Lite has no such signal: unconnected harness input,
                self.pay_dummies.append(d)             # the outputs read 0 (as the model says for full = false)
                return d
            ins += [s for p in ms for s in (psig(p, "aw", "id", idw), psig(p, "aw", "len", 8), psig(p, "w", "last", 1),
                                            psig(p, "ar", "id", idw), psig(p, "ar", "len", 8))]
            ins += [s for p in ss for s in (psig(p, "b", "id", idw), psig(p, "r", "id", idw))]
            if full:
                outs += [s for p in ss for s in (p.aw.id, p.aw.len, p.w.last, p.ar.id, p.ar.len)]
                outs += [s for p in ms for s in (p.b.id, p.r.id)]
            else:
                outs += [None] * (5 * k + 2 * n)
            outs += [top.ctrl._bus_errors.status]
            q += [None] * (5 * k + 2 * n + 1)
            self.name += "+SoCController(bus_errors=%#x)+payload" % soc_init
            self.lean_open = "axsoc %d %d %d %d %d %d %d" % (int(full), n, k, t, dw, sh, soc_init)
        self.qual = q
        self.alphabet = alphabet or []
        self._finish(top, ins, outs)
        if soc_init is not None:
            _preload_counter(self.netlist, soc_init)

    def nontrivial(self, letter, outs):
        n, k = self.n, self.k
        w = any(letter[4 * i] or letter[4 * i + 2] for i in range(n))
        b = 4 * n + 4 * k
        r = any(letter[b + 3 * i] for i in range(n))
        return w or r

    def make_env(self, rng):
        if self.soc_init is None:
            return AxEnv(self, rng)
        inner, inst = AxEnv(self, rng), self

        class Env:
            """control letter of AxEnv + random payload (ids of the slaves too: a silent slave drives anything)"""
            def letter(self, rng, c, last):
                base = inner.letter(rng, c, last)
                if not inst.full:
                    return base + (0,) * (5 * inst.n + 2 * inst.k)
                pay = []
                for _ in range(inst.n):
                    pay += [rng.getrandbits(2), rng.choice((0, 0, 1, 3, 255)), rng.getrandbits(1), rng.getrandbits(2),
                            rng.choice((0, 0, 1, 3, 255))]
                for _ in range(inst.k):
                    pay += [rng.getrandbits(2) if rng.random() < 0.5 else 0, rng.getrandbits(2) if rng.random() < 0.5 else 0]
                return base + tuple(pay)
        return Env()

    def make_monitor(self):
        if self.t is None or self.kind != "shared":
            return NullMonitor()
        mon = AxMonitor(self.n, self.k, self.t, self.dw, self.sh, self.full)
        if self.soc_init is None:
            return mon
        seen = [0, 0]

        def events():
            dw_, dr_ = mon.w.stats["timeouts"] - seen[0], mon.r.stats["timeouts"] - seen[1]
            seen[0], seen[1] = mon.w.stats["timeouts"], mon.r.stats["timeouts"]
            return 1 if (dw_ or dr_) else 0          # one pulse per cycle: `error = wr_error | rd_error`
        n, k = self.n, self.k
        return SocMonitor(mon, 7 * n + 9 * k, 9 * n + 7 * k + 3, self.soc_init, events,
                          pay=(n, k) if self.full else None)


def ax_alphabet(n, k, sh, direction, full, m_parts=None, s_parts=None):
    """Product alphabet for one direction (the other direction is held idle)."""
    slots = [s << sh for s in range(k + 1)]
    if direction == "w":
        if m_parts is None:
            m_parts = [(a, ad, w, br) for a in (0, 1) for ad in slots for w in (0, 1) for br in (0, 1)]
        if s_parts is None:
            s_parts = [(ar, wr, bv, 1 if bv else 0) for ar in (0, 1) for wr in (0, 1) for bv in (0, 1)]
        zr = (0,) * (3 * n + 5 * k)
        return [tuple(itertools.chain.from_iterable(c)) + zr
                for c in itertools.product(*([m_parts] * n + [s_parts] * k))]
    if m_parts is None:
        m_parts = [(a, ad, rr) for a in (0, 1) for ad in slots for rr in (0, 1)]
    if s_parts is None:
        s_parts = [(ar, rv, 1 if rv else 0, 0x5a if rv else 0, l) for ar in (0, 1) for rv in (0, 1)
                   for l in ((0, 1) if full else (0,))]
    zw = (0,) * (4 * n + 4 * k)
    return [zw + tuple(itertools.chain.from_iterable(c))
            for c in itertools.product(*([m_parts] * n + [s_parts] * k))]


def ax_soc_alphabet(n, k, sh, full):
    """Both directions active at once (simultaneous write and read expiry is the corner of `error = wr_error |
    rd_error`), payload (ids, len, last) toggled together; AXI-Lite: payload 0."""
    mparts = [((0, 0, 0, 1), (0, 0, 1), (0, 0, 0, 0, 0)), ((1, 0, 1, 1), (1, 0, 1), (3, 1, 1, 2, 3)),
              ((1, k << sh, 1, 0), (0, 0, 1), (1, 255, 0, 0, 0)), ((0, 0, 0, 1), (1, k << sh, 0), (0, 0, 1, 1, 7))]
    sparts = [((0, 0, 0, 0), (0, 0, 0, 0, 0), (0, 0)), ((1, 1, 0, 0), (1, 0, 0, 0, 0), (1, 2)),
              ((0, 0, 1, 1), (0, 1, 1, 0x5a, 1), (3, 1))]
    if n * k > 1:
        mparts, sparts = mparts[:3], (sparts if n == 1 else sparts[:2])
    out = []
    for combo in itertools.product(*([mparts] * n + [sparts] * k)):
        ms, ss = combo[:n], combo[n:]
        l = [v for m in ms for v in m[0]] + [v for s_ in ss for v in s_[0]] + \
            [v for m in ms for v in m[1]] + [v for s_ in ss for v in s_[1]]
        if full:
            l += [v for m in ms for v in m[2]] + [v for s_ in ss for v in s_[2]]
        else:
            l += [0] * (5 * n + 2 * k)
        out.append(tuple(l))
    return out


class AxEnv:
    """Protocol-following AXI(-Lite) masters (valid held until ready; B/R accepted with random delay) and slaves
    that, per request, either accept after a latency chosen around the timeout or never accept; accepted requests
    are answered after a short random latency.  (Slaves that accept and then never answer are the
    response-phase finding and are exercised by its probe, not here.)"""
    def __init__(self, inst, rng):
        self.i = inst
        n, k = inst.n, inst.k
        self.mw = [dict(st="idle", aw=0, w=0, adr=0, gap=rng.randint(0, 3)) for _ in range(n)]
        self.mr = [dict(st="idle", adr=0, gap=rng.randint(0, 3)) for _ in range(n)]
        self.sw = [dict(aw_seen=0, w_seen=0, lat=self._lat(rng), wlat=self._lat(rng), pend=[], got_aw=0, got_w=0)
                   for _ in range(k)]
        self.sr = [dict(seen=0, lat=self._lat(rng), pend=[], beats=0) for _ in range(k)]
        self.prev = None
        self.unmapped = getattr(inst, "kind", "shared") == "shared"

    def _lat(self, rng):
        t = self.i.t or 4
        r = rng.random()
        if r < 0.15 and getattr(self.i, "kind", "shared") == "shared":
            return None                     # silent (would hang a crossbar for the rest of the run)
        if r < 0.5:
            return max(0, rng.choice((t - 2, t - 1, t, t, t + 1, t + 2)))
        return rng.randint(0, max(1, min(t - 1, 5)))

    def letter(self, rng, c, last):
        inst = self.i
        n, k, sh, dw = inst.n, inst.k, inst.sh, inst.dw
        bw, br_ = 4 * k, 4 * k + 4 * n + 3 * k          # offsets of master views in outs
        sr_ = 4 * k + 4 * n                              # offset of slave read views in outs
        pl = self.prev
        if last is not None and pl is not None:
            for i in range(n):
                awr, wr, bv, _ = last[bw + 4 * i: bw + 4 * i + 4]
                m = self.mw[i]
                if m["st"] == "addr":
                    if m["aw"] and awr and pl[4 * i]:
                        m["aw"] = 0
                    if m["w"] and wr and pl[4 * i + 2]:
                        m["w"] = 0
                    if not m["aw"] and not m["w"]:
                        m["st"] = "resp"
                elif m["st"] == "resp":
                    m["age"] = m.get("age", 0) + 1
                    if (bv and pl[4 * i + 3]) or m["age"] > 4 * (inst.t or 4) + 20:
                        m["st"] = "idle"                 # response taken (or software watchdog: response phase
                        m["age"] = 0                     # is not covered by the bus timeout)
                        m["gap"] = rng.choice((0, 0, 1, 3))
                arr, rv, _, _, rl = last[br_ + 5 * i: br_ + 5 * i + 5]
                m = self.mr[i]
                if m["st"] == "addr":
                    if arr and pl[4 * n + 4 * k + 3 * i]:
                        m["st"] = "resp"
                elif m["st"] == "resp":
                    m["age"] = m.get("age", 0) + 1
                    if (rv and pl[4 * n + 4 * k + 3 * i + 2] and (rl or not inst.full)) or \
                            m["age"] > 4 * (inst.t or 4) + 20:
                        m["st"] = "idle"
                        m["age"] = 0
                        m["gap"] = rng.choice((0, 0, 1, 3))
            for j in range(k):
                awv, _, wv, brdy = last[4 * j: 4 * j + 4]
                s = self.sw[j]
                p_awr, p_wr, p_bv, _ = pl[4 * n + 4 * j: 4 * n + 4 * j + 4]
                if awv and p_awr:
                    s["got_aw"] += 1
                    s["aw_seen"] = 0
                    s["lat"] = self._lat(rng)
                elif awv:
                    s["aw_seen"] += 1
                else:
                    if s["aw_seen"]:
                        s["lat"] = self._lat(rng)          # request went away (timed out): new mode next time
                    s["aw_seen"] = 0
                if wv and p_wr:
                    s["got_w"] += 1
                    s["w_seen"] = 0
                    s["wlat"] = s["lat"] if rng.random() < 0.7 else self._lat(rng)
                elif wv:
                    s["w_seen"] += 1
                else:
                    if s["w_seen"]:
                        s["wlat"] = s["lat"] if rng.random() < 0.7 else self._lat(rng)
                    s["w_seen"] = 0
                if s["got_aw"] and s["got_w"]:
                    s["got_aw"] -= 1
                    s["got_w"] -= 1
                    s["pend"].append(rng.randint(0, 4))
                    s["dangling"] = 0
                elif s["got_aw"] or s["got_w"]:
                    # half a write (its other half was absorbed by the timeout): the slave aborts it eventually
                    s["dangling"] = s.get("dangling", 0) + 1
                    if s["dangling"] > 2 * (self.i.t or 4) + 8:
                        s["got_aw"] = s["got_w"] = s["dangling"] = 0
                if p_bv and brdy and s["pend"]:
                    s["pend"].pop(0)
                elif s["pend"] and s["pend"][0] > 0:
                    s["pend"][0] -= 1
                arv, _, rrdy = last[sr_ + 3 * j: sr_ + 3 * j + 3]
                s = self.sr[j]
                o = 4 * n + 4 * k + 3 * n + 5 * j
                p_arr, p_rv, _, _, p_rl = pl[o: o + 5]
                if arv and p_arr:
                    s["pend"].append([rng.randint(0, 4), rng.randint(1, 3) if inst.full else 1])
                    s["seen"] = 0
                    s["lat"] = self._lat(rng)
                elif arv:
                    s["seen"] += 1
                else:
                    if s["seen"]:
                        s["lat"] = self._lat(rng)
                    s["seen"] = 0
                if p_rv and rrdy and s["pend"]:
                    s["pend"][0][1] -= 1
                    if s["pend"][0][1] == 0:
                        s["pend"].pop(0)
                elif s["pend"] and s["pend"][0][0] > 0:
                    s["pend"][0][0] -= 1
        out = []
        for i in range(n):
            m = self.mw[i]
            if m["st"] == "idle":
                if m["gap"] > 0:
                    m["gap"] -= 1
                elif rng.random() < 0.6:
                    m["st"] = "addr"
                    slot = k if (rng.random() < 0.15 and self.unmapped) else rng.randrange(k)
                    m["adr"] = ((slot << sh) | rng.getrandbits(sh)) & ((1 << inst.m_aws[i]) - 1)
                    m["aw"], m["w"] = 1, 1
                    m["wdelay"] = rng.choice((0, 0, 0, 1, 3))
                    # W presented before its AW (legal), by more than the timeout, towards an absent slave: the
                    # timeout answers the lone W while no AW has been accepted
                    m["awdelay"] = 0
                    if slot == k and rng.random() < 0.5:
                        t_ = inst.t or 4
                        m["wdelay"] = 0
                        m["awdelay"] = rng.choice((1, t_, t_ + 1, t_ + 3, 2 * t_ + 4))
            if m["st"] == "addr":
                wv = m["w"]
                if m["w"] and m.get("wdelay", 0) > 0 and m["aw"]:
                    m["wdelay"] -= 1
                    wv = 0
                awv_ = m["aw"]
                if m["aw"] and m.get("awdelay", 0) > 0:
                    m["awdelay"] -= 1
                    awv_ = 0
                out += [awv_, m["adr"], wv, 1 if rng.random() < 0.2 else 0]
            elif m["st"] == "resp":
                out += [0, m["adr"], 0, 1 if rng.random() < 0.7 else 0]
            else:
                out += [0, m["adr"] if rng.random() < 0.7 else rng.getrandbits(inst.m_aws[i]), 0, 1 if rng.random() < 0.2 else 0]
        for j in range(k):
            s = self.sw[j]
            awr = 1 if (s["lat"] is not None and s["aw_seen"] >= s["lat"]) else 0
            wr = 1 if (s["wlat"] is not None and s["w_seen"] >= s["wlat"]) else 0
            if wr and not (s["got_aw"] > s["got_w"] or (awr and s["aw_seen"] > 0)):
                wr = 0                                   # W only together with or after its AW
            bv = 1 if (s["pend"] and s["pend"][0] == 0) else 0
            out += [awr, wr, bv, rng.choice((0, 0, 0, 2, 3)) if bv else 0]
        for i in range(n):
            m = self.mr[i]
            if m["st"] == "idle":
                if m["gap"] > 0:
                    m["gap"] -= 1
                elif rng.random() < 0.6:
                    m["st"] = "addr"
                    slot = k if (rng.random() < 0.15 and self.unmapped) else rng.randrange(k)
                    m["adr"] = ((slot << sh) | rng.getrandbits(sh)) & ((1 << inst.m_aws[i]) - 1)
            if m["st"] == "addr":
                out += [1, m["adr"], 1 if rng.random() < 0.2 else 0]
            elif m["st"] == "resp":
                out += [0, m["adr"], 1 if rng.random() < 0.7 else 0]
            else:
                out += [0, m["adr"] if rng.random() < 0.7 else rng.getrandbits(inst.m_aws[i]), 1 if rng.random() < 0.2 else 0]
        for j in range(k):
            s = self.sr[j]
            arr = 1 if (s["lat"] is not None and s["seen"] >= s["lat"]) else 0
            rv = 1 if (s["pend"] and s["pend"][0][0] == 0) else 0
            last_beat = 1 if (rv and s["pend"][0][1] == 1) else 0
            out += [arr, rv, rng.choice((0, 0, 0, 2)) if rv else 0, rng.getrandbits(dw) if rv else 0,
                    last_beat if inst.full else 0]
        self.prev = tuple(out)
        return self.prev


class _AxDirMon:
    """One direction (write or read) of C11 on an AXI(-Lite) shared interconnect.

    `waited` = consecutive preceding cycles in which the owner had an address/data beat pending that was not
    accepted.  Phases: normal -> (waited == t and still pending: error pulse) -> forced -> (forced response
    handshake) -> normal."""
    def __init__(self, t, dw, full, write):
        self.t, self.dw, self.full, self.write = t, dw, full, write
        self.waited = 0
        self.forced = False
        self.stats = {"timeouts": 0, "forced_responses": 0, "accepted_in_expiry_cycle": 0, "slave_responses": 0,
                      "slave_accepts_during_forced_phase": 0}

    def step(self, req, view, slaves_drive, slaves_see=None):
        """req: owner's (awv, wv, br) or (arv, rr); view: owner's view (awr, wr, bv, bresp) or
        (arr, rv, rresp, rdata, rlast); slaves_drive: the same tuples as driven by each slave; slaves_see: what
        each slave sees of the request side ((awv, wv, br) or (arv, rr)).
        Returns (msg, expected_error)."""
        slaves_see = slaves_see or [None] * len(slaves_drive)
        t = self.t
        msg, exp_err = None, 0
        if self.write:
            awv, wv, brdy = req
            awr, wr, bv, bresp = view
            if self.forced:
                if (awr, wr, bv) != (awv, wv, int(not awv and not wv)):
                    msg = "forced write response: aw.ready/w.ready/b.valid = %r, expected %r" % (
                        (awr, wr, bv), (awv, wv, int(not awv and not wv)))
                elif bv and bresp != 2:
                    msg = "forced B response is not SLVERR (resp=%d)" % bresp
                if bv and brdy:
                    self.forced = False
                    self.stats["forced_responses"] += 1
                if any(sv is not None and ((sv[0] and sd[0]) or (sv[1] and sd[1])) for sd, sv in zip(slaves_drive, slaves_see)):
                    self.stats["slave_accepts_during_forced_phase"] += 1
                self.waited = 0
                return msg, 0
            pending = bool((awv and not awr) or (wv and not wr))
            if awr and not any(s[0] for s in slaves_drive):
                msg = "aw.ready seen by the owner although no slave is ready and no timeout is in progress"
            elif wr and not any(s[1] for s in slaves_drive):
                msg = "w.ready seen by the owner although no slave is ready and no timeout is in progress"
            elif bv and not any(s[2] for s in slaves_drive):
                msg = "b.valid seen by the owner although no slave responds and no timeout is in progress"
            # answered in time => undisturbed: a handshake the slave believes in is the owner's handshake
            for j, (sd, sv) in enumerate(zip(slaves_drive, slaves_see)):
                if msg or sv is None:
                    break
                if sv[0] and sd[0] and not awr:
                    msg = "slave %d accepted AW in time but the owner does not see aw.ready" % j
                elif sv[1] and sd[1] and not wr:
                    msg = "slave %d accepted W in time but the owner does not see w.ready" % j
                elif sd[2] and sv[2] and not (bv and brdy and bresp == sd[3]):
                    msg = "slave %d's B (resp %d) was taken but the owner sees b.valid=%d resp=%d" % (j, sd[3], bv, bresp)
        else:
            arv, rrdy = req
            arr, rv, rresp, rdata, rlast = view
            if self.forced:
                if (arr, rv) != (arv, int(not arv)):
                    msg = "forced read response: ar.ready/r.valid = %r, expected %r" % ((arr, rv), (arv, int(not arv)))
                elif rv and (rresp != 2 or rdata != (1 << self.dw) - 1 or (self.full and not rlast)):
                    msg = "forced R response is not SLVERR/all-ones%s: resp=%d data=%#x last=%d" % (
                        "/last" if self.full else "", rresp, rdata, rlast)
                if rv and rrdy:
                    self.forced = False
                    self.stats["forced_responses"] += 1
                if any(sv is not None and sv[0] and sd[0] for sd, sv in zip(slaves_drive, slaves_see)):
                    self.stats["slave_accepts_during_forced_phase"] += 1
                self.waited = 0
                return msg, 0
            pending = bool(arv and not arr)
            if arr and not any(s[0] for s in slaves_drive):
                msg = "ar.ready seen by the owner although no slave is ready and no timeout is in progress"
            elif rv and not any(s[1] for s in slaves_drive):
                msg = "r.valid seen by the owner although no slave responds and no timeout is in progress"
            for j, (sd, sv) in enumerate(zip(slaves_drive, slaves_see)):
                if msg or sv is None:
                    break
                if sv[0] and sd[0] and not arr:
                    msg = "slave %d accepted AR in time but the owner does not see ar.ready" % j
                elif sd[1] and sv[1] and not (rv and rrdy and (rresp, rdata) == (sd[2], sd[3])):
                    msg = "slave %d's R (resp %d data %#x) was taken but the owner sees r.valid=%d resp=%d data=%#x" % (
                        j, sd[2], sd[3], rv, rresp, rdata)
        if self.waited > t:
            msg = msg or "request pending for %d cycles, timeout is %d" % (self.waited, t)
        if (bv and brdy) if self.write else (rv and rrdy):
            self.stats["slave_responses"] += 1
        if self.waited >= t and not pending:
            self.stats["accepted_in_expiry_cycle"] += 1
        if self.waited >= t and pending:
            exp_err = 1
            self.forced = True
            self.waited = 0
            self.stats["timeouts"] += 1
        else:
            self.waited = self.waited + 1 if pending else 0
        return msg, exp_err


class AxMonitor:
    def __init__(self, n, k, t, dw, sh, full):
        self.n, self.k, self.t, self.dw, self.sh, self.full = n, k, t, dw, sh, full
        self.w = _AxDirMon(t, dw, full, True)
        self.r = _AxDirMon(t, dw, full, False)

    def observe(self, letter, outs):
        n, k = self.n, self.k
        mw = [letter[4 * i:4 * i + 4] for i in range(n)]
        sw = [letter[4 * n + 4 * j:4 * n + 4 * j + 4] for j in range(k)]
        b = 4 * n + 4 * k
        mr = [letter[b + 3 * i:b + 3 * i + 3] for i in range(n)]
        sr = [letter[b + 3 * n + 5 * j:b + 3 * n + 5 * j + 5] for j in range(k)]
        vw = [outs[4 * k + 4 * i:4 * k + 4 * i + 4] for i in range(n)]
        ob = 4 * k + 4 * n + 3 * k
        vr = [outs[ob + 5 * i:ob + 5 * i + 5] for i in range(n)]
        error, gw, gr = outs[ob + 5 * n:ob + 5 * n + 3]
        for i in range(n):
            if i != gw and (vw[i][0] or vw[i][1] or vw[i][2]):
                return "master %d sees a write handshake signal while master %d owns the write channels" % (i, gw)
            if i != gr and (vr[i][0] or vr[i][1]):
                return "master %d sees a read handshake signal while master %d owns the read channels" % (i, gr)
        awv, _, wv, brdy = mw[gw]
        tsw = [outs[4 * j:4 * j + 4] for j in range(k)]
        tsr = [outs[4 * k + 4 * n + 3 * j:4 * k + 4 * n + 3 * j + 3] for j in range(k)]
        m1, e1 = self.w.step((awv, wv, brdy), tuple(vw[gw]), [tuple(s) for s in sw],
                             [(v[0], v[2], v[3]) for v in tsw])
        arv, _, rrdy = mr[gr]
        m2, e2 = self.r.step((arv, rrdy), tuple(vr[gr]), [tuple(s[:4]) for s in sr], [(v[0], v[2]) for v in tsr])
        if m1 or m2:
            return m1 or m2
        if error != (e1 | e2):
            return "error=%d, expected %d (write expiry %d, read expiry %d; timeout %d)" % (error, e1 | e2, e1, e2, self.t)
        return self._after(mw, mr, vw, vr, tsw, tsr, gw, gr)

    # -- "after a timeout the interconnect accepts and completes further requests from every master normally":
    # outstanding = accepted - delivered requests as seen at the owner's port (never negative, 8 bit).  While it is 0
    # the interconnect must be exactly as after reset: the request is routed to the slave its CURRENT address
    # decodes to, and an idle owner hands the channel over to a waiting master in the next cycle.
    out_w = out_r = 0
    pend_grant = (None, None)

    @staticmethod
    def _ctr(c, req, resp):
        if req and resp:
            return c
        if req and c != 255:
            return c + 1
        if resp and c != 0:
            return c - 1
        return c

    def _after(self, mw, mr, vw, vr, tsw, tsr, gw, gr):
        n, k, sh = self.n, self.k, self.sh
        msg = None
        pw, pr = self.pend_grant
        if pw is not None and gw == pw:
            msg = "write channels: master %d was idle with nothing outstanding while another master requested, yet it still " \
                  "owns the channels (grant stuck)" % gw
        elif pr is not None and gr == pr:
            msg = "read channels: master %d was idle with nothing outstanding while another master requested, yet it still " \
                  "owns the channels (grant stuck)" % gr
        awv, awa, wv, brdy = mw[gw]
        arv, ara, rrdy = mr[gr]
        if not msg and self.out_w == 0:
            for j in range(k):
                want = (int(bool(awv and (awa >> sh) == j)), int(bool(wv and (awa >> sh) == j)))
                if (tsw[j][0], tsw[j][2]) != want:
                    msg = "nothing outstanding on the write channels, owner (master %d) drives aw.valid=%d w.valid=%d addr=%#x: " \
                          "slave %d sees aw.valid=%d w.valid=%d, expected %r" % (gw, awv, wv, awa, j, tsw[j][0], tsw[j][2], want)
                    break
        if not msg and self.out_r == 0:
            for j in range(k):
                want = int(bool(arv and (ara >> sh) == j))
                if tsr[j][0] != want:
                    msg = "nothing outstanding on the read channels, owner (master %d) drives ar.valid=%d addr=%#x: slave %d sees " \
                          "ar.valid=%d, expected %d" % (gr, arv, ara, j, tsr[j][0], want)
                    break
        awr_, wr_, bv_, _ = vw[gw]
        arr_, rv_, _, _, rl_ = vr[gr]
        pw = pr = None
        if n > 1:
            if self.out_w == 0 and not (awv or wv or bv_) and any((mw[i][0] or mw[i][2]) for i in range(n) if i != gw):
                pw = gw
            if self.out_r == 0 and not (arv or rv_) and any(mr[i][0] for i in range(n) if i != gr):
                pr = gr
        self.pend_grant = (pw, pr)
        self.out_w = self._ctr(self.out_w, bool(awv and awr_), bool(bv_ and brdy))
        self.out_r = self._ctr(self.out_r, bool(arv and arr_), bool(rv_ and rrdy and (rl_ or not self.full)))
        return msg


# ---------------------------------------------------------------------------------------------------------
# Witnesses of the known findings, replayed on the real code (`probes` in props/c11.py).
# Each returns (still_fails, text).  The oracle is the property: a pending request must be terminated (ack /
# forced SLVERR response) within the configured number of cycles plus the constant protocol latency.

def _build_ax(full, kind, n, k, t, dw=32, sh=4):
    I = axi_full.AXIInterface if full else axi_lite.AXILiteInterface
    ms = [I(data_width=dw, address_width=sh + 2) for _ in range(n)]
    ss = [I(data_width=dw, address_width=sh + 2) for _ in range(k)]
    ash = (dw // 8).bit_length() - 1
    slaves = [((lambda a, j=j: a[sh - ash:] == j), s) for j, s in enumerate(ss)]
    cls = {(False, "shared"): axi_lite.AXILiteInterconnectShared, (False, "xbar"): axi_lite.AXILiteCrossbar,
           (True, "shared"): axi_full.AXIInterconnectShared, (True, "xbar"): axi_full.AXICrossbar}[(full, kind)]
    return cls(ms, slaves, timeout_cycles=t), ms, ss


def wb_silent_slave_latency(kind, t, cycles, unmapped=False):
    """1 master x 1 slave, slave never acks (or the address matches no slave): cycle of the ack, or None."""
    inst = WbSharedInst(1, 1, t, kind=kind)
    n = inst.netlist
    adr = (1 << inst.sh) if unmapped else 0
    for c in range(cycles):
        inst.apply((1, 1, adr, 0, 0, 0))
        outs = inst.sample()
        if outs[3]:
            return c
        n.tick()
    return None


def ax_silent_slave_latency(full, kind, t, cycles, unmapped=False):
    """1 master x 1 slave, the slave never raises a ready/valid; a protocol-following master issues one write and
    one read.  Returns (cycle of the B handshake or None, cycle of the R handshake or None)."""
    m, ms, ss = _build_ax(full, kind, 1, 1, t)
    n = LazyNetlist(m)
    p = ms[0]
    adr = (1 << 4) if unmapped else 0
    st = dict(aw=1, w=1, ar=1)
    done = dict(b=None, r=None)
    n.set(p.aw.addr, adr)
    n.set(p.ar.addr, adr)
    n.set(p.b.ready, 1)
    n.set(p.r.ready, 1)
    for c in range(cycles):
        n.set(p.aw.valid, st["aw"])
        n.set(p.w.valid, st["w"])
        n.set(p.ar.valid, st["ar"])
        n.settle()
        if st["aw"] and n.getu(p.aw.ready):
            st["aw"] = 0
        if st["w"] and n.getu(p.w.ready):
            st["w"] = 0
        if st["ar"] and n.getu(p.ar.ready):
            st["ar"] = 0
        if done["b"] is None and n.getu(p.b.valid):
            done["b"] = c
        if done["r"] is None and n.getu(p.r.valid):
            done["r"] = c
        n.tick()
    return done["b"], done["r"]


def probe_crossbar(t=4, cycles=40):
    """C11-crossbar-timeout-ignored: the three crossbars with timeout_cycles=t and a silent slave."""
    hung = []
    lat = wb_silent_slave_latency("xbar", t, cycles)
    if lat is None:
        hung.append("wishbone.Crossbar: no ack in %d cycles" % cycles)
    for full in (False, True):
        b, r = ax_silent_slave_latency(full, "xbar", t, cycles)
        if b is None or r is None:
            hung.append("%s: no %s in %d cycles" % ("AXICrossbar" if full else "AXILiteCrossbar",
                                                   "/".join(x for x, v in (("B", b), ("R", r)) if v is None), cycles))
    ref = wb_silent_slave_latency("shared", t, cycles)
    import random
    for std in ("wishbone", "axi-lite", "axi"):
        tb = SocTb(std, "crossbar", 16)
        lat, _, _ = tb.access(UNMAPPED[0])
        if lat is None:
            hung.append("SoCMini(%s, crossbar, bus_timeout=16): unmapped read not terminated in 56 cycles, "
                        "interconnect has no .timeout so ctrl.bus_error is never driven" % std)
    return bool(hung), "timeout_cycles=%d, 1x1, silent slave: %s (InterconnectShared: ack in cycle %s)" % (
        t, "; ".join(hung) if hung else "all three crossbars terminate", ref)


def probe_response_phase(t=3, cycles=200):
    """C11-axi-response-phase-unwatched: the slave accepts AW+W / AR at once and never answers."""
    hung = []
    for full in (False, True):
        m, ms, ss = _build_ax(full, "shared", 2, 1, t)
        n = LazyNetlist(m)
        p, q, s = ms[0], ms[1], ss[0]
        for sig in (s.aw.ready, s.w.ready, s.ar.ready, p.b.ready, p.r.ready, q.b.ready, q.r.ready):
            n.set(sig, 1)
        st = dict(aw=1, w=1, ar=1)
        seen = dict(b=None, r=None, err=None, other=None)
        for c in range(cycles):
            n.set(p.aw.valid, st["aw"])
            n.set(p.w.valid, st["w"])
            n.set(p.ar.valid, st["ar"])
            n.set(q.ar.valid, 1 if c > 2 * t else 0)          # a second master wants the bus later on
            if full:
                n.set(p.w.last, 1)
            n.settle()
            for key, sig in (("aw", p.aw.ready), ("w", p.w.ready), ("ar", p.ar.ready)):
                if st[key] and n.getu(sig):
                    st[key] = 0
            for key, sig in (("b", p.b.valid), ("r", p.r.valid), ("err", _error_sig(m, t)), ("other", q.r.valid)):
                if seen[key] is None and sig is not None and n.getu(sig):
                    seen[key] = c
            n.tick()
        if seen["b"] is None or seen["r"] is None:
            hung.append("%s: address/data accepted in cycle 0, then no B/R/error in %d cycles (second master's read "
                        "%s)" % ("AXIInterconnectShared" if full else "AXILiteInterconnectShared", cycles,
                                 "blocked too" if seen["other"] is None else "served"))
    return bool(hung), "timeout_cycles=%d: %s" % (t, "; ".join(hung) if hung else "response phase is timed out")


def probe_stale_response(t=3):
    """C11-axi-stale-late-response: a slow slave takes AW/W (AR) in the RESPOND cycle and answers after the forced
    response; the master's next transaction receives that old response."""
    stale = []
    for full in (False, True):
        m, ms, ss = _build_ax(full, "shared", 1, 1, t)
        n = LazyNetlist(m)
        p, s = ms[0], ss[0]
        ph = "idle"
        log = []               # (cycle, resp) of the B responses the master received
        pend = []              # cycles at which the slave will answer the writes it accepted
        slave_answers = []     # cycles at which the slave's own B was taken
        for c in range(40):
            if c in (0, 12) and ph == "idle":
                ph = "aww"
            n.set(p.aw.valid, int(ph in ("aww", "aw")))
            n.set(p.w.valid, int(ph in ("aww", "w")))
            n.set(p.b.ready, int(ph == "b"))
            if full:
                n.set(p.w.last, 1)
            rdy = int(c >= t + 1)                 # slave wakes up in the RESPOND cycle
            n.set(s.aw.ready, rdy)
            n.set(s.w.ready, rdy)
            bv = int(bool(pend) and pend[0] <= c)
            n.set(s.b.valid, bv)
            n.set(s.b.resp, 0)
            n.settle()
            if n.getu(s.aw.valid) and rdy:
                pend.append(c + 6)
            if bv and n.getu(s.b.ready):
                slave_answers.append(c)
                pend.pop(0)
            a, w = n.getu(p.aw.ready), n.getu(p.w.ready)
            if ph == "aww":
                ph = "b" if a and w else ("w" if a else ("aw" if w else "aww"))
            elif ph == "aw" and a:
                ph = "b"
            elif ph == "w" and w:
                ph = "b"
            elif ph == "b" and n.getu(p.b.valid):
                log.append((c, n.getu(p.b.resp)))
                ph = "idle"
            n.tick()
        # write #2 is accepted by the slave in cycle 12 and answered by it 6 cycles later
        if len(log) >= 2 and log[0][1] == 2 and log[1][0] < 12 + 6:
            stale.append("%s: write#1 forced SLVERR in cycle %d, write#2 (issued cycle 12, slave answers it in cycle 18) "
                         "completes in cycle %d with write#1's late response" % (
                             "AXIInterconnectShared" if full else "AXILiteInterconnectShared", log[0][0], log[1][0]))
    return bool(stale), "timeout_cycles=%d, slave ready from cycle %d, answers 6 cycles after AW: %s" % (
        t, t + 1, "; ".join(stale) if stale else "no stale response delivered")


# ---------------------------------------------------------------------------------------------------------
# End to end: a real SoCMini (no CPU) with a test-bench master, small `bus_timeout`, accesses to unmapped
# addresses interleaved with accesses to a RAM; `SoC.finalize` wiring of timeout.error -> ctrl.bus_errors.

_SOC_IO = None


def build_soc(std, ic, t, dw=32):
    global _SOC_IO
    import envshim
    from litex.build.sim import SimPlatform
    from litex.build.generic_platform import Pins
    from litex.soc.integration.soc_core import SoCMini
    if _SOC_IO is None:
        _SOC_IO = [("sys_clk", 0, Pins(1)), ("sys_rst", 0, Pins(1))]
    plat = SimPlatform("SIM", _SOC_IO)
    envshim.quiet_stderr()
    soc = SoCMini(plat, clk_freq=int(1e6), bus_standard=std, bus_data_width=dw, bus_interconnect=ic, bus_timeout=t)
    soc.add_ram("ram", origin=0x10000000, size=0x100, contents=ram_words(dw))
    if std == "wishbone":
        m = wishbone.Interface(data_width=dw, address_width=32, addressing="word")
    elif std == "axi-lite":
        m = axi_lite.AXILiteInterface(data_width=dw, address_width=32)
    else:
        m = axi_full.AXIInterface(data_width=dw, address_width=32, id_width=1)
    soc.bus.add_master(name="tb", master=m)
    m2 = type(m)(data_width=dw, address_width=32, addressing="word") if std == "wishbone" else \
        type(m)(data_width=dw, address_width=32)
    soc.bus.add_master(name="tb2", master=m2)
    soc.finalize()
    return soc, (m, m2)


class SocTb:
    """Drives one bus transaction at a time on the test-bench master of a finalized SoC."""
    def __init__(self, std, ic, t, dw=32, built=None):
        """built = (top module, master interfaces, SoCBusHandler) for benches that do not use build_soc."""
        self.std, self.ic, self.t, self.dw = std, ic, t, dw
        if built is None:
            self.soc, self.ms = build_soc(std, ic, t, dw)
            self.handler = self.soc.bus
        else:
            self.soc, self.ms, self.handler = built
        self.m = self.ms[0]
        self.n = LazyNetlist(self.soc)
        self.cycle = 0
        self.err_cycles = 0          # cycles with interconnect.timeout.error = 1 (what SoC.finalize wires to ctrl)
        self.slave_hook = None       # called before every settle with the cycle number (harness-played slaves)

    def bus_errors(self):
        self.n.settle()
        return self.n.getu(self.soc.ctrl._bus_errors.status)

    def _tick(self):
        tm = getattr(self.handler._interconnect, "timeout", None)
        if tm is not None and self.n.getu(tm.error):
            self.err_cycles += 1
        if self.slave_hook is not None:
            self.slave_hook()
        self.n.tick()
        self.cycle += 1

    def idle(self, k=1):
        for _ in range(k):
            self.n.settle()
            self._tick()

    def access(self, addr, write=False, data=0, limit=None, master=0):
        """Returns (latency in cycles from the first request cycle to the terminating handshake or None,
        read data or None, error indication seen at the master: all-ones/SLVERR)."""
        n, m, std = self.n, self.ms[master], self.std
        limit = limit or (self.t + 40)
        arb = getattr(self.handler._interconnect, "arbiter", None)
        gsig = None
        if arb is not None:
            gsig = arb.rr.grant if std == "wishbone" else (arb.rr_write.grant if write else arb.rr_read.grant)
        c0 = [None]

        def lat(c):
            """cycles since this master was granted the bus ("after it has been granted")."""
            return c - (c0[0] if c0[0] is not None else 0)

        def seen_grant(c):
            if c0[0] is None and (gsig is None or n.getu(gsig) == master):
                c0[0] = c
        ones = (1 << self.dw) - 1
        if std == "wishbone":
            n.set(m.adr, addr // (self.dw // 8))
            n.set(m.we, int(write))
            n.set(m.dat_w, data)
            n.set(m.sel, (1 << (self.dw // 8)) - 1)
            n.set(m.cyc, 1)
            n.set(m.stb, 1)
            res = (None, None, None)
            for c in range(limit):
                n.settle()
                seen_grant(c)
                if n.getu(m.ack):
                    d = n.getu(m.dat_r)
                    res = (lat(c), d, d == ones and not n.getu(m.err))
                    self._tick()
                    break
                self._tick()
            n.set(m.cyc, 0)
            n.set(m.stb, 0)
            self.idle()
            return res
        full = std == "axi"
        if write:
            st = dict(aw=1, w=1)
            n.set(m.aw.addr, addr)
            n.set(m.w.data, data)
            n.set(m.w.strb, (1 << (self.dw // 8)) - 1)
            if full:
                n.set(m.aw.len, 0)
                n.set(m.aw.size, (self.dw // 8).bit_length() - 1)
                n.set(m.aw.burst, 1)
                n.set(m.w.last, 1)
            res = (None, None, None)
            for c in range(limit):
                n.set(m.aw.valid, st["aw"])
                n.set(m.w.valid, st["w"])
                n.set(m.b.ready, int(not st["aw"] and not st["w"]))
                n.settle()
                seen_grant(c)
                if not st["aw"] and not st["w"] and n.getu(m.b.valid):
                    res = (lat(c), None, n.getu(m.b.resp) == 2)
                    self._tick()
                    break
                if st["aw"] and n.getu(m.aw.ready):
                    st["aw"] = 0
                if st["w"] and n.getu(m.w.ready):
                    st["w"] = 0
                self._tick()
            n.set(m.aw.valid, 0)
            n.set(m.w.valid, 0)
            n.set(m.b.ready, 0)
            self.idle()
            return res
        st = dict(ar=1)
        n.set(m.ar.addr, addr)
        if full:
            n.set(m.ar.len, 0)
            n.set(m.ar.size, (self.dw // 8).bit_length() - 1)
            n.set(m.ar.burst, 1)
        res = (None, None, None)
        for c in range(limit):
            n.set(m.ar.valid, st["ar"])
            n.set(m.r.ready, int(not st["ar"]))
            n.settle()
            seen_grant(c)
            if not st["ar"] and n.getu(m.r.valid):
                d = n.getu(m.r.data)
                ok_last = (not full) or n.getu(m.r.last)
                res = (lat(c), d, n.getu(m.r.resp) == 2 and d == ones and bool(ok_last))
                self._tick()
                break
            if st["ar"] and n.getu(m.ar.ready):
                st["ar"] = 0
            self._tick()
        n.set(m.ar.valid, 0)
        n.set(m.r.ready, 0)
        self.idle()
        return res


RAM0 = 0x10000000
RAM_WORDS = [0x11223344, 0x55667788, 0x99aabbcc]


def ram_words(dw):
    """Initial RAM content, one entry per bus word (upper lanes carry a different pattern on wide buses)."""
    return [w | ((w ^ 0x5a5a5a5a) << 32 if dw > 32 else 0) for w in RAM_WORDS]
UNMAPPED = (0x20000000, 0x40000010, 0x1fffff00)


def soc_scenario(std, ic, t, rng, nops=14, dw=32):
    """Random interleaving of unmapped and RAM accesses.  Returns (list of problems, number of timed-out ops).
    The error indication of a timed-out read is checked on the full bus width."""
    tb = SocTb(std, ic, t, dw)
    exact = t if std == "wishbone" else t + 2
    problems = []
    timeouts = 0
    shadow = ram_words(dw)
    for k in range(nops):
        r = rng.random()
        if r < 0.45:
            addr = rng.choice(UNMAPPED)
            wr = rng.random() < 0.4
            who = rng.randrange(2)
            lat, d, err = tb.access(addr, write=wr, data=rng.getrandbits(dw), master=who)
            timeouts += 1
            if lat is None:
                problems.append("op %d: %s of unmapped %#x not terminated within %d cycles" % (k, "write" if wr else "read", addr, t + 40))
                break
            if lat != exact:
                problems.append("op %d: unmapped access terminated after %d cycles, exact bound %d" % (k, lat, exact))
            if not err:
                problems.append("op %d: unmapped %s terminated without the error indication (all ones on %d bits%s): "
                                "data %s" % (k, "write" if wr else "read", dw, "" if std == "wishbone" else " + SLVERR",
                                             hex(d) if d is not None else None))
        else:
            i = rng.randrange(len(shadow))
            wr = rng.random() < 0.4
            val = rng.getrandbits(dw)
            who = rng.randrange(2)
            lat, d, err = tb.access(RAM0 + (dw // 8) * i, write=wr, data=val, master=who)
            if lat is None:
                problems.append("op %d: RAM access not completed (after %d timeouts)" % (k, timeouts))
                break
            if lat >= exact:
                problems.append("op %d: RAM access took %d cycles" % (k, lat))
            if wr:
                shadow[i] = val
                if err:
                    problems.append("op %d: RAM write answered with an error" % k)
            elif d != shadow[i]:
                problems.append("op %d: RAM word %d reads %#x, expected %#x (after %d timeouts)" % (k, i, d, shadow[i], timeouts))
        if rng.random() < 0.3:
            tb.idle(rng.randint(1, 3))
    be = tb.bus_errors()
    if not problems and be != timeouts:
        problems.append("bus_errors = %d after %d timed-out accesses" % (be, timeouts))
    return problems, timeouts


def measure_env(inst, rng, cycles):
    """Run the real code under the instance's environment with the monitor armed and return the monitor's event
    counters (what the random environment actually exercised) plus its verdict."""
    n = inst.netlist
    root = n.snapshot()
    mon = inst.make_monitor()
    inst.env = None
    msg = None
    for c in range(cycles):
        letter = inst.gen(rng, c)
        inst.apply(letter)
        outs = inst.sample()
        msg = msg or mon.observe(letter, outs)
        n.tick()
    n.restore(root)
    if isinstance(mon, AxMonitor):
        stats = {("write/" + k): v for k, v in mon.w.stats.items()}
        stats.update({("read/" + k): v for k, v in mon.r.stats.items()})
    else:
        stats = dict(getattr(mon, "stats", {}))
    return stats, msg


# ---------------------------------------------------------------------------------------------------------
# Glue: `SoCBusHandler.do_finalize` chooses the interconnect class.  One master and one slave whose region does NOT
# start at 0 must get the shared interconnect (decoder + timeout); only a single slave at origin 0 is wired
# point-to-point (no decoder, no timeout exists there: outside C11's obligation, see C06-p2p-* findings).

class _RegSlave:
    """Harness-played slave with one cycle of latency (registered decisions), mode "ok" or "silent"."""
    def __init__(self, tb, s, std, dw):
        self.tb, self.s, self.std, self.dw = tb, s, std, dw
        self.mode = "ok"
        self.seen = 0                # cycles in which the slave saw a request (cyc / a valid)
        self.pend_b = self.pend_r = 0
        self.DATA = 0xC0FFEE11 & ((1 << dw) - 1)

    def set_mode(self, mode):
        """Takes effect at once (between transactions)."""
        self.mode = mode
        n, s = self.tb.n, self.s
        if self.std == "wishbone":
            n.set(s.ack, 0)
        else:
            for sig in (s.aw.ready, s.w.ready, s.ar.ready):
                n.set(sig, int(mode == "ok"))

    def hook(self):
        """Called after the cycle settled, before the clock edge: sample, then drive next cycle's outputs."""
        n, s = self.tb.n, self.s
        if self.std == "wishbone":
            req = n.getu(s.cyc) and n.getu(s.stb)
            self.seen += 1 if n.getu(s.cyc) else 0
            acked = n.getu(s.ack)
            n.set(s.ack, 1 if (req and not acked and self.mode == "ok") else 0)
            n.set(s.dat_r, self.DATA)
            return
        ok = self.mode == "ok"
        self.seen += 1 if (n.getu(s.aw.valid) or n.getu(s.w.valid) or n.getu(s.ar.valid)) else 0
        if n.getu(s.aw.valid) and n.getu(s.aw.ready):
            self.pend_b += 1
        if n.getu(s.b.valid) and n.getu(s.b.ready):
            self.pend_b -= 1
        if n.getu(s.ar.valid) and n.getu(s.ar.ready):
            self.pend_r += 1
        if n.getu(s.r.valid) and n.getu(s.r.ready):
            self.pend_r -= 1
        for sig in (s.aw.ready, s.w.ready, s.ar.ready):
            n.set(sig, int(ok))
        n.set(s.b.valid, int(self.pend_b > 0))
        n.set(s.b.resp, 0)
        n.set(s.r.valid, int(self.pend_r > 0))
        n.set(s.r.resp, 0)
        n.set(s.r.data, self.DATA)
        if self.std == "axi":
            n.set(s.r.last, 1)


def build_handler_1x1(std, t, origin, size, dw=32):
    """One master, one slave, built through SoCBusHandler exactly as SoC code does."""
    import envshim
    from litex.gen import LiteXModule
    from litex.soc.integration.soc import SoCBusHandler, SoCRegion
    envshim.quiet_stderr()
    bus = SoCBusHandler(standard=std, data_width=dw, address_width=32, timeout=t, interconnect="shared")
    if std == "wishbone":
        mk = lambda: wishbone.Interface(data_width=dw, address_width=32, addressing="word")
    elif std == "axi-lite":
        mk = lambda: axi_lite.AXILiteInterface(data_width=dw, address_width=32)
    else:
        mk = lambda: axi_full.AXIInterface(data_width=dw, address_width=32)
    m, s = mk(), mk()
    bus.add_master("tb", m)
    bus.add_slave("dev", s, SoCRegion(origin=origin, size=size))
    top = LiteXModule()
    top.bus = bus
    return top, m, s, bus


def handler_1x1_scenario(std, t, rng, origin=0x30000000, size=0x1000, dw=32, nops=10):
    """1 master x 1 slave at a non-zero origin: unmapped addresses and a silent slave must be terminated at the
    exact bound with the error indication and one error pulse each; accesses answered by the slave are undisturbed;
    an unmapped access must not reach the slave.  Returns (problems, number of timed-out ops)."""
    top, m, s, bus = build_handler_1x1(std, t, origin, size, dw)
    tb = SocTb(std, "shared", t, dw, built=(top, (m,), bus))
    sl = _RegSlave(tb, s, std, dw)
    tb.slave_hook = sl.hook
    sl.set_mode("ok")
    exact = t if std == "wishbone" else t + 2
    problems, timeouts = [], 0
    icname = type(bus._interconnect).__name__
    kinds = ["unmapped", "silent", "ok"] + [rng.choice(("unmapped", "silent", "ok", "ok")) for _ in range(nops - 3)]
    rng.shuffle(kinds)
    for k, kind in enumerate(kinds):
        wr = rng.random() < 0.4
        sl.set_mode("silent" if kind == "silent" else "ok")
        addr = rng.choice((0x0, 0x10, origin + 0x10000000, origin - 0x1000)) if kind == "unmapped" else \
            origin + 4 * rng.randrange(8) * (dw // 32)
        seen0, err0 = sl.seen, tb.err_cycles
        lat, d, err = tb.access(addr, write=wr, data=rng.getrandbits(dw))
        tag = "op %d (%s %s %#x, interconnect %s)" % (k, kind, "write" if wr else "read", addr, icname)
        if kind in ("unmapped", "silent"):
            timeouts += 1
            if lat is None:
                problems.append("%s: not terminated within %d cycles" % (tag, t + 40))
                break
            if lat != exact:
                problems.append("%s: terminated after %d cycles, exact bound %d" % (tag, lat, exact))
            if not err:
                problems.append("%s: terminated without the error indication (data %s)" % (tag, hex(d) if d is not None else None))
            if tb.err_cycles - err0 != 1:
                problems.append("%s: %d error pulses, expected 1" % (tag, tb.err_cycles - err0))
            if kind == "unmapped" and sl.seen != seen0:
                problems.append("%s: the unmapped request reached the slave" % tag)
        else:
            if lat is None:
                problems.append("%s: not completed (after %d timeouts)" % (tag, timeouts))
                break
            if err or (not wr and d != sl.DATA):
                problems.append("%s: answered in time but disturbed (data %s, error indication %s)" % (tag, hex(d) if d is not None else None, err))
            if tb.err_cycles != err0:
                problems.append("%s: error pulse on a request answered in time" % tag)
        tb.idle(rng.randint(1, 3))
    return problems, timeouts


def socmini_csr_only_scenario(std, t, rng, csr_origin=0xf0000000, nops=8):
    """SoCMini whose ONLY slave is the CSR bridge at a non-zero origin, one test-bench master: still a decoder and a
    timeout must exist (unmapped accesses terminate at the exact bound, bus_errors counts them, CSR reads work)."""
    import envshim
    from litex.build.sim import SimPlatform
    from litex.build.generic_platform import Pins
    from litex.soc.integration.soc_core import SoCMini
    cls = type("C11SoC", (SoCMini,), {"mem_map": {"csr": csr_origin}})
    envshim.quiet_stderr()
    soc = cls(SimPlatform("SIM", [("sys_clk", 0, Pins(1)), ("sys_rst", 0, Pins(1))]), clk_freq=int(1e6),
              bus_standard=std, bus_data_width=32, bus_interconnect="shared", bus_timeout=t)
    if std == "wishbone":
        m = wishbone.Interface(data_width=32, address_width=32, addressing="word")
    elif std == "axi-lite":
        m = axi_lite.AXILiteInterface(data_width=32, address_width=32)
    else:
        m = axi_full.AXIInterface(data_width=32, address_width=32)
    soc.bus.add_master(name="tb", master=m)
    soc.finalize()
    tb = SocTb(std, "shared", t, 32, built=(soc, (m,), soc.bus))
    icname = type(soc.bus._interconnect).__name__
    exact = t if std == "wishbone" else t + 2
    problems, timeouts = [], 0
    for k in range(nops):
        if k == 0 or rng.random() < 0.5:
            addr = rng.choice((0x0, 0x20000000, csr_origin - 0x10000, 0x7ffffff0))
            wr = rng.random() < 0.3
            lat, d, err = tb.access(addr, write=wr, data=rng.getrandbits(32))
            timeouts += 1
            tag = "op %d (unmapped %s %#x, interconnect %s)" % (k, "write" if wr else "read", addr, icname)
            if lat is None:
                problems.append("%s: not terminated within %d cycles" % (tag, t + 40))
                break
            if lat != exact:
                problems.append("%s: terminated after %d cycles, exact bound %d" % (tag, lat, exact))
            if not err:
                problems.append("%s: no error indication (data %s)" % (tag, hex(d) if d is not None else None))
        else:
            lat, d, err = tb.access(csr_origin + 4)          # ctrl.scratch, reset value 0x12345678
            if lat is None or d != 0x12345678 or err:
                problems.append("op %d (scratch CSR read after %d timeouts, interconnect %s): %r" % (k, timeouts, icname, (lat, d, err)))
    be = tb.bus_errors()
    if not problems and be != timeouts:
        problems.append("bus_errors = %d after %d timed-out accesses (interconnect %s)" % (be, timeouts, icname))
    return problems, timeouts


def probe_accumulated_stalls(t=4):
    """C11-axi-timeout-accumulates-across-transfers: back-to-back writes on a healthy bus; every AW / W beat is
    accepted after at most t - 2 stall cycles, but in every cycle SOME beat is stalled, so the write timer (which
    only reloads in a cycle with no stalled beat) expires: error pulse + forced SLVERR for a transfer that has been
    pending for 2 cycles.  Schedule for t = 4 (per cycle: aw.valid aw.ready | w.valid w.ready):
        c0 AW1 stalled | -          c1 AW1 stalled | W1 stalled      c2 AW1 accepted | W1 stalled
        c3 AW2 stalled | W1 accepted   c4 AW2 stalled | W2 stalled  -> error in c4 (AW2 pending since c3)."""
    assert t == 4
    sched = [(1, 0, 0, 0), (1, 0, 1, 0), (1, 1, 1, 0), (1, 0, 1, 1), (1, 0, 1, 0), (1, 0, 1, 0), (0, 0, 0, 0)]
    hits = []
    for full in (False, True):
        inst = AxSharedInst(full, 1, 1, t, dw=32)
        n = inst.netlist
        zr = (0,) * (3 + 5)
        err_cycle = None
        forced = None
        for c, (awv, awr, wv, wr) in enumerate(sched):
            inst.apply((awv, 0, wv, 0, awr, wr, 0, 0) + zr)
            o = inst.sample()
            if o[-3] and err_cycle is None:
                err_cycle = c
            if err_cycle is not None and c > err_cycle and forced is None and (o[4], o[5]) == (1, 1) and not (awr or wr):
                forced = c                      # owner sees aw.ready = w.ready = 1 although the slave is not ready
            n.tick()
        if err_cycle is not None:
            hits.append("%s: error pulse in cycle %d (longest stall of any single beat: 2 cycles, timeout %d)%s" % (
                "AXIInterconnectShared" if full else "AXILiteInterconnectShared", err_cycle, t,
                ", AW2/W2 absorbed by the timeout in cycle %d" % forced if forced is not None else ""))
    # read side and Wishbone for comparison: every handshake cycle has wait = 0, the timer reloads
    inst = AxSharedInst(False, 1, 1, t, dw=32)
    zw = (0,) * 8
    rd_err = False
    for c in range(24):                          # back-to-back ARs, each stalled 2 cycles, accepted in the third
        inst.apply(zw + (1, 0, 1) + (1 if c % 3 == 2 else 0, 1 if c > 3 else 0, 0, 0, 0))
        rd_err |= bool(inst.sample()[-3])
        inst.netlist.tick()
    wb = WbSharedInst(1, 1, t)
    wb_err = False
    for c in range(24):                          # stb held high across back-to-back acks, each after 2 stall cycles
        wb.apply((1, 1, 0, 1 if c % 3 == 2 else 0, 0, 0x5a))
        wb_err |= bool(wb.sample()[6])
        wb.netlist.tick()
    return bool(hits), "timeout_cycles=%d, back-to-back writes, per-beat stalls <= %d: %s; read side (back-to-back ARs): %s; " \
        "wishbone (stb held across acks): %s" % (t, t - 2, "; ".join(hits) if hits else "no error",
                                                 "error" if rd_err else "no error", "error" if wb_err else "no error")


def _both_directions_silent(t, awid=3, arid=2, arlen=3, init=0, cycles=None):
    """AXIInterconnectShared 1x1 + SoCController (glue as in SoC.finalize): the master issues a write (id `awid`, 2
    beats) and a read (id `arid`, `arlen`+1 beats) in the same cycle to a silent slave that drives id 0.  Returns the
    per-cycle observations (dicts) and the final bus_errors value."""
    inst = AxSharedInst(True, 1, 1, t, dw=8, soc_init=init)
    obs = []
    aw = w = ar = 1
    for c in range(cycles or (t + 6)):
        l = (aw, 0, w, 1, 0, 0, 0, 0, ar, 0, 1, 0, 0, 0, 0, 0, awid, 1, 0, arid, arlen, 0, 0)
        inst.apply(l)
        o = inst.sample()
        d = dict(c=c, awr=o[4], wr=o[5], bv=o[6], bresp=o[7], arr=o[11], rv=o[12], rresp=o[13], rlast=o[15], error=o[16],
                 bid=o[24], rid=o[25], errs=o[26])
        obs.append(d)
        inst.netlist.tick()
        aw, w, ar = (0 if d["awr"] else aw), (0 if d["wr"] else w), (0 if d["arr"] else ar)
    inst.apply((0,) * 23)
    return obs, inst.sample()[26]


def probe_simultaneous_expiry(t=3):
    """Candidate C11-axi-simultaneous-expiry-one-count: write and read time out in the same cycle; both are terminated
    with SLVERR, `bus_errors` advances by 1 (`error = wr_error | rd_error`, one pulse)."""
    obs, errs = _both_directions_silent(t)
    nb = sum(1 for d in obs if d["bv"] and d["bresp"] == 2)
    nr = sum(1 for d in obs if d["rv"] and d["rresp"] == 2)
    return (nb + nr) != errs, "AXIInterconnectShared(1x1,timeout=%d)+SoCController: %d forced B + %d forced R responses, " \
        "bus_errors=%d" % (t, nb, nr, errs)


def probe_forced_response_id(t=3):
    """Candidate C11-axi-forced-response-id: the forced B/R carry the decoder's id mux (0 for a silent slave), not the
    id of the request; a read burst of arlen+1 beats is answered by one beat with `last`."""
    obs, _ = _both_directions_silent(t, awid=3, arid=2, arlen=3)
    b = [d for d in obs if d["bv"]]
    r = [d for d in obs if d["rv"]]
    bad = any(d["bid"] != 3 for d in b) or any(d["rid"] != 2 for d in r)
    return bad, "AXIInterconnectShared(1x1,timeout=%d): write id 3 / read id 2 (arlen 3) to a silent slave: forced B id %s, " \
        "forced R id %s, %d R beat(s), last=%s" % (t, [d["bid"] for d in b], [d["rid"] for d in r], len(r), [d["rlast"] for d in r])
