#!/usr/bin/env python3
"""Regenerates DESIGN.md sections 13 (as-built status table) and 14 (seeded changes) from evidence/, MANIFEST.json,
seeded/*/meta.json and seeded/results.jsonl.  Text between the BEGIN/END markers is replaced."""
import json, glob, os, re
V = os.path.dirname(os.path.dirname(os.path.abspath(__file__)))
man = json.load(open(V + "/MANIFEST.json"))
claimed = {c["property_id"]: c for c in man["checks"]}
kf = json.load(open(V + "/known_findings.json"))["findings"]
titles = {json.loads(l)["id"]: json.loads(l)["title"] for l in open(V + "/properties.jsonl")}
rows = []
for p in sorted(titles):
    f = V + "/evidence/%s.json" % p
    if p not in claimed or not os.path.exists(f):
        rows.append("| %s | not claimed yet | | | | | |" % p); continue
    e = json.load(open(f)); c = e["coverage"]
    inst = c.get("instances", [])
    nfix = sum(1 for x in kf if x["property"] == p and x["status"] == "fixed")
    nopen = sum(1 for x in kf if x["property"] == p and x["status"] == "open")
    rows.append("| %s | %d | %s | %d / %d | %d | %d fixed, %d open | %.0f s |" % (
        p, c.get("obligations", 0), ", ".join(c.get("axioms_used", [])) or "none", sum(1 for i in inst if i.get("exhaustive")), len(inst),
        c.get("evaluations", 0), nfix, nopen, e["wall_s"]))
t13 = ("| id | theorems (= obligations, all discharged) | axioms used | correspondence instances exhaustive / total (quick) | "
       "evaluations (quick) | findings | quick wall (last run, machine possibly loaded) |\n|---|---|---|---|---|---|---|\n" + "\n".join(rows))
last = {}
if os.path.exists(V + "/seeded/results.jsonl"):
    for l in open(V + "/seeded/results.jsonl"):
        r = json.loads(l); last[r["seeded"]] = r
srows = []
for d in sorted(glob.glob(V + "/seeded/C*-*m[0-9]")):
    sid = os.path.basename(d); m = json.load(open(d + "/meta.json"))
    r = last.get(sid)
    if r is None: res = "not run yet"
    elif r["exit"] == 1 and r["no_failing_input_found_lines"] == 0: res = "VIOLATION with concrete failing input"
    elif r["exit"] == 1: res = "VIOLATION, no-failing-input-found (correspondence/proof break)"
    elif r["exit"] == 0: res = "MISSED"
    else: res = "exit %s" % r["exit"]
    summ = (m.get("summary") or "").replace("\n", " ").replace("|", "\\|")
    if len(summ) > 230: summ = summ[:227] + "..."
    srows.append("| %s | %s | %s | %s |" % (sid, ", ".join(m.get("files_changed", [])) if isinstance(m.get("files_changed"), list) else m.get("files_changed", ""), summ, res))
t14 = "| seeded change | files | what it does | result of `./check` (quick tier) |\n|---|---|---|---|\n" + "\n".join(srows)
s = open(V + "/DESIGN.md").read()
for name, body in (("STATUS-TABLE", t13), ("SEEDED-TABLE", t14)):
    b, e_ = "<!-- BEGIN %s -->" % name, "<!-- END %s -->" % name
    if b in s:
        s = s[:s.index(b) + len(b)] + "\n" + body + "\n" + s[s.index(e_):]
open(V + "/DESIGN.md", "w").write(s)
print("rows", len(rows), "seeded", len(srows))
