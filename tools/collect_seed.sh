#!/bin/bash
# tools/collect_seed.sh <PROP> <tag> <worktree>   e.g. C03 r2 /tmp/wt2_c03  -> seeded/C03-r2m{1,2,3}; removes the worktree; confirms.
PROP="$1"; TAG="$2"; WT="$3"; HERE="$(cd "$(dirname "${BASH_SOURCE[0]}")/.." && pwd)"
for k in 1 2 3; do
  src="$WT/_mut/m$k"; [ -f "$src/patch.diff" ] || { echo "missing $src/patch.diff"; continue; }
  d="$HERE/seeded/$PROP-${TAG}m$k"; mkdir -p "$d"; cp "$src/patch.diff" "$src/demo.py" "$src/meta.json" "$d/"
done
git -C /repo worktree remove --force "$WT" 2>/dev/null
for k in 1 2 3; do [ -d "$HERE/seeded/$PROP-${TAG}m$k" ] && "$HERE/tools/confirm_seed.sh" "$PROP-${TAG}m$k"; done
