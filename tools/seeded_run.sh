#!/bin/bash
# tools/seeded_run.sh <seeded-id> [tier]   — run the property's check against a scratch copy of /repo with the
# seeded change applied (never touches /repo; evidence/replays of the run go to a scratch directory).
set -u
ID="$1"; TIER="${2:-quick}"
HERE="$(cd "$(dirname "${BASH_SOURCE[0]}")/.." && pwd)"
D="$HERE/seeded/$ID"
PROP=$(python3 -c "import json;print(json.load(open('$D/meta.json'))['property'])")
W=$(mktemp -d /tmp/seedrun_XXXXXX)
rsync -a --exclude .git /repo/ "$W/repo/"
( cd "$W/repo" && patch -p1 -s < "$D/patch.diff" ) || { echo "patch failed"; rm -rf "$W"; exit 3; }
mkdir -p "$W/ev" "$W/rp"
LITEX_REPO="$W/repo" PYTHONPATH="$W/repo" VERIF_EVIDENCE_DIR="$W/ev" VERIF_REPLAY_DIR="$W/rp" "$HERE/check" "$PROP" --tier "$TIER" > "$W/out.txt" 2>&1
RC=$?
grep -E "VIOLATION|KNOWN-FINDING|prove:|OK " "$W/out.txt" | cut -c1-300
if [ $RC -eq 1 ] && ls "$W/rp"/*.json >/dev/null 2>&1; then
  python3 - "$W/rp" <<'PY'
import json,sys,glob
for f in sorted(glob.glob(sys.argv[1]+"/*.json"))[:2]:
    r=json.load(open(f)); fi=r.get("failing_input")
    print("  replay:", json.dumps(fi)[:400] if fi else "no-failing-input-found; broken: %s" % (r.get("broken_obligations") or [d.get("instance") for d in r.get("disagreements",[])][:3]))
PY
fi
FOUND=$(grep -c "VIOLATION" "$W/out.txt"); NOIN=$(grep -c "no-failing-input-found" "$W/out.txt")
echo "seeded=$ID property=$PROP exit=$RC"
echo "{\"seeded\": \"$ID\", \"property\": \"$PROP\", \"tier\": \"$TIER\", \"exit\": $RC, \"violation_lines\": $FOUND, \"no_failing_input_found_lines\": $NOIN, \"verif_commit\": \"$(git -C "$HERE" rev-parse --short HEAD)\", \"repo_commit\": \"$(git -C /repo rev-parse --short HEAD)\"}" >> "$HERE/seeded/results.jsonl"
rm -rf "$W"
# regenerated tables were written from the mutated copy: restore the committed (clean-tree) versions
git -C "$HERE" checkout -- lean/LitexModel/Generated 2>/dev/null
exit $RC
