#!/bin/bash
# tools/confirm_seed.sh <seeded-id>  — independent confirmation of a seeded change in a scratch copy of /repo:
# patch applies; demo exits 0 on the clean tree and non-zero on the changed tree; the 110 baseline tests still pass.
ID="$1"; HERE="$(cd "$(dirname "${BASH_SOURCE[0]}")/.." && pwd)"; D="$HERE/seeded/$ID"
W=$(mktemp -d /tmp/seedconf_XXXXXX)
rsync -a --exclude .git --exclude _mut /repo/ "$W/clean/"; rsync -a "$W/clean/" "$W/mut/"
( cd "$W/mut" && patch -p1 -s < "$D/patch.diff" ) || { echo "$ID patch-failed"; rm -rf "$W"; exit 3; }
( cd "$W/clean" && PYTHONPATH="$W/clean" timeout 600 /venv/bin/python "$D/demo.py" >/dev/null 2>&1 ); C=$?
( cd "$W/mut" && PYTHONPATH="$W/mut" timeout 600 /venv/bin/python "$D/demo.py" >"$W/demo_mut.txt" 2>&1 ); M=$?
( cd "$W/mut" && PYTHONPATH="$W/mut" /venv/bin/python -m pytest -q -p no:cacheprovider --timeout=900 --continue-on-collection-errors --junitxml="$W/j.xml" >/dev/null 2>&1 )
T=$(python3 - "$W/j.xml" <<'PY'
import json,sys,xml.etree.ElementTree as ET
base=set(json.load(open('/root/.vp/BASELINE.json'))['stable_pass'])
ok=set()
for tc in ET.parse(sys.argv[1]).iter('testcase'):
    if not any(c.tag in('failure','error','skipped') for c in tc): ok.add(tc.get('classname')+'::'+tc.get('name'))
print("%d/%d"%(len(base&ok),len(base)))
PY
)
echo "$ID demo_clean_exit=$C demo_changed_exit=$M baseline_pass=$T :: $(tail -1 "$W/demo_mut.txt" | cut -c1-160)"
rm -rf "$W"
