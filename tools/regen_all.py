#!/venv/bin/python
"""tools/regen_all.py - rewrite lean/LitexModel/Generated/* from the UNCHANGED /repo (run before committing, so that a
seeded run's mutated tables can never be swept into a commit).  Usage: /venv/bin/python tools/regen_all.py"""
import os, sys, importlib
os.environ.pop("LITEX_REPO", None)
os.environ.setdefault("PYTHONHASHSEED", "0")
V = os.path.dirname(os.path.dirname(os.path.abspath(__file__)))
sys.path.insert(0, os.path.join(V, "harness"))
import envshim; envshim.install()
import runner
for p in ("C02", "C17", "C18", "C20"):
    mod = importlib.import_module("props." + p.lower())
    ctx = runner.Ctx(p, "quick", 0)
    mod.regen(ctx)
    print("regen", p, "ok")
