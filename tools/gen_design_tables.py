#!/usr/bin/env python3
"""Regenerates the two finding tables of DESIGN.md §8 (between the markers) from known_findings.json."""
import json, re, os, subprocess
V = os.path.dirname(os.path.dirname(os.path.abspath(__file__)))
s = open(V + "/DESIGN.md").read()
kf = json.load(open(V + "/known_findings.json"))["findings"]
fx = [e for e in kf if e["status"] == "fixed"]; op = [e for e in kf if e["status"] == "open"]
row = lambda e: "| %s | `%s` | %s |" % (e["property"], e["id"], e["what"].replace("|", "\\|"))
ncommits = len(subprocess.check_output(["git", "-C", "/repo", "log", "--format=%h"]).decode().split()) - 1
def sub(head_re, hdr, rows):
    global s
    m = re.search(head_re + r".*?\n\n(\|.*?\n)+", s, re.S)
    start = s.index("|", m.start() + len(m.group(0).split("\n\n")[0]))
    s = s[:start] + hdr + "\n".join(rows) + "\n" + s[m.end():]
s = re.sub(r"### 8\.1 Repaired by `fix:` commits \(\d+ commits, \d+ entries", "### 8.1 Repaired by `fix:` commits (%d commits, %d entries" % (ncommits, len(fx)), s)
s = re.sub(r"### 8\.2 Open known findings \(\d+ entries\)", "### 8.2 Open known findings (%d entries)" % len(op), s)
sub(r"### 8\.1 Repaired", "| property | id | what failed |\n|---|---|---|\n", [row(e) for e in fx])
sub(r"### 8\.2 Open", "| property | id | what fails (the entry's `region` field gives the excluded-region predicate) |\n|---|---|---|\n", [row(e) for e in op])
open(V + "/DESIGN.md", "w").write(s)
print("fixed", len(fx), "open", len(op), "commits", ncommits)
