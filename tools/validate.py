#!/usr/bin/env python3
"""Consistency checks of /verif: MANIFEST and evidence against their schemas, known_findings commit ids against
/repo's history, every non-snapshot commit of /repo is a 'fix:' commit, /repo working tree clean."""
import json, subprocess, sys, os
V = os.path.dirname(os.path.dirname(os.path.abspath(__file__)))
ok = True
def bad(m):
    global ok; ok = False; print("PROBLEM:", m)
try:
    import jsonschema
    man = json.load(open(V + "/MANIFEST.json"))
    jsonschema.validate(man, json.load(open("/root/.vp/MANIFEST.schema.json")))
    props = [json.loads(l)["id"] for l in open(V + "/properties.jsonl")]
    claimed = [c["property_id"] for c in man["checks"]]
    na = [c["property_id"] for c in man.get("not_applicable", [])]
    if sorted(claimed + na) != sorted(props): bad("claimed + not_applicable != properties")
    for p in claimed:
        f = V + "/evidence/%s.json" % p
        if not os.path.exists(f): bad("missing evidence " + p); continue
        ev = json.load(open(f))
        jsonschema.validate(ev, json.load(open("/root/.vp/EVIDENCE.schema.json")))
        c = ev["coverage"]
        if c.get("obligations") != c.get("discharged") or not c.get("obligations"): bad("obligations != discharged in " + p)
        if ev.get("violations"): bad("evidence of %s records violations" % p)
except ImportError:
    print("jsonschema not available (run with python3-vt)")
log = subprocess.check_output(["git", "-C", "/repo", "log", "--format=%h %s"]).decode().splitlines()
ids = {l.split()[0] for l in log}
for l in log[:-1]:
    if not l.split(" ", 1)[1].startswith("fix:"): bad("non-fix commit in /repo: " + l)
kf = json.load(open(V + "/known_findings.json"))
for e in kf["findings"]:
    if e["status"] == "fixed" and e.get("commit") not in ids: bad("unknown commit %s for %s" % (e.get("commit"), e["id"]))
    if e["status"] not in ("open", "fixed"): bad("bad status " + e["id"])
if subprocess.check_output(["git", "-C", "/repo", "status", "--porcelain"]).decode().strip(): bad("/repo working tree not clean")
print("fix commits:", len(log) - 1, "| findings fixed/open:", sum(e["status"] == "fixed" for e in kf["findings"]), "/", sum(e["status"] == "open" for e in kf["findings"]))
print("OK" if ok else "FAILED")
sys.exit(0 if ok else 1)
